#!/usr/bin/env python3
"""Generator of the system-data type zoo (C06, world half of C13).

Input : shape tables - the (shape, presence, held) reference lines that TLC emitted from
        spec/MCSysData.tla (`<<"REPLAY", json>>`), plus shapes composed here (arity patterns with
        distinct resources, deep nestings, wide tuples).  The generator only chooses INPUTS (which
        shapes, which concrete Rust spelling); every expected value comes from TLC: emitted with the
        shape (spec -> implementation) or recomputed from the shape by SysDataTrace (impl -> spec).
Output: Rust source (one `zoo_case!` per shape: tuples of arity 1..26, nested tuples,
        #[derive(SystemData)] named / tuple structs, some with extra lifetimes, type parameters,
        inline bounds and where-clauses) and a JSON descriptor file read by the `zoo` binary.

A shape table is a list of nodes {"t": leaf|tuple|named|tstruct, "kind", "res", "kids"} (1-based
child indices, node 1 = root), exactly as in spec/SysData.tla."""
import argparse, hashlib, json, os, random, re, sys

RES_KINDS = ["Read", "Write", "ReadExpect", "WriteExpect", "OptRead", "OptWrite", "ReadH", "WriteH"]
H_KINDS = ("ReadH", "WriteH")     # Read / Write with the zoo's custom SetupHandler Hc<companion>
NO_KINDS = ["Unit", "Phantom"]
ALL_KINDS = RES_KINDS + NO_KINDS
DEF_KINDS = ("Read", "Write")
STYLES = ["tuple", "named", "tstruct"]
NCONC = 26


# ------------------------------------------------------------------ shape tables (mirror of Leaf / Compose)
def leaf(kind, res=0, comp=0):
    return [{"t": "leaf", "kind": kind, "res": 0 if kind in NO_KINDS else res,
             "comp": comp if kind in H_KINDS else 0, "kids": []}]


def compose(style, subs):
    out = [{"t": style, "kind": "", "res": 0, "comp": 0, "kids": []}]
    for s in subs:
        off = len(out)
        out[0]["kids"].append(off + 1)
        for nd in s:
            out.append({"t": nd["t"], "kind": nd["kind"], "res": nd["res"], "comp": nd.get("comp", 0),
                        "kids": [k + off for k in nd["kids"]]})
    return out


def leaves(tb, n=1):
    x = tb[n - 1]
    if x["t"] == "leaf":
        return [x]
    out = []
    for k in x["kids"]:
        out += leaves(tb, k)
    return out


def depth(tb, n=1):
    x = tb[n - 1]
    return 0 if x["t"] == "leaf" else 1 + max(depth(tb, k) for k in x["kids"])


def nres_of(tb):
    return max([x["res"] for x in tb] + [x.get("comp", 0) for x in tb] + [0])


def norm(tb):
    """canonical key order (TLC prints record fields in its own order)"""
    return [{"t": x["t"], "kind": x["kind"], "res": x["res"], "comp": x.get("comp", 0), "kids": list(x["kids"])} for x in tb]


# ------------------------------------------------------------------ TLC emission
RE_REPLAY = re.compile(r'^<<"REPLAY", (".*")>>\s*$')


def read_replay(path):
    """-> dict key(shape json) -> {"shape":..., "nres":..., "runs":[...]} in file order"""
    groups = {}
    with open(path) as f:
        for line in f:
            m = RE_REPLAY.match(line)
            if not m:
                continue
            d = json.loads(json.loads(m.group(1)))
            sh = norm(d["sh"])
            key = json.dumps(sh, sort_keys=True)
            g = groups.setdefault(key, {"shape": sh, "nres": d["nres"], "runs": []})
            g["runs"].append({"present": d["present"], "held": d["held"],
                              "exp": {"reads": d["reads"], "writes": d["writes"], "out": d["out"], "pres": d["pres"],
                                      "alive": d["alive"], "after": d["after"], "created": d["created"],
                                      "calls": d.get("calls", []),
                                      "w1": [v != 0 for v in d["w1"]]}})
    # TLC's workers print the lines in a varying order: canonical order, so that the generated zoo is a
    # function of VERIF_SEED and of the emitted SET only
    for g in groups.values():
        g["runs"].sort(key=lambda r: json.dumps([r["present"], r["held"]]))
    return [groups[k] for k in sorted(groups)]


# ------------------------------------------------------------------ shapes composed here (impl -> spec only)
def rot_shape(n, rot, style="tuple"):
    """arity n, member i = kind number (i + rot) mod 10 on resource i: every kind reaches every position
    of every arity, all resources distinct (so a dropped member is visible in every list)"""
    return compose(style, [leaf(ALL_KINDS[(i + rot) % len(ALL_KINDS)], i + 1, (i + 1) % n + 1) for i in range(n)])


def all_shape(n, which, phase=0):
    """arity n over n distinct resources, every member contributing to one list: a member dropped at ANY
    position of the n-tuple expansion changes reads() (which = "R"), writes() ("W") or setup ("D")"""
    kinds = {"R": ["Read", "ReadExpect", "OptRead"], "W": ["Write", "WriteExpect", "OptWrite"], "D": ["Read", "Write"],
             "H": ["ReadH", "WriteH"]}[which]      # H: every member's custom handler must be called, whatever exists
    return compose("tuple", [leaf(kinds[(i + phase) % len(kinds)], i + 1, (i + 1) % n + 1) for i in range(n)])


def bare_shapes():
    """derived structs (named and tuple flavour) with one member - first / middle / last - spelled as
    a BARE TYPE PARAMETER `U: SystemData<'a>` and instantiated with a leaf, a tuple or another derived
    struct; -> [(table, node indices to spell as bare parameters)]"""
    out = []
    insts = [leaf("Write", 3), leaf("OptRead", 3), leaf("ReadH", 3, 4),
             compose("tuple", [leaf("Read", 3), leaf("Write", 4)]),
             compose("named", [leaf("Write", 3), leaf("ReadExpect", 4)]),
             compose("tstruct", [leaf("OptWrite", 3), compose("tuple", [leaf("Read", 4)])])]
    for style in ("named", "tstruct"):
        for pos in (0, 1, 2):
            for inst in insts:
                mem = [leaf("Read", 1), leaf("WriteExpect", 2), leaf("Read", 1)]
                mem[pos] = inst
                if pos != 1:
                    mem[1] = leaf("Write", 2)
                tb = compose(style, mem)
                out.append((tb, {tb[0]["kids"][pos]}))
    return out


def twin_shape(rng):
    """shapes for the twin cases (<= 6 resources): tuples of several arities, nestings, derived structs"""
    while True:
        m = rng.random()
        if m < 0.3:
            n = rng.choice([1, 2, 3, 4, 5, 6])
            tb = compose("tuple", [leaf(rng.choice(RES_KINDS), i + 1, (i + 1) % n + 1) for i in range(n)])
        elif m < 0.5:
            n = rng.choice([7, 9, 12, 16, 20, 23, 26])
            nres = rng.randint(2, 5)
            tb = compose("tuple", [rand_leaf(rng, nres, ["Read", "ReadExpect", "OptRead", "Unit", "Phantom", "ReadH"]) for _ in range(n)])
        elif m < 0.8:
            tb = deep_shape(rng)
        else:
            tb = compose(rng.choice(["named", "tstruct"]), [rand_tree(rng, 3, 1, 3, ALL_KINDS, 0.5) for _ in range(rng.randint(1, 4))])
        if 1 <= nres_of(tb) <= 6 and any(x["t"] == "tuple" for x in tb):
            return tb


def overflow_shapes():
    """WIDE nested shapes, always present: the FLATTENED reads()/writes() of a nested tuple exceed 32 ids
    (33..52), over up to 50 distinct resource types, so that a declaration that loses ids beyond some
    fixed capacity differs from the concatenation and from the cells really borrowed"""
    def wk(r, ndef):      # write-style member; only the first `ndef` resources need Default
        return leaf("Write" if r <= ndef else ("WriteExpect" if r % 2 else "OptWrite"), r)
    rk = ["Read", "ReadExpect", "OptRead"]
    out = []
    # three 12-tuples of writes in a tuple: 36 writes over 36 distinct resources
    out.append(compose("tuple", [compose("tuple", [wk(12 * j + i + 1, 18) for i in range(12)]) for j in range(3)]))
    # a 26-tuple of pairs: 52 reads over 26 resources (duplicates)
    out.append(compose("tuple", [compose("tuple", [leaf(rk[i % 3], i + 1), leaf("OptRead", (i * 7) % 26 + 1)]) for i in range(26)]))
    # a tuple of derived structs that contain tuples: 4 x 10 = 40 reads over 20 resources
    out.append(compose("tuple", [compose(["named", "tstruct"][j % 2],
                                         [compose("tuple", [leaf("Read" if i % 2 else "OptRead", (10 * j + i) % 20 + 1) for i in range(10)])])
                                 for j in range(4)]))
    # exactly 33 reads (16 + 16 + 1) and exactly 32 (16 + 16)
    out.append(compose("tuple", [compose("tuple", [leaf("Read", i + 1) for i in range(16)]),
                                 compose("tuple", [leaf("ReadExpect", i + 1) for i in range(16)]),
                                 compose("tuple", [leaf("OptRead", 17)])]))
    out.append(compose("tuple", [compose("tuple", [leaf("Read", i + 1) for i in range(16)]),
                                 compose("tuple", [leaf("OptRead", i + 1) for i in range(16)])]))
    # 40 writes in 8 five-tuples over 40 distinct resources, inside a derived struct
    out.append(compose("named", [compose("tuple", [compose("tuple", [wk(5 * j + i + 1, 20) for i in range(5)]) for j in range(8)])]))
    # a full 26-tuple of writes followed by a 7-tuple of writes: 33 writes
    out.append(compose("tuple", [compose("tuple", [wk(i + 1, 13) for i in range(26)]),
                                 compose("tstruct", [compose("tuple", [wk(27 + i, 13) for i in range(7)])])]))
    # mixed: 45 reads over resources 1..15 and 35 writes over resources 16..50, three levels deep
    reads = [compose("tuple", [leaf(rk[(i + j) % 3], (3 * j + i) % 15 + 1) for i in range(9)]) for j in range(5)]
    writes = [compose("tuple", [leaf("Write" if 16 + 7 * j + i <= 25 else ("WriteExpect" if i % 2 else "OptWrite"), 16 + 7 * j + i)
                                for i in range(7)]) for j in range(5)]
    out.append(compose("tuple", [compose("tuple", reads), compose("named", [compose("tuple", writes)])]))
    return out


def manyfield_shapes():
    """derived structs (named and tuple flavour) with MORE THAN 26 fields - 27, 29, 40, 52, 53 - always
    present: a derive has no arity limit, every field's reads / writes / setup must be there.  Every
    third field writes a resource of its own, the others read one of 8 shared resources; the last
    three fields (Read, Write, Read) use fresh resources, so each of them alone shows in reads(),
    writes() and setup; one Phantom field in the middle can carry the extra lifetime"""
    out = []
    for n in (27, 29, 40, 52, 53):
        for style in ("named", "tstruct"):
            mem, nxt = [], 9
            for i in range(n - 3):
                if i == n // 2:
                    mem.append(leaf("Phantom"))
                elif i % 3 == 0:
                    mem.append(leaf("Write" if nxt <= 18 else ("WriteExpect" if i % 2 else "OptWrite"), nxt))
                    nxt += 1
                else:
                    mem.append(leaf(["Read", "ReadExpect", "OptRead"][i % 3], i % 8 + 1))
            mem += [leaf("Read", nxt), leaf("Write", nxt + 1), leaf("Read", nxt + 2)]
            out.append(compose(style, mem))
    return out


READ_KINDS = ("Read", "ReadExpect", "OptRead", "ReadH")


def readonly_shapes():
    """read-only shapes, always present and always stormed (multi-threaded concurrent fetches)"""
    return [
        leaf("Read", 1), leaf("OptRead", 1), leaf("ReadExpect", 1), leaf("ReadH", 1, 2),
        compose("tuple", [leaf("Read", 1), leaf("OptRead", 1), leaf("ReadExpect", 2)]),
        compose("named", [leaf("Read", 1), leaf("Phantom"), leaf("ReadExpect", 1), leaf("OptRead", 2)]),
        compose("tstruct", [compose("tuple", [leaf("ReadH", 1, 2), leaf("Read", 2)]), leaf("Unit"), leaf("OptRead", 1)]),
        compose("tuple", [compose("named", [leaf("Read", 1)]), compose("tuple", [leaf("ReadExpect", 1), leaf("Read", 3)]),
                          leaf("OptRead", 3)]),
    ]


def is_readonly(tb):
    ks = [x["kind"] for x in tb if x["t"] == "leaf" and x["kind"] not in NO_KINDS]
    return bool(ks) and all(k in READ_KINDS for k in ks)


def rand_leaf(rng, nres, kinds=ALL_KINDS):
    k = rng.choice(kinds)
    r = rng.randint(1, nres)
    c = rng.choice([x for x in range(1, nres + 1) if x != r] or [r])
    return leaf(k, r, c)


def rand_tree(rng, nres, d, maxmem, kinds=ALL_KINDS, pleaf=0.45):
    if d == 0 or rng.random() < pleaf:
        return rand_leaf(rng, nres, kinds)
    m = rng.randint(1, maxmem)
    return compose(rng.choice(STYLES), [rand_tree(rng, nres, d - 1, maxmem, kinds, pleaf) for _ in range(m)])


def deep_shape(rng):
    nres = rng.randint(2, 4)
    kinds = ALL_KINDS if rng.random() < 0.5 else ["Read", "ReadExpect", "OptRead", "OptWrite", "Write", "Unit", "Phantom", "Read", "OptRead", "ReadH"]
    while True:
        d = rng.choice([2, 3, 3])
        tb = compose(rng.choice(STYLES), [rand_tree(rng, nres, d - 1, 4, kinds, 0.35) for _ in range(rng.randint(1, 4))])
        if depth(tb) >= 2 and len(tb) <= 60:
            return tb


def wide_shape(rng):
    n = rng.randint(4, 26)
    mode = rng.random()
    if mode < 0.35:       # distinct resources, random kinds: fetch succeeds when everything needed exists
        perm = list(range(1, n + 1))
        rng.shuffle(perm)
        mem = [leaf(rng.choice(ALL_KINDS), perm[i], perm[(i + rng.randint(1, n - 1)) % n]) for i in range(n)]
    elif mode < 0.6:      # few resources, shared forms only (duplicates in reads())
        nres = rng.randint(2, 5)
        mem = [rand_leaf(rng, nres, ["Read", "ReadExpect", "OptRead", "Unit", "Phantom"]) for _ in range(n)]
    elif mode < 0.8:      # few resources, anything: mostly borrow conflicts
        nres = rng.randint(3, 6)
        mem = [rand_leaf(rng, nres) for _ in range(n)]
    else:                 # some members are small composites
        nres = rng.randint(3, 8)
        mem = [rand_tree(rng, nres, 1, 3, ALL_KINDS, 0.7) for _ in range(n)]
    return compose(rng.choice(STYLES), mem)


# ------------------------------------------------------------------ Rust spelling of a shape
PHANTOMS = ["u8", "str", "dyn Send", "&'a u8", "D0", "(Write<'a, D1>,)", "[u32]", "fn() -> N2"]


class Spelling:
    def __init__(self, rng, case_id, tb, nres_total, bare_nodes=(), twin=False, pdef_res=()):
        """twin: the type is spelled GENERIC in its resource types (P0, P1, ..: type parameters of the
        surrounding generic code); derived structs then take every resource type / composite member
        through their own type parameters"""
        self.rng, self.cid, self.tb = rng, case_id, tb
        self.bare_nodes = set(bare_nodes)
        self.nbare = 0
        self.lt_structs = 0      # derived structs of this type spelled with the extra lifetime 'x
        self.twin = twin
        self.defs = []
        self.nstruct = 0
        self.normalised = 0
        used = sorted({x["res"] for x in tb if x["res"]})
        need_default = {x["res"] for x in tb if x["kind"] in DEF_KINDS or x["kind"] in H_KINDS} \
            | {x["comp"] for x in tb if x["kind"] in H_KINDS}
        pool = list(range(max(4, nres_total) if nres_total <= 8 else NCONC))
        if len(pool) < nres_total:
            pool = list(range(NCONC))
        rng.shuffle(pool)
        self.conc = []
        if twin:
            self.conc = ["P%d" % i for i in range(nres_total)]
        elif nres_total > NCONC:
            # more resources than indices: D_i and N_i are distinct types; the Default-needing
            # resources get the D types first, the others whatever is left
            assert len(need_default) <= NCONC and nres_total <= 2 * NCONC, "too many resources"
            names = ["D%d" % c for c in pool]
            dn = {r: names.pop() for r in sorted(need_default)}
            rest = names + ["N%d" % c for c in range(NCONC)]
            rng.shuffle(rest)
            self.conc = [dn[r] if r in dn else rest.pop() for r in range(1, nres_total + 1)]
        for r in range(1, (0 if (twin or nres_total > NCONC) else nres_total) + 1):
            c = pool[r - 1]
            if r in need_default or rng.random() < 0.4:
                self.conc.append("D%d" % c)
            else:
                self.conc.append("N%d" % c)     # no Default: only Expect / Option forms (or unused)
        self.used = used
        # resources whose Default::default() panics: the X types (Default, but "must be inserted explicitly")
        for k, r in enumerate(sorted(pdef_res)[:4]):
            self.conc[r - 1] = "X%d" % k

    def leaf(self, x, param=None):
        rng = self.rng
        k = x["kind"]
        if k == "Unit":
            return "()"
        if k == "Phantom":
            return "PhantomData<%s>" % (param or rng.choice(PHANTOMS))
        X = param or self.conc[x["res"] - 1]
        if k == "Read":
            return rng.choice(["Read<'a, %s>", "Read<'a, %s, DefaultProvider>"]) % X
        if k == "Write":
            return rng.choice(["Write<'a, %s>", "Write<'a, %s, DefaultProvider>"]) % X
        if k == "ReadExpect":
            return rng.choice(["ReadExpect<'a, %s>", "Read<'a, %s, PanicHandler>"]) % X
        if k == "WriteExpect":
            return rng.choice(["WriteExpect<'a, %s>", "Write<'a, %s, PanicHandler>"]) % X
        if k in H_KINDS:
            return ("Read" if k == "ReadH" else "Write") + "<'a, %s, Hc<%s>>" % (X, self.conc[x["comp"] - 1])
        if k == "OptRead":
            return rng.choice(["Option<Read<'a, %s>>", "Option<ReadExpect<'a, %s>>", "Option<Read<'a, %s, PanicHandler>>"]) % X
        if k == "OptWrite":
            return rng.choice(["Option<Write<'a, %s>>", "Option<WriteExpect<'a, %s>>", "Option<Write<'a, %s, PanicHandler>>"]) % X
        raise ValueError(k)

    def ty(self, n=1):
        x = self.tb[n - 1]
        if x["t"] == "leaf":
            return self.leaf(x)
        if x["t"] == "tuple":
            return "(" + "".join(self.ty(k) + ", " for k in x["kids"]) + ")"
        return self.derived(x)

    def derived(self, x, force_plain=False):
        """#[derive(SystemData)] struct; direct leaf members may be spelled with type parameters,
        a direct Phantom member with an extra lifetime.  The derive macro needs the fetch lifetime to
        be used by some field: a struct of Phantom members gets a `PhantomData<&'a u8>`; a struct
        without any field that can mention 'a has no valid spelling and is turned into a tuple
        (the shape table is changed accordingly: `normalised`)."""
        rng = self.rng
        st0 = (rng.getstate(), self.nstruct, len(self.defs), self.lt_structs)
        name = "Z%d_%d" % (self.cid, self.nstruct)
        self.nstruct += 1
        flavour = "plain" if force_plain else rng.choice(["plain", "plain", "tparam", "tparam_where", "lifetime", "both",
                                                          "bare", "bare_where", "bare_mix"])
        twin = self.twin
        if twin:
            flavour = rng.choice(["bare_mix", "both", "tparam_where"])
        tparams, targs, lts, ltargs, fields = [], [], [], [], []
        nbare = 0
        bounds_inline, bounds_where = [], []
        kids = [self.tb[k - 1] for k in x["kids"]]
        phantoms = [i for i, y in enumerate(kids) if y["t"] == "leaf" and y["kind"] == "Phantom"]
        lt_field = phantoms[0] if phantoms and flavour in ("lifetime", "both") else None
        for i, k in enumerate(x["kids"]):
            y = self.tb[k - 1]
            twin_leaf = twin and y["t"] == "leaf" and y["kind"] in RES_KINDS and y["kind"] not in H_KINDS
            twin_bare = twin and not twin_leaf and not (y["t"] == "leaf" and y["kind"] in NO_KINDS)
            if not force_plain and not twin_leaf and (
                    k in self.bare_nodes or twin_bare
                    or (flavour in ("bare", "bare_where", "bare_mix") and nbare < 3 and rng.random() < 0.5)):
                # the member's type is a bare type parameter U: SystemData<'a>, instantiated at the use site
                p = "U%d" % nbare
                nbare += 1
                targs.append(self.ty(k))
                if flavour == "bare_where" or (flavour == "bare_mix" and rng.random() < 0.5):
                    bounds_inline.append(p)
                    bounds_where.append("%s: SystemData<'a>" % p)
                else:
                    bounds_inline.append("%s: SystemData<'a>" % p)
                fields.append(p)
            elif twin_leaf or (y["t"] == "leaf" and y["kind"] in RES_KINDS and y["kind"] not in H_KINDS
                               and flavour in ("tparam", "tparam_where", "both", "bare_mix")
                               and len(tparams) < 3 and rng.random() < 0.7):
                p = "T%d" % len(tparams)
                tparams.append(p)
                targs.append(self.conc[y["res"] - 1])
                b = rng.choice(["Resource", "Debug + Resource", "Debug + Resource + for<'b> Hrtb<'b>", "Resource + ZRes"])
                if y["kind"] in DEF_KINDS and rng.random() < 0.5:
                    b += " + Default"
                if flavour == "tparam_where" or (flavour == "both" and rng.random() < 0.5):
                    bounds_inline.append(p)
                    bounds_where.append("%s: %s" % (p, b))
                else:
                    bounds_inline.append("%s: %s" % (p, b))
                fields.append(self.leaf(y, p))
            elif i == lt_field and self.lt_structs > 0:
                # At most ONE struct of a type carries the extra lifetime: the derive's where-clause
                # `PhantomData<&'x i64>: SystemData<'a>` of one such struct clashes (E0803 / E0283) with the
                # same obligation at another lifetime that a second such struct brings in wherever it is
                # nested or passed as a type argument.  (Same draws from the generator as the other branch.)
                rng.choice(["'static", "'a"])
                fields.append("PhantomData<u8>")
            elif i == lt_field:
                self.lt_structs += 1
                lts.append("'x")
                ltargs.append(rng.choice(["'static", "'a"]))
                fields.append("PhantomData<&'x i64>")   # pointee unlike every 'a-phantom: no clash of where-clauses
            elif y["t"] == "leaf" and y["kind"] == "Phantom":
                # two fields differing only in a lifetime make the derive's where-clauses ambiguous
                # (E0283): at most one reference-typed phantom per struct
                if tparams and rng.random() < 0.3:
                    fields.append("PhantomData<%s>" % tparams[0])
                else:
                    fields.append("PhantomData<%s>" % rng.choice([q for q in PHANTOMS if q != "&'a u8"]))
            else:
                fields.append(self.ty(k))
        if not any("'a" in f for f in fields):
            # undo and respell
            rng.setstate(st0[0])
            self.nstruct = st0[1]
            del self.defs[st0[2]:]
            self.lt_structs = st0[3]
            if phantoms and not force_plain and not twin:
                r = self.derived_with_a(x, phantoms[0])
                if r:
                    return r
            x["t"] = "tuple"
            self.normalised += 1
            return "(" + "".join(self.ty(k) + ", " for k in x["kids"]) + ")"
        gen = ", ".join(["'a"] + lts + bounds_inline)
        where = (" where " + ", ".join(bounds_where)) if bounds_where else ""
        vis = rng.choice(["pub ", ""])
        self.nbare += nbare
        if x["t"] == "named":
            body = " {" + "".join(" %sf%d: %s," % (vis, i, f) for i, f in enumerate(fields)) + " }"
            self.defs.append("#[derive(SystemData)] pub struct %s<%s>%s%s" % (name, gen, where, body))
        else:
            body = "(" + ", ".join(vis + f for f in fields) + ")"
            self.defs.append("#[derive(SystemData)] pub struct %s<%s>%s%s;" % (name, gen, body, where))
        return "%s<%s>" % (name, ", ".join(["'a"] + ltargs + targs))

    def derived_with_a(self, x, ph):
        """plain struct whose Phantom member number `ph` carries the fetch lifetime"""
        name = "Z%d_%d" % (self.cid, self.nstruct)
        self.nstruct += 1
        fields = []
        for i, k in enumerate(x["kids"]):
            y = self.tb[k - 1]
            if i == ph:
                fields.append("PhantomData<&'a u8>")
            elif y["t"] == "leaf" and y["kind"] == "Phantom":
                fields.append("PhantomData<%s>" % self.rng.choice(["u8", "str", "D0"]))
            else:
                fields.append(self.ty(k))
        if x["t"] == "named":
            self.defs.append("#[derive(SystemData)] pub struct %s<'a> {%s }" % (name, "".join(" f%d: %s," % (i, f) for i, f in enumerate(fields))))
        else:
            self.defs.append("#[derive(SystemData)] pub struct %s<'a>(%s);" % (name, ", ".join(fields)))
        return "%s<'a>" % name


# ------------------------------------------------------------------ selection
def arity_np(tb):
    kids = tb[0]["kids"]
    pos = [i + 1 for i, k in enumerate(kids) if tb[k - 1]["kind"] != "Unit"]
    return len(kids), (pos[0] if pos else 0)


def select_arity(groups, n, rng):
    """every (arity, position) at least once (random kind), then random ones up to n; n <= 0: all"""
    if n <= 0 or n >= len(groups):
        return list(groups)
    by = {}
    for g in groups:
        by.setdefault(arity_np(g["shape"]), []).append(g)
    chosen, rest = [], []
    for key in sorted(by):
        lst = by[key]
        rng.shuffle(lst)
        chosen.append(lst[0])
        rest += lst[1:]
    rng.shuffle(rest)
    if len(chosen) > n:
        rng.shuffle(chosen)
        return chosen[:n]
    return chosen + rest[:n - len(chosen)]


def select_mc(groups, n, rng):
    if n <= 0 or n >= len(groups):
        return list(groups)
    # stratify by (depth, root style, number of nodes) so that rare strata are not starved
    by = {}
    for g in groups:
        tb = g["shape"]
        by.setdefault((depth(tb), tb[0]["t"], min(len(tb), 6)), []).append(g)
    keys = sorted(by)
    for k in keys:
        rng.shuffle(by[k])
    out = []
    while len(out) < n:
        progressed = False
        for k in keys:
            if by[k] and len(out) < n:
                out.append(by[k].pop())
                progressed = True
        if not progressed:
            break
    return out


# ------------------------------------------------------------------ main
UNIT_BINS = ["zoo"] + ["zoo%d" % i for i in range(1, 8)]


def unit_rs(out_dir, bin_name):
    return "%s/%s_cases.rs" % (out_dir, bin_name)


def generate(mc_files, arity_files, seed, n_mc, n_arity, n_rot, n_deep, n_wide, out_dir, desc_dir, units=1,
             extra_mc=2, extra_gen=6, n_twin=0, n_storm=0):
    """-> (stats, [unit...]); unit = {"bin", "rs", "desc", "types", "hash"}.  The cases are dealt
    round-robin to `units` compilation units (bins zoo, zoo1, ..); unused units get the placeholder."""
    rng = random.Random(seed)
    cases = []

    nsiblings = [0]
    npdef = [0]

    def add(origin, tb, nres_shape, runs, extra, bare_nodes=()):
        cid = len(cases) + 1
        nres_total = nres_shape + (1 if nres_shape < NCONC and rng.random() < 0.8 else 0)
        # composed shapes only (TLC's reference lines assume ordinary Defaults): in a share of the cases
        # one or two accessed resources are of a type whose Default panics
        pdef_res = set()
        used0 = sorted({x["res"] for x in tb if x["res"]})
        if not origin.startswith("mc") and used0 and rng.random() < 0.25:
            pdef_res = set(rng.sample(used0, min(len(used0), rng.choice([1, 1, 2]))))
        sp = Spelling(rng, cid, tb, nres_total, bare_nodes, pdef_res=pdef_res)
        npdef[0] += len(pdef_res)
        ty = sp.ty(1)
        # dynamic-id siblings: cells (T, 1) / (T, 2) of Rust types the shape accesses statically; they are
        # further abstract resources that the shape never mentions (the model: never touched)
        nsib = rng.choice([0, 0, 0, 1, 1, 2]) if sp.used and nres_total <= 50 else 0
        sibs = set()
        while len(sibs) < nsib:
            sibs.add((rng.choice(sp.used), rng.choice([1, 2])))
        for r, dyn in sorted(sibs):
            sp.conc.append("%s#%d" % (sp.conc[r - 1], dyn))
        nres_total += len(sibs)
        nsiblings[0] += len(sibs)
        runs2 = []
        for r in runs:
            pad = nres_total - len(r["present"])
            runs2.append({"present": r["present"] + [rng.random() < 0.5 for _ in range(pad)],
                          "held": r["held"] + [0] * pad, "exp": r["exp"]})
        cases.append({"id": cid, "origin": origin, "ty": ty, "defs": sp.defs, "shape": tb, "nres": nres_total,
                      "normalised": sp.normalised, "nbare": sp.nbare,
                      "conc": sp.conc, "runs": runs2, "extra": extra,
                      "pdef": [(r + 1) in pdef_res for r in range(nres_total)]})

    mc = []
    for f in mc_files:
        mc += read_replay(f)
    ar = []
    for f in arity_files:
        ar += read_replay(f)
    n_emitted = {"mc_shapes": len(mc), "mc_lines": sum(len(g["runs"]) for g in mc),
                 "arity_shapes": len(ar), "arity_lines": sum(len(g["runs"]) for g in ar)}
    for g in select_mc(mc, n_mc, rng):
        add("mc", g["shape"], g["nres"], g["runs"], extra_mc)
    for g in select_arity(ar, n_arity, rng):
        add("mc-arity", g["shape"], g["nres"], g["runs"], extra_mc)
    rots = [(n, r) for n in range(1, 27) for r in range(len(ALL_KINDS))]
    rng.shuffle(rots)
    if n_rot < len(rots):
        # every arity first
        first = {}
        for n, r in rots:
            first.setdefault(n, (n, r))
        rest = [x for x in rots if x not in first.values()]
        rots = (list(first.values()) + rest)[:max(n_rot, 0)]
    # always: every arity with every member reading / writing / default-providing a resource of its own
    for n in range(1, 27):
        for which in "RWDH":
            add("gen-all", all_shape(n, which, rng.randint(0, 2)), n, [], extra_gen)
    # always: wide nested shapes whose flattened reads / writes exceed 32 ids
    for tb in overflow_shapes():
        add("gen-overflow", tb, nres_of(tb), [], extra_gen)
    # always: small read-only shapes (stormed)
    for tb in readonly_shapes():
        add("gen-readonly", tb, nres_of(tb), [], extra_gen)
    # always: derived structs with more than 26 fields
    for tb in manyfield_shapes():
        add("gen-manyfields", tb, nres_of(tb), [], extra_gen)
    # always: derived structs with a bare type-parameter member (first / middle / last; leaf, tuple, struct)
    for tb, bare in bare_shapes():
        add("gen-bare", tb, nres_of(tb), [], extra_gen, bare)
    for n, r in rots:
        add("gen-rot", rot_shape(n, r, rng.choice(["tuple", "tuple", "named", "tstruct"])), n, [], extra_gen)
    for _ in range(n_deep):
        tb = deep_shape(rng)
        add("gen-deep", tb, nres_of(tb), [], extra_gen)
    for _ in range(n_wide):
        tb = wide_shape(rng)
        add("gen-wide", tb, nres_of(tb), [], extra_gen)

    # read-only storm: the dedicated shapes plus a spread of the other read-only shapes (by root kind)
    for c in cases:
        c["storm"] = c["origin"] == "gen-readonly"
    groups = {}
    for c in cases:
        if not c["storm"] and is_readonly(c["shape"]) and c["nres"] <= NCONC:
            root = c["shape"][0]
            groups.setdefault((root["t"], root["kind"], any(x["kind"] == "ReadH" for x in c["shape"])), []).append(c)
    left = n_storm
    while left > 0 and any(groups.values()):
        for k in sorted(groups):
            if groups[k] and left > 0:
                groups[k].pop(rng.randrange(len(groups[k])))["storm"] = True
                left -= 1

    # twins: one generic type instantiated from two sibling blocks with same-named local resource types
    twins = []
    next_id = len(cases) + 1
    for _ in range(n_twin):
        tb = twin_shape(rng)
        nres_total = min(nres_of(tb) + 1, 7)
        sp = Spelling(rng, next_id, tb, nres_total, twin=True)
        ty = sp.ty(1)
        pair = []
        for half in "ab":
            pair.append({"id": next_id, "origin": "twin-" + half, "ty": ty, "defs": sp.defs if half == "a" else [],
                         "shape": tb, "nres": nres_total, "normalised": sp.normalised if half == "a" else 0,
                         "nbare": sp.nbare if half == "a" else 0,
                         "conc": ["R%d" % i for i in range(nres_total)], "runs": [], "extra": extra_gen})
            next_id += 1
        twins.append(pair)

    units = max(1, min(units, len(UNIT_BINS)))
    out_units = []
    for u, bin_name in enumerate(UNIT_BINS):
        mine = cases[u::units] if u < units else []
        mytwins = twins[u::units] if u < units else []
        rs = unit_rs(out_dir, bin_name)
        if not mine and not mytwins:
            placeholder(rs)
            continue
        dcases = [{k: c[k] for k in ("id", "origin", "ty", "shape", "nres", "conc", "runs", "extra", "pdef", "storm") if k in c}
                  for c in mine + [h for pr in mytwins for h in pr]]
        h = hashlib.sha1(json.dumps(dcases, sort_keys=True).encode()).hexdigest()[:16]
        dpath = "%s/desc_%s.json" % (desc_dir, bin_name)
        with open(dpath, "w") as f:
            json.dump({"hash": h, "cases": dcases}, f)
        tmp = rs + ".tmp"
        with open(tmp, "w") as f:
            f.write("// GENERATED by harness/gen/zoo.py - build artefact, do not edit\n")
            f.write("pub const GEN_HASH: &str = \"%s\";\n" % h)
            for c in mine:
                for d in c["defs"]:
                    f.write(d + "\n")
                f.write("shredh::zoo_case!(c%d, %d, 'a, %s);\n" % (c["id"], c["id"], c["ty"]))
            f.write("pub static CASES: &[&shredh::zoo::Ops] = &[\n")
            for c in mine:
                f.write("    &c%d::OPS,\n" % c["id"])
            f.write("];\n")
            for a, b in mytwins:
                for d in a["defs"]:
                    f.write(d + "\n")
                n = a["nres"]
                f.write("shredh::zoo_twin!(t%d, %d, %d, 'a, [%s], [%s], %s);\n" % (
                    a["id"], a["id"], b["id"], ", ".join("P%d" % i for i in range(n)),
                    ", ".join("R%d = %d" % (i, i) for i in range(n)), a["ty"]))
            f.write("pub static TWINS: &[shredh::zoo::TwinFn] = &[%s];\n" % ", ".join("t%d::run" % a["id"] for a, _ in mytwins))
        os.replace(tmp, rs)
        out_units.append({"bin": bin_name, "rs": rs, "desc": dpath, "types": len(mine) + 2 * len(mytwins), "hash": h})
    cases = cases + [h for pr in twins for h in pr]
    by_origin = {}
    for c in cases:
        by_origin[c["origin"]] = by_origin.get(c["origin"], 0) + 1
    arities = sorted({len(x["kids"]) for c in cases for x in c["shape"] if x["t"] != "leaf"})
    stats = {"types": len(cases), "units": len(out_units), "by_origin": by_origin, "emitted": n_emitted,
             "derived_structs": sum(len(c["defs"]) for c in cases),
             "structs_without_lifetime_turned_into_tuples": sum(c["normalised"] for c in cases),
             "members_spelled_as_bare_type_parameter": sum(c["nbare"] for c in cases),
             "dynamic_id_sibling_cells": nsiblings[0],
             "read_only_shapes_stormed": sum(1 for c in cases if c.get("storm")),
             "resources_with_panicking_default": npdef[0],
             "max_struct_fields": max([len(x["kids"]) for c in cases for x in c["shape"] if x["t"] in ("named", "tstruct")] + [0]),
             "max_flattened_reads": max([sum(1 for x in c["shape"] if x["kind"] in ("Read", "ReadExpect", "OptRead", "ReadH")) for c in cases] + [0]),
             "max_flattened_writes": max([sum(1 for x in c["shape"] if x["kind"] in ("Write", "WriteExpect", "OptWrite", "WriteH")) for c in cases] + [0]),
             "custom_handler_leaves": sum(1 for c in cases for x in c["shape"] if x["kind"] in H_KINDS),
             "arities_present": arities,
             "arity_positions_covered": len({arity_np(c["shape"]) for c in cases if c["origin"] == "mc-arity"}),
             "max_depth": max([depth(c["shape"]) for c in cases] + [0]),
             "samples": [{"ty": c["ty"], "defs": c["defs"], "origin": c["origin"]}
                         for c in (cases[:1] + [c for c in cases if c["defs"]][-1:])]}
    return stats, out_units


def placeholders(out_dir):
    for b in UNIT_BINS:
        placeholder(unit_rs(out_dir, b))


def placeholder(out_rs):
    with open(out_rs, "w") as f:
        f.write("// placeholder written by harness/gen/zoo.py (the real file is a build artefact of bin/check C06)\n")
        f.write("pub const GEN_HASH: &str = \"placeholder\";\n")
        f.write("pub static CASES: &[&shredh::zoo::Ops] = &[];\n")
        f.write("pub static TWINS: &[shredh::zoo::TwinFn] = &[];\n")


def main():
    ap = argparse.ArgumentParser()
    ap.add_argument("--mc", action="append", default=[])
    ap.add_argument("--arity", action="append", default=[])
    ap.add_argument("--seed", type=int, default=1)
    ap.add_argument("--n-mc", type=int, default=100)
    ap.add_argument("--n-arity", type=int, default=100)
    ap.add_argument("--n-rot", type=int, default=26)
    ap.add_argument("--n-deep", type=int, default=50)
    ap.add_argument("--n-wide", type=int, default=50)
    ap.add_argument("--units", type=int, default=1)
    ap.add_argument("--n-twin", type=int, default=10)
    ap.add_argument("--out-dir", required=True, help="harness/gen-out")
    ap.add_argument("--desc-dir")
    ap.add_argument("--placeholder", action="store_true")
    a = ap.parse_args()
    if a.placeholder:
        placeholders(a.out_dir)
        return
    st, units = generate(a.mc, a.arity, a.seed, a.n_mc, a.n_arity, a.n_rot, a.n_deep, a.n_wide, a.out_dir, a.desc_dir, a.units, n_twin=a.n_twin)
    print(json.dumps({"stats": st, "units": units}))


if __name__ == "__main__":
    main()
