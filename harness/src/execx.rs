//! (stub) filled in by its owner
