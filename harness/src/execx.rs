//! Running real dispatches under the controlled scheduler (DESIGN §4.3) and
//! recording them as events for ShredTrace.tla.

use std::{
    panic::{catch_unwind, AssertUnwindSafe},
    sync::{atomic::Ordering, Arc},
    time::{Duration, Instant},
};

use rand::{rngs::StdRng, Rng, SeedableRng};
use serde_json::{json, Value};
use shred::{Dispatcher, World};

use crate::{build::classify_panic, record::Recorded, sys::*};

#[derive(Clone, Copy, Debug, PartialEq, Eq)]
pub enum Mode {
    Disp,
    Par,
    Seq,
    TlOnly,
}
impl Mode {
    pub fn name(&self) -> &'static str {
        match self {
            Mode::Disp => "disp",
            Mode::Par => "par",
            Mode::Seq => "seq",
            Mode::TlOnly => "tlonly",
        }
    }
}

#[derive(Clone, Debug)]
pub struct ExecOpts {
    pub mode: Mode,
    /// hold every system inside `run` and release one at a time
    pub gated: bool,
    /// how long the set of held systems must be stable before one is released
    pub quiet_us: u64,
    pub seed: u64,
    /// free-running mode: random busy delay inside run (upper bound, micros)
    pub jitter_us: u64,
    /// systems that panic inside run
    pub panics: Vec<usize>,
    /// release policy: 0 random, 1 oldest first, 2 newest first (all after the held set is stable), 3 hasty
    pub policy: u8,
}

#[derive(Default, Debug, Clone)]
pub struct ExecStats {
    pub releases: usize,
    pub max_held: usize,
    pub stalls: usize,
}

/// `dispatcher.setup(world)` on an empty world, then the `world0` event.
pub fn setup_world(r: &mut Recorded, log_setup: bool) -> World {
    let mut world = World::empty();
    let ctx = r.rec.ctx.clone();
    ctx.setup_log.store(log_setup, Ordering::Relaxed);
    ctx.claim_caller();
    if log_setup {
        ctx.ev(json!({"ev":"setupcall","d":r.top,"phase":"begin"}));
    }
    let res = catch_unwind(AssertUnwindSafe(|| r.dispatcher.as_mut().unwrap().setup(&mut world)));
    if log_setup {
        ctx.ev(json!({"ev":"setupcall","d":r.top,"phase":"end","out": if res.is_ok() {"ok"} else {"panic"}}));
    }
    // resources no system mentions in a default-providing way do not exist for
    // harness systems: HData::setup creates all of them.  The two static resources are the exception: a system
    // that only has Option / Expect data creates nothing, the harness provides them.
    for res in [crate::prog::CTL_A, crate::prog::CTL_B] {
        if !r.rec.has_stat {
            break;
        }
        if let Some(c) = ctx.resmap.get(&res) {
            if !world.has_value_raw(c.rid()) {
                c.insert(&mut world, 1000 + res);
            }
        }
    }
    let mut evs = ctx.take_log();
    evs.push(world_event("world0", &ctx, &world));
    r.rec.events.append(&mut evs);
    world
}

pub fn world_values(ctx: &Ctx, world: &World) -> (Vec<u32>, Vec<u32>) {
    let mut rid = Vec::new();
    let mut val = Vec::new();
    for (res, cell) in &ctx.resmap {
        if let Some(v) = cell.read(world) {
            rid.push(*res);
            val.push(v);
        }
    }
    (rid, val)
}

fn world_event(name: &str, ctx: &Ctx, world: &World) -> Value {
    let (rid, val) = world_values(ctx, world);
    json!({"ev":name,"rid":rid,"val":val})
}

/// Quiescent probe (S3): every cell can be borrowed exclusively.
pub fn all_free(ctx: &Ctx, world: &World) -> bool {
    ctx.resmap.values().all(|c| {
        // SAFETY: nothing is replaced; called only when no system runs
        match unsafe { world.try_fetch_internal(c.rid()) } {
            Some(cell) => cell.try_borrow_mut().is_ok(),
            None => true,
        }
    })
}

/// The controller thread: waits until the set of held systems is stable,
/// then releases one.  Timing only influences which overlaps are provoked,
/// never how the recorded trace is judged (S2).
fn controller(ctx: Arc<Ctx>, opts: ExecOpts) -> ExecStats {
    let mut rng = StdRng::seed_from_u64(opts.seed ^ 0x5EED);
    let quiet = Duration::from_micros(opts.quiet_us);
    let mut stats = ExecStats::default();
    let mut g = ctx.gate.lock().unwrap();
    let mut last_progress = Instant::now();
    loop {
        // wait for a stable, non-empty waiting set (or the end of the dispatch)
        loop {
            if g.done && g.waiting.is_empty() {
                return stats;
            }
            let n = g.waiting.len();
            let arr = g.arrivals;
            if opts.policy == 3 && g.waiting.iter().any(|x| !g.released.contains(x)) {
                // hasty controller: whoever arrives is released at once, so a system can finish
                // before its siblings have even been picked up by a worker (minimal overlap)
                break;
            }
            let (g2, to) = ctx.cv.wait_timeout(g, quiet).unwrap();
            g = g2;
            if g.waiting.len() == n && g.arrivals == arr && n > 0 && to.timed_out() {
                break;
            }
            if n == 0 && last_progress.elapsed() > Duration::from_secs(20) {
                stats.stalls += 1;
                last_progress = Instant::now();
            }
        }
        if g.paused || g.hold_until.map(|t| Instant::now() < t).unwrap_or(false) {
            if !g.done {
                continue;
            }
        }
        stats.max_held = stats.max_held.max(g.waiting.len());
        let cand: Vec<usize> = g.waiting.iter().copied().filter(|x| !g.released.contains(x)).collect();
        if cand.is_empty() {
            continue;
        }
        let pick = match opts.policy {
            1 => cand[0],
            2 => *cand.last().unwrap(),
            _ => cand[rng.gen_range(0..cand.len())],
        };
        g.released.insert(pick);
        stats.releases += 1;
        last_progress = Instant::now();
        ctx.cv.notify_all();
    }
}

/// A schedule dictated by a TLC behaviour of MCShred: the order of Finish / PanicIn steps;
/// before each one the set of systems held inside run must be the model's running set.
#[derive(Clone, Debug, Default)]
pub struct Forced {
    /// ("F"|"E"|"P", gid)
    pub steps: Vec<(String, usize)>,
}

#[derive(Default, Debug, Clone)]
pub struct ForcedStats {
    pub releases: usize,
    /// releases at which the held set differed from the model's running set
    pub runset_mismatch: usize,
    /// prescribed system did not arrive in time: something else was released (S8)
    pub deviations: usize,
}

fn forced_controller(ctx: Arc<Ctx>, f: Forced, quiet_us: u64) -> ForcedStats {
    let quiet = Duration::from_micros(quiet_us);
    let mut stats = ForcedStats::default();
    let mut expect: Vec<usize> = Vec::new();
    let mut g = ctx.gate.lock().unwrap();
    for (kind, s) in f.steps.iter() {
        if kind == "F" {
            expect.push(*s);
            continue;
        }
        // wait until the prescribed system is held and the held set is stable
        let t0 = Instant::now();
        let mut ok = false;
        loop {
            if g.done {
                break;
            }
            let n = g.waiting.len();
            let arr = g.arrivals;
            let (g2, to) = ctx.cv.wait_timeout(g, quiet).unwrap();
            g = g2;
            let stable = g.waiting.len() == n && g.arrivals == arr && to.timed_out();
            if stable && g.waiting.contains(s) {
                ok = true;
                break;
            }
            if t0.elapsed() > Duration::from_millis(400) {
                break;
            }
        }
        if g.done {
            break;
        }
        let mut held: Vec<usize> = g.waiting.iter().copied().filter(|x| !g.released.contains(x)).collect();
        held.sort();
        let mut exp = expect.clone();
        exp.sort();
        if held != exp {
            stats.runset_mismatch += 1;
        }
        if ok {
            g.released.insert(*s);
            expect.retain(|x| x != s);
        } else {
            // schedule deviation: not a verdict; the rest of this dispatch runs free (drain below)
            stats.deviations += 1;
            stats.releases += 1;
            break;
        }
        stats.releases += 1;
        ctx.cv.notify_all();
    }
    // drain whatever is left (after a deviation the rest of the schedule is free-running)
    loop {
        if g.done && g.waiting.is_empty() {
            return stats;
        }
        let pending: Vec<usize> = g.waiting.iter().copied().filter(|x| !g.released.contains(x)).collect();
        for x in pending {
            g.released.insert(x);
        }
        ctx.cv.notify_all();
        let (g2, _) = ctx.cv.wait_timeout(g, quiet).unwrap();
        g = g2;
    }
}

/// One top-level dispatch under a forced schedule.
pub fn run_dispatch_forced(r: &mut Recorded, world: &World, mode: Mode, f: &Forced, quiet_us: u64) -> ForcedStats {
    let opts = ExecOpts {
        mode,
        gated: true,
        quiet_us,
        seed: 0,
        jitter_us: 0,
        panics: f.steps.iter().filter(|(k, _)| k == "P").map(|(_, s)| *s).collect(),
        policy: 0,
    };
    let (_, fs) = run_dispatch_with(r, world, &opts, Some(f.clone()));
    fs
}

#[cfg(feature = "parallel")]
thread_local! {
    static DRIVER: std::cell::RefCell<Option<Arc<rayon::ThreadPool>>> = std::cell::RefCell::new(None);
}

/// The following dispatch calls of this thread are made from a worker of `p` (None: from this thread itself).
#[cfg(feature = "parallel")]
pub fn set_driver_pool(p: Option<Arc<rayon::ThreadPool>>) {
    DRIVER.with(|d| *d.borrow_mut() = p);
}

#[cfg(feature = "parallel")]
fn driver_pool() -> Option<Arc<rayon::ThreadPool>> {
    DRIVER.with(|d| d.borrow().clone())
}

/// One top-level dispatch call, recorded as begin .. end.
pub fn run_dispatch(r: &mut Recorded, world: &World, opts: &ExecOpts) -> ExecStats {
    r.rec.ctx.panic_once.store(false, Ordering::Relaxed);
    run_dispatch_with(r, world, opts, None).0
}

fn run_dispatch_with(r: &mut Recorded, world: &World, opts: &ExecOpts, forced: Option<Forced>) -> (ExecStats, ForcedStats) {
    let ctx = r.rec.ctx.clone();
    ctx.claim_caller();
    ctx.log_exec.store(true, Ordering::Relaxed);
    ctx.jitter_us.store(if opts.gated { 0 } else { opts.jitter_us }, Ordering::Relaxed);
    {
        let mut ps = ctx.panic_set.lock().unwrap();
        ps.clear();
        ps.extend(opts.panics.iter().copied());
    }
    {
        let mut g = ctx.gate.lock().unwrap();
        *g = Gate::default();
        g.enabled = opts.gated;
    }
    let mut fsched = None;
    let sched = if let Some(f) = forced {
        let c = ctx.clone();
        let q = opts.quiet_us;
        fsched = Some(std::thread::spawn(move || forced_controller(c, f, q)));
        None
    } else if opts.gated {
        let c = ctx.clone();
        let o = opts.clone();
        Some(std::thread::spawn(move || controller(c, o)))
    } else {
        None
    };
    ctx.ev(json!({"ev":"begin","d":r.top,"mode":opts.mode.name(),"th":ctx.thread()}));
    let d = r.dispatcher.as_mut().unwrap();
    let mode = opts.mode;
    let call = move |d: &mut Dispatcher<'static, 'static>| {
        crate::unwind::ctx(|| {
            catch_unwind(AssertUnwindSafe(|| match mode {
                Mode::Disp => d.dispatch(world),
                #[cfg(feature = "parallel")]
                Mode::Par => d.dispatch_par(world),
                #[cfg(not(feature = "parallel"))]
                Mode::Par => d.dispatch_seq(world),
                Mode::Seq => d.dispatch_seq(world),
                Mode::TlOnly => d.dispatch_thread_local(world),
            }))
        })
    };
    #[cfg(feature = "parallel")]
    let res = match driver_pool() {
        // the dispatch call is made from a worker thread of a rayon pool (its own or a foreign one): that worker is
        // "the calling thread" (thread-local systems run there)
        Some(p) => {
            struct Ptr(*mut Dispatcher<'static, 'static>);
            // SAFETY (harness): the dispatcher is used by exactly one thread at a time - this one waits inside
            // `install` while the worker makes the call; harness systems are `!Send` by marker only
            unsafe impl Send for Ptr {}
            let ptr = Ptr(d as *mut _);
            let (c2, unw) = (ctx.clone(), crate::unwind::active());
            p.install(move || {
                let ptr = ptr;
                c2.claim_caller();
                crate::unwind::set(unw);
                let r = call(unsafe { &mut *ptr.0 });
                crate::unwind::set(false);
                r
            })
        }
        None => call(d),
    };
    #[cfg(not(feature = "parallel"))]
    let res = call(d);
    {
        let mut g = ctx.gate.lock().unwrap();
        g.done = true;
        ctx.cv.notify_all();
    }
    let stats = sched.map(|h| h.join().unwrap()).unwrap_or_default();
    let fstats = fsched.map(|h| h.join().unwrap()).unwrap_or_default();
    {
        let mut g = ctx.gate.lock().unwrap();
        g.enabled = false;
    }
    let (rid, val) = world_values(&ctx, world);
    let free = all_free(&ctx, world);
    let (resk, who, msg) = match &res {
        Ok(()) => ("ok", 0usize, String::new()),
        Err(p) => {
            if let Some(h) = p.downcast_ref::<HPanic>() {
                ("panic", h.0, String::new())
            } else {
                let (_, m) = classify_panic(&**p);
                ("panic", 0, m)
            }
        }
    };
    let borrowpanic = msg.contains("already borrowed") || msg.contains("already mutably borrowed") || msg.contains("already immutably borrowed");
    ctx.ev(json!({"ev":"end","d":r.top,"res":resk,"who":who,"msg":msg,"borrowpanic":borrowpanic,"rid":rid,"val":val,"free":free}));
    let mut evs = ctx.take_log();
    r.rec.events.append(&mut evs);
    (stats, fstats)
}

/// C13: Dispatcher::setup on a world in which `pre` already exist (distinctive values),
/// optionally repeated, then Dispatcher::dispose.  Every harness system logs its own
/// setup / dispose callback.
pub fn lifecycle(r: &mut Recorded, pre: &[crate::prog::Res], repeat: usize, dispatch_between: bool) {
    let ctx = r.rec.ctx.clone();
    ctx.claim_caller();
    ctx.setup_log.store(true, Ordering::Relaxed);
    ctx.log_exec.store(true, Ordering::Relaxed);
    let mut world = World::empty();
    for res in pre {
        ctx.cell(*res).insert(&mut world, 5000 + *res);
    }
    let mut evs: Vec<Value> = Vec::new();
    // (repeat = 0: the dispatcher is disposed without ever having been set up - every system gets its hook all the same)
    for round in 0..repeat {
        evs.push(world_event("presetup", &ctx, &world));
        ctx.ev(json!({"ev":"setupcall","d":r.top,"phase":"begin"}));
        let res = crate::unwind::ctx(|| catch_unwind(AssertUnwindSafe(|| r.dispatcher.as_mut().unwrap().setup(&mut world))));
        evs.append(&mut ctx.take_log());
        let (rid, val) = world_values(&ctx, &world);
        evs.push(json!({"ev":"setupcall","d":r.top,"phase":"end","out": if res.is_ok() {"ok"} else {"panic"},"rid":rid,"val":val}));
        if dispatch_between && round == 0 {
            // a dispatch between two setups: the second setup must not reset anything
            r.rec.events.append(&mut evs);
            r.rec.events.push(world_event("world0", &ctx, &world));
            let opts = ExecOpts { mode: Mode::Disp, gated: false, quiet_us: 200, seed: 1, jitter_us: 0, panics: vec![], policy: 0 };
            run_dispatch(r, &world, &opts);
            ctx.claim_caller();
        }
    }
    ctx.ev(json!({"ev":"disposecall","d":r.top,"phase":"begin"}));
    let d = r.dispatcher.take().unwrap();
    let res = crate::unwind::ctx(move || catch_unwind(AssertUnwindSafe(move || d.dispose(&mut world))));
    evs.append(&mut ctx.take_log());
    evs.push(json!({"ev":"disposecall","d":r.top,"phase":"end","out": if res.is_ok() {"ok"} else {"panic"}}));
    r.rec.events.append(&mut evs);
}

// ---------------------------------------------------------------------------------------
// async dispatcher sessions (C15)

#[cfg(feature = "parallel")]
pub mod asyncx {
    use super::*;
    use crate::{build::Recorder, prog::{Prog, Variant}};
    use shred::AsyncDispatcher;

    pub struct ASession {
        pub rec: Recorder,
        pub ad: AsyncDispatcher<'static, World>,
        pub top: usize,
    }

    /// reset, registration events, build_async, `built` event
    pub fn record_async(prog: &Prog, variant: Variant, prog_no: usize, pool: std::sync::Arc<rayon::ThreadPool>) -> ASession {
        let mut rec = Recorder::new(variant, false);
        rec.events.push(json!({"ev":"reset","prog":prog_no,"var":0}));
        let (b, top) = crate::unwind::ctx(|| rec.build(prog));
        let b = b.with_pool(pool);
        let mut ad = b.build_async(World::empty());
        let dl = ad.verif_layout();
        let (lay, tl) = rec.layout_gids(&dl);
        rec.events.push(json!({"ev":"built","b":top,"out":"ok","lay":lay,"tl":tl,"maxthreads":0,"parallel":false,"same":true}));
        ASession { rec, ad, top }
    }

    fn acall<T>(ctx: &Ctx, op: &str, f: impl FnOnce() -> T) -> Option<T> {
        ctx.ev(json!({"ev":"acall","op":op,"phase":"begin"}));
        let r = crate::unwind::ctx(|| catch_unwind(AssertUnwindSafe(f)));
        r.ok()
    }

    /// Runs a sequence of calls on the async dispatcher while the controller holds the
    /// background systems inside run.  ops: dispatch | running | wait | wait_without_tl |
    /// world | world_mut | setup
    pub fn run_session(s: &mut ASession, ops: &[String], seed: u64, quiet_us: u64, hold_ms: u64, panics: &[usize], setup_log: bool) -> ExecStats {
        let ctx = s.rec.ctx.clone();
        ctx.claim_caller();
        ctx.log_exec.store(true, Ordering::Relaxed);
        ctx.setup_log.store(false, Ordering::Relaxed);
        {
            let mut ps = ctx.panic_set.lock().unwrap();
            ps.clear();
            ps.extend(panics.iter().copied());
        }
        ctx.panic_once.store(true, Ordering::Relaxed);
        // setup first (creates the resources), then the session proper
        s.ad.setup();
        {
            let w: &World = s.ad.world();
            let (rid, val) = world_values(&ctx, w);
            ctx.ev(json!({"ev":"world0","rid":rid,"val":val}));
        }
        ctx.ev(json!({"ev":"abegin","d":s.top}));
        ctx.setup_log.store(setup_log, Ordering::Relaxed);
        {
            let mut g = ctx.gate.lock().unwrap();
            *g = Gate::default();
            g.enabled = true;
            g.paused = true;
        }
        let opts = ExecOpts { mode: Mode::Disp, gated: true, quiet_us, seed, jitter_us: 0, panics: vec![], policy: 0 };
        let c2 = ctx.clone();
        let sched = std::thread::spawn(move || controller(c2, opts));
        for op in ops {
            let blocking = op != "running";
            {
                // non-blocking polls happen while everything is held; a blocking call is
                // given a head start before the first release
                let mut g = ctx.gate.lock().unwrap();
                if blocking {
                    g.paused = false;
                    g.hold_until = Some(Instant::now() + Duration::from_millis(hold_ms));
                } else {
                    g.paused = true;
                }
                ctx.cv.notify_all();
            }
            let ad = &mut s.ad;
            let (out, ret): (bool, Value) = match op.as_str() {
                "dispatch" => {
                    let r = acall(&ctx, op, || ad.dispatch());
                    (r.is_some(), json!(false))
                }
                "running" => {
                    let r = acall(&ctx, op, || ad.running());
                    (r.is_some(), json!(r.unwrap_or(false)))
                }
                "wait" => (acall(&ctx, op, || ad.wait()).is_some(), json!(false)),
                "wait_without_tl" => (acall(&ctx, op, || ad.wait_without_tl()).is_some(), json!(false)),
                "world" => (acall(&ctx, op, || { let _ = ad.world(); }).is_some(), json!(false)),
                // deprecated aliases of world / world_mut
                #[allow(deprecated)]
                "res" => (acall(&ctx, "world", || { let _ = ad.res(); }).is_some(), json!(false)),
                #[allow(deprecated)]
                "mut_res" => (acall(&ctx, "world_mut", || { let _ = ad.mut_res(); }).is_some(), json!(false)),
                "world_mut" => (acall(&ctx, op, || { let _ = ad.world_mut(); }).is_some(), json!(false)),
                _ => (acall(&ctx, "setup", || ad.setup()).is_some(), json!(false)),
            };
            let opname = match op.as_str() {
                "res" => "world",
                "mut_res" => "world_mut",
                x if ["dispatch", "running", "wait", "wait_without_tl", "world", "world_mut"].contains(&x) => x,
                _ => "setup",
            };
            ctx.ev(json!({"ev":"acall","setuplog":setup_log,"op":opname,
                          "phase":"end","out": if out {"ok"} else {"panic"},"ret":ret}));
            if op == "dispatch" {
                // after a dispatch everything is held until the next blocking call
                let mut g = ctx.gate.lock().unwrap();
                g.paused = true;
            }
        }
        // drain: make sure nothing is in flight any more
        {
            let mut g = ctx.gate.lock().unwrap();
            g.paused = false;
            g.hold_until = None;
            ctx.cv.notify_all();
        }
        let _ = catch_unwind(AssertUnwindSafe(|| s.ad.wait_without_tl()));
        {
            let mut g = ctx.gate.lock().unwrap();
            g.done = true;
            ctx.cv.notify_all();
        }
        let stats = sched.join().unwrap();
        {
            let mut g = ctx.gate.lock().unwrap();
            g.enabled = false;
        }
        let mut evs = ctx.take_log();
        s.rec.events.append(&mut evs);
        stats
    }
}
