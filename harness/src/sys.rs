//! Harness systems: self-identifying, really borrowing what they declare,
//! logging at linearisation points (S1), gated by a controller.

use std::{
    collections::{BTreeMap, HashMap, HashSet},
    marker::PhantomData,
    sync::{
        atomic::{AtomicBool, AtomicU64, Ordering},
        Arc, Condvar, Mutex,
    },
    thread::ThreadId,
    time::{Duration, Instant},
};

use serde_json::{json, Value};
use shred::{
    Accessor, AccessorCow, BatchController, Dispatcher, DynamicSystemData, Fetch, FetchMut,
    MultiDispatchController, Read, ResourceId, RunningTime, System, World, Write,
};

use crate::prog::{Res, CTL_A, CTL_B};

pub const M: u64 = 1_000_003;

// ---------------------------------------------------------------- slot types

pub trait SlotVal: Send + Sync + 'static {
    fn get(&self) -> u32;
    fn set(&mut self, v: u32);
}
macro_rules! slot {
    ($n:ident, $pad:ty) => {
        #[derive(Default, Debug)]
        pub struct $n {
            pub val: u32,
            pub pad: $pad,
        }
        impl SlotVal for $n {
            fn get(&self) -> u32 {
                self.val
            }
            fn set(&mut self, v: u32) {
                self.val = v
            }
        }
    };
}
slot!(Slot0, ());
slot!(Slot1, [u8; 3]);
slot!(Slot2, [u64; 4]);
slot!(Slot3, (u16, [u32; 9]));
slot!(CtlA, u8);
slot!(CtlB, [u16; 5]);

#[derive(Clone, Copy, Debug, PartialEq, Eq, Hash, PartialOrd, Ord)]
pub struct Cell {
    pub ty: u8, // 0..3 slots, 4 CtlA, 5 CtlB
    pub dynid: u64,
}
impl Cell {
    pub fn rid(&self) -> ResourceId {
        match self.ty {
            0 => ResourceId::new_with_dynamic_id::<Slot0>(self.dynid),
            1 => ResourceId::new_with_dynamic_id::<Slot1>(self.dynid),
            2 => ResourceId::new_with_dynamic_id::<Slot2>(self.dynid),
            3 => ResourceId::new_with_dynamic_id::<Slot3>(self.dynid),
            4 => ResourceId::new_with_dynamic_id::<CtlA>(self.dynid),
            _ => ResourceId::new_with_dynamic_id::<CtlB>(self.dynid),
        }
    }
    pub fn insert(&self, world: &mut World, val: u32) {
        macro_rules! ins {
            ($t:ident) => {{
                let mut s = $t::default();
                s.val = val;
                world.insert_by_id(self.rid(), s)
            }};
        }
        match self.ty {
            0 => ins!(Slot0),
            1 => ins!(Slot1),
            2 => ins!(Slot2),
            3 => ins!(Slot3),
            4 => ins!(CtlA),
            _ => ins!(CtlB),
        }
    }
    /// Quiescent read through the public checked API.
    pub fn read(&self, world: &World) -> Option<u32> {
        macro_rules! rd {
            ($t:ident) => {
                world.try_fetch_by_id::<$t>(self.rid()).map(|f| f.get())
            };
        }
        match self.ty {
            0 => rd!(Slot0),
            1 => rd!(Slot1),
            2 => rd!(Slot2),
            3 => rd!(Slot3),
            4 => rd!(CtlA),
            _ => rd!(CtlB),
        }
    }
}

pub enum RG<'a> {
    S0(Fetch<'a, Slot0>),
    S1(Fetch<'a, Slot1>),
    S2(Fetch<'a, Slot2>),
    S3(Fetch<'a, Slot3>),
    A(Fetch<'a, CtlA>),
    B(Fetch<'a, CtlB>),
}
impl RG<'_> {
    fn get(&self) -> u32 {
        match self {
            RG::S0(f) => f.get(),
            RG::S1(f) => f.get(),
            RG::S2(f) => f.get(),
            RG::S3(f) => f.get(),
            RG::A(f) => f.get(),
            RG::B(f) => f.get(),
        }
    }
}
pub enum WG<'a> {
    S0(FetchMut<'a, Slot0>),
    S1(FetchMut<'a, Slot1>),
    S2(FetchMut<'a, Slot2>),
    S3(FetchMut<'a, Slot3>),
    A(FetchMut<'a, CtlA>),
    B(FetchMut<'a, CtlB>),
}
impl WG<'_> {
    fn get(&self) -> u32 {
        match self {
            WG::S0(f) => f.get(),
            WG::S1(f) => f.get(),
            WG::S2(f) => f.get(),
            WG::S3(f) => f.get(),
            WG::A(f) => f.get(),
            WG::B(f) => f.get(),
        }
    }
    fn set(&mut self, v: u32) {
        match self {
            WG::S0(f) => f.set(v),
            WG::S1(f) => f.set(v),
            WG::S2(f) => f.set(v),
            WG::S3(f) => f.set(v),
            WG::A(f) => f.set(v),
            WG::B(f) => f.set(v),
        }
    }
}

fn fetch_r<'a>(world: &'a World, c: Cell) -> Option<RG<'a>> {
    let id = c.rid();
    Some(match c.ty {
        0 => RG::S0(world.try_fetch_by_id(id)?),
        1 => RG::S1(world.try_fetch_by_id(id)?),
        2 => RG::S2(world.try_fetch_by_id(id)?),
        3 => RG::S3(world.try_fetch_by_id(id)?),
        4 => RG::A(world.try_fetch_by_id(id)?),
        _ => RG::B(world.try_fetch_by_id(id)?),
    })
}
fn fetch_w<'a>(world: &'a World, c: Cell) -> Option<WG<'a>> {
    let id = c.rid();
    Some(match c.ty {
        0 => WG::S0(world.try_fetch_mut_by_id(id)?),
        1 => WG::S1(world.try_fetch_mut_by_id(id)?),
        2 => WG::S2(world.try_fetch_mut_by_id(id)?),
        3 => WG::S3(world.try_fetch_mut_by_id(id)?),
        4 => WG::A(world.try_fetch_mut_by_id(id)?),
        _ => WG::B(world.try_fetch_mut_by_id(id)?),
    })
}

// ---------------------------------------------------------------- context

#[derive(Default)]
pub struct Gate {
    pub enabled: bool,
    pub waiting: Vec<usize>,
    pub released: HashSet<usize>,
    pub arrivals: u64,
    pub done: bool,
    /// the controller releases nothing before this instant (None: no hold)
    pub hold_until: Option<Instant>,
    /// the controller releases nothing at all while set
    pub paused: bool,
}

/// Shared by all harness systems of one run.
pub struct Ctx {
    pub log: Mutex<Vec<Value>>,
    pub gate: Mutex<Gate>,
    pub cv: Condvar,
    threads: Mutex<HashMap<ThreadId, u32>>,
    /// address every harness system saw for itself (by gid)
    pub addr: Mutex<BTreeMap<usize, usize>>,
    /// systems that must panic inside `run` (C14)
    pub panic_set: Mutex<HashSet<usize>>,
    /// abstract resource -> concrete cell
    pub resmap: BTreeMap<Res, Cell>,
    /// free-running mode: random busy delays inside run (micros upper bound)
    pub jitter_us: AtomicU64,
    pub log_exec: AtomicBool,
    pub setup_log: AtomicBool,
    /// a system of `panic_set` panics only the first time it runs
    pub panic_once: AtomicBool,
}

impl Ctx {
    pub fn new(resmap: BTreeMap<Res, Cell>) -> Arc<Self> {
        Arc::new(Ctx {
            log: Mutex::new(Vec::new()),
            gate: Mutex::new(Gate::default()),
            cv: Condvar::new(),
            threads: Mutex::new(HashMap::new()),
            addr: Mutex::new(BTreeMap::new()),
            panic_set: Mutex::new(HashSet::new()),
            resmap,
            jitter_us: AtomicU64::new(0),
            log_exec: AtomicBool::new(true),
            setup_log: AtomicBool::new(true),
            panic_once: AtomicBool::new(false),
        })
    }
    pub fn cell(&self, r: Res) -> Cell {
        *self.resmap.get(&r).expect("resource mapped")
    }
    pub fn thread(&self) -> u32 {
        let id = std::thread::current().id();
        let mut t = self.threads.lock().unwrap();
        let n = t.len() as u32;
        *t.entry(id).or_insert(n)
    }
    /// Register the calling thread as thread 0 ("the caller").
    pub fn claim_caller(&self) {
        let mut t = self.threads.lock().unwrap();
        t.clear();
        t.insert(std::thread::current().id(), 0);
    }
    pub fn ev(&self, v: Value) {
        crate::progress();
        self.log.lock().unwrap().push(v);
    }
    pub fn take_log(&self) -> Vec<Value> {
        std::mem::take(&mut *self.log.lock().unwrap())
    }
    pub fn note_addr(&self, gid: usize, addr: usize) {
        self.addr.lock().unwrap().insert(gid, addr);
    }
    /// Block inside `run` until the controller releases this system.
    pub fn gate(&self, gid: usize) {
        let mut g = self.gate.lock().unwrap();
        if !g.enabled {
            drop(g);
            let j = self.jitter_us.load(Ordering::Relaxed);
            if j > 0 {
                // cheap deterministic-per-call pseudo random delay
                let x = (gid as u64).wrapping_mul(0x9E3779B97F4A7C15) ^ (Instant::now().elapsed().as_nanos() as u64);
                let d = x % (j + 1);
                let until = Instant::now() + Duration::from_micros(d);
                while Instant::now() < until {
                    std::hint::spin_loop();
                }
            }
            return;
        }
        g.waiting.push(gid);
        g.arrivals += 1;
        self.cv.notify_all();
        while !g.released.remove(&gid) {
            g = self.cv.wait(g).unwrap();
        }
        g.waiting.retain(|x| *x != gid);
        self.cv.notify_all();
    }
}

// ---------------------------------------------------------------- accessor / data

#[derive(Clone, Debug)]
pub struct HAcc {
    /// declared lists exactly as handed to the library (order / duplicates as
    /// chosen by the variant)
    pub decl_r: Vec<ResourceId>,
    pub decl_w: Vec<ResourceId>,
    /// canonical (sorted by abstract id, dedup'd, reads minus writes) lists
    /// that are really borrowed
    pub rd: Vec<(Res, Cell)>,
    pub wr: Vec<(Res, Cell)>,
}

impl Accessor for HAcc {
    fn try_new() -> Option<Self> {
        None
    }
    fn reads(&self) -> Vec<ResourceId> {
        self.decl_r.clone()
    }
    fn writes(&self) -> Vec<ResourceId> {
        self.decl_w.clone()
    }
}

pub struct HData<'a> {
    pub r: Vec<RG<'a>>,
    pub w: Vec<WG<'a>>,
}

impl<'a> DynamicSystemData<'a> for HData<'a> {
    type Accessor = HAcc;

    fn setup(acc: &HAcc, world: &mut World) {
        for (res, c) in acc.rd.iter().chain(acc.wr.iter()) {
            if !world.has_value_raw(c.rid()) {
                c.insert(world, 1000 + *res);
            }
        }
    }

    fn fetch(acc: &HAcc, world: &'a World) -> Self {
        // really borrow everything that was declared: the library's own
        // run-time backstop (AtomicRefCell) is live
        let r = acc
            .rd
            .iter()
            .map(|(res, c)| fetch_r(world, *c).unwrap_or_else(|| panic!("HARNESS: resource {} missing", res)))
            .collect();
        let w = acc
            .wr
            .iter()
            .map(|(res, c)| fetch_w(world, *c).unwrap_or_else(|| panic!("HARNESS: resource {} missing", res)))
            .collect();
        HData { r, w }
    }
}

/// The order-sensitive update every harness system applies (same arithmetic
/// in ShredTrace.tla):  new = (31*old + 7*s + sum_i i*read_i + 1) mod M
pub fn hash_step(old: u32, s: usize, sum: u64) -> u32 {
    ((31 * old as u64 + 7 * s as u64 + sum + 1) % M) as u32
}

// ---------------------------------------------------------------- systems

pub struct HSysT<Mk> {
    pub gid: usize,
    pub acc: HAcc,
    pub t: u8,
    pub ctx: Arc<Ctx>,
    pub tl: bool,
    pub mk: PhantomData<Mk>,
}
pub type HSys = HSysT<()>;
/// `!Send` variant for thread-local registration
pub type HTl = HSysT<std::rc::Rc<()>>;

pub fn rt(t: u8) -> RunningTime {
    match t {
        1 => RunningTime::VeryShort,
        2 => RunningTime::Short,
        3 => RunningTime::Average,
        4 => RunningTime::Long,
        _ => RunningTime::VeryLong,
    }
}

impl<'a, Mk> System<'a> for HSysT<Mk> {
    type SystemData = HData<'a>;

    fn run(&mut self, data: HData<'a>) {
        run_body(self.gid, &self.ctx, data, self as *const _ as usize);
    }

    fn running_time(&self) -> RunningTime {
        rt(self.t)
    }

    fn accessor<'b>(&'b self) -> AccessorCow<'a, 'b, Self> {
        AccessorCow::Ref(&self.acc)
    }

    fn setup(&mut self, world: &mut World) {
        self.ctx.note_addr(self.gid, self as *const _ as usize);
        if self.ctx.setup_log.load(Ordering::Relaxed) {
            self.ctx.ev(json!({"ev":"setup","s":self.gid,"th":self.ctx.thread()}));
        }
        <HData as DynamicSystemData>::setup(&self.acc, world)
    }

    fn dispose(self, _world: &mut World)
    where
        Self: Sized,
    {
        if self.ctx.setup_log.load(Ordering::Relaxed) {
            self.ctx.ev(json!({"ev":"dispose","s":self.gid,"th":self.ctx.thread()}));
        }
    }
}

/// What every harness system does inside `run` (events at the linearisation points, gate, injected panic,
/// the order-sensitive update).
pub fn run_body<'a>(gid: usize, ctx: &Arc<Ctx>, mut data: HData<'a>, me: usize) {
    ctx.note_addr(gid, me);
    let logx = ctx.log_exec.load(Ordering::Relaxed);
    if logx {
        // linearisation point: all guards are held
        ctx.ev(json!({"ev":"fetch","s":gid,"th":ctx.thread()}));
    }
    ctx.gate(gid);
    let must_panic = {
        let mut ps = ctx.panic_set.lock().unwrap();
        let hit = ps.contains(&gid);
        if hit && ctx.panic_once.load(Ordering::Relaxed) {
            ps.remove(&gid);
        }
        hit
    };
    if must_panic {
        if logx {
            ctx.ev(json!({"ev":"panic","s":gid}));
        }
        std::panic::panic_any(HPanic(gid));
    }
    let mut sum: u64 = 0;
    let mut seen = Vec::with_capacity(data.r.len());
    for (i, g) in data.r.iter().enumerate() {
        let v = g.get();
        seen.push(v);
        sum += (i as u64 + 1) * v as u64;
    }
    let mut nv = Vec::with_capacity(data.w.len());
    for g in data.w.iter_mut() {
        let v = hash_step(g.get(), gid, sum);
        g.set(v);
        nv.push(v);
    }
    if logx {
        // still holding every guard
        ctx.ev(json!({"ev":"finish","s":gid,"nv":nv,"seen":seen}));
    }
}



// ---------------------------------------------------------------- zero-sized systems
// Unit structs are what most users register.  A zero-sized system cannot carry its identity, its accessor
// or its context: `ZSys<K, _>` finds them in slot K of a process-wide table.

pub const NZ: usize = 48;

pub struct ZEntry {
    pub gid: usize,
    pub acc: HAcc,
    pub t: u8,
    pub ctx: Arc<Ctx>,
}

fn zreg() -> &'static Vec<std::sync::RwLock<Option<Arc<ZEntry>>>> {
    static REG: std::sync::OnceLock<Vec<std::sync::RwLock<Option<Arc<ZEntry>>>>> = std::sync::OnceLock::new();
    REG.get_or_init(|| (0..NZ).map(|_| std::sync::RwLock::new(None)).collect())
}

/// Claims a free slot for `e`.
pub fn zalloc(e: ZEntry) -> Option<usize> {
    let e = Arc::new(e);
    for (k, slot) in zreg().iter().enumerate() {
        let mut g = slot.write().unwrap_or_else(|p| p.into_inner());
        if g.is_none() {
            *g = Some(e);
            return Some(k);
        }
    }
    None
}

pub fn zfree(k: usize) {
    *zreg()[k].write().unwrap_or_else(|p| p.into_inner()) = None;
}

fn zget(k: usize) -> Arc<ZEntry> {
    zreg()[k].read().unwrap_or_else(|p| p.into_inner()).clone().expect("HARNESS: zero-sized system without a table entry")
}

pub struct ZSys<const K: usize, Mk>(pub PhantomData<Mk>);

impl<'a, const K: usize, Mk> System<'a> for ZSys<K, Mk> {
    type SystemData = HData<'a>;

    fn run(&mut self, data: HData<'a>) {
        let e = zget(K);
        run_body(e.gid, &e.ctx, data, self as *const _ as usize);
    }

    fn running_time(&self) -> RunningTime {
        rt(zget(K).t)
    }

    fn accessor<'b>(&'b self) -> AccessorCow<'a, 'b, Self> {
        AccessorCow::Owned(zget(K).acc.clone())
    }

    fn setup(&mut self, world: &mut World) {
        let e = zget(K);
        if e.ctx.setup_log.load(Ordering::Relaxed) {
            e.ctx.ev(json!({"ev":"setup","s":e.gid,"th":e.ctx.thread()}));
        }
        <HData as DynamicSystemData>::setup(&e.acc, world)
    }

    fn dispose(self, _world: &mut World)
    where
        Self: Sized,
    {
        let e = zget(K);
        if e.ctx.setup_log.load(Ordering::Relaxed) {
            e.ctx.ev(json!({"ev":"dispose","s":e.gid,"th":e.ctx.thread()}));
        }
    }
}

/// `$body` with `$z` bound to a fresh `ZSys<$k, $mk>` (k is a run-time value below NZ).
#[macro_export]
macro_rules! with_zsys {
    ($k:expr, $mk:ty, |$z:ident| $body:expr) => {
        $crate::with_zsys!(@arms $k, $mk, $z, $body,
            0 1 2 3 4 5 6 7 8 9 10 11 12 13 14 15 16 17 18 19 20 21 22 23
            24 25 26 27 28 29 30 31 32 33 34 35 36 37 38 39 40 41 42 43 44 45 46 47)
    };
    (@arms $k:expr, $mk:ty, $z:ident, $body:expr, $($n:literal)*) => {
        match $k {
            $( $n => { let $z = $crate::sys::ZSys::<$n, $mk>(std::marker::PhantomData); $body } )*
            _ => unreachable!("zero-sized slot out of range"),
        }
    };
}

/// A harness system that leaves the library's PROVIDED `System::setup` / `dispose` in place (most user systems
/// do): no hook events, but what its accessor provides must exist after `Dispatcher::setup`.
pub struct HNoHook(pub HSys);

impl<'a> System<'a> for HNoHook {
    type SystemData = HData<'a>;

    fn run(&mut self, data: HData<'a>) {
        run_body(self.0.gid, &self.0.ctx, data, self as *const _ as usize);
    }

    fn running_time(&self) -> RunningTime {
        rt(self.0.t)
    }

    fn accessor<'b>(&'b self) -> AccessorCow<'a, 'b, Self> {
        AccessorCow::Ref(&self.0.acc)
    }
}

/// Panic payload of harness-injected panics.
#[derive(Debug, Clone, Copy, PartialEq, Eq)]
pub struct HPanic(pub usize);

// ---------------------------------------------------------------- batch controllers

/// Declared controller data variants (static types; dynamic id 0).
pub trait CtlKind: Send + 'static {
    type Data<'c>: shred::SystemData<'c>;
    const KIND: u8;
    /// touch the declared data (read / hash-update), then drop it
    fn touch<'c>(d: Self::Data<'c>, gid: usize) -> (Vec<u32>, Vec<u32>);
}
pub struct K0;
pub struct K1;
pub struct K2;
pub struct K3;
impl CtlKind for K0 {
    type Data<'c> = ();
    const KIND: u8 = 0;
    fn touch<'c>(_: (), _: usize) -> (Vec<u32>, Vec<u32>) {
        (vec![], vec![])
    }
}
impl CtlKind for K1 {
    type Data<'c> = Read<'c, CtlA>;
    const KIND: u8 = 1;
    fn touch<'c>(d: Read<'c, CtlA>, _: usize) -> (Vec<u32>, Vec<u32>) {
        (vec![d.val], vec![])
    }
}
impl CtlKind for K2 {
    type Data<'c> = Write<'c, CtlA>;
    const KIND: u8 = 2;
    fn touch<'c>(mut d: Write<'c, CtlA>, gid: usize) -> (Vec<u32>, Vec<u32>) {
        let v = hash_step(d.val, gid, 0);
        d.val = v;
        (vec![], vec![v])
    }
}
impl CtlKind for K3 {
    type Data<'c> = (Read<'c, CtlA>, Write<'c, CtlB>);
    const KIND: u8 = 3;
    fn touch<'c>(mut d: (Read<'c, CtlA>, Write<'c, CtlB>), gid: usize) -> (Vec<u32>, Vec<u32>) {
        let a = d.0.val;
        let v = hash_step(d.1.val, gid, a as u64);
        d.1.val = v;
        (vec![a], vec![v])
    }
}

// further static system-data kinds (only used by HStat)
pub struct K4;
pub struct K5;
pub struct K6;
pub struct K7;
pub struct K8;
const MISSING: &str = "HARNESS: a static resource is missing although the harness inserted it";
impl CtlKind for K4 {
    type Data<'c> = Option<Read<'c, CtlA>>;
    const KIND: u8 = 4;
    fn touch<'c>(d: Self::Data<'c>, _: usize) -> (Vec<u32>, Vec<u32>) {
        (vec![d.expect(MISSING).val], vec![])
    }
}
impl CtlKind for K5 {
    type Data<'c> = Option<Write<'c, CtlB>>;
    const KIND: u8 = 5;
    fn touch<'c>(d: Self::Data<'c>, gid: usize) -> (Vec<u32>, Vec<u32>) {
        let mut d = d.expect(MISSING);
        let v = hash_step(d.val, gid, 0);
        d.val = v;
        (vec![], vec![v])
    }
}
impl CtlKind for K6 {
    type Data<'c> = (shred::ReadExpect<'c, CtlA>, Option<Write<'c, CtlB>>);
    const KIND: u8 = 6;
    fn touch<'c>(d: Self::Data<'c>, gid: usize) -> (Vec<u32>, Vec<u32>) {
        let a = d.0.val;
        let mut b = d.1.expect(MISSING);
        let v = hash_step(b.val, gid, a as u64);
        b.val = v;
        (vec![a], vec![v])
    }
}
impl CtlKind for K7 {
    type Data<'c> = shred::WriteExpect<'c, CtlB>;
    const KIND: u8 = 7;
    fn touch<'c>(mut d: Self::Data<'c>, gid: usize) -> (Vec<u32>, Vec<u32>) {
        let v = hash_step(d.val, gid, 0);
        d.val = v;
        (vec![], vec![v])
    }
}
#[derive(shred::SystemData)]
pub struct StatBoth<'a> {
    pub a: Read<'a, CtlA>,
    pub b: Write<'a, CtlB>,
}
impl CtlKind for K8 {
    type Data<'c> = StatBoth<'c>;
    const KIND: u8 = 8;
    fn touch<'c>(mut d: Self::Data<'c>, gid: usize) -> (Vec<u32>, Vec<u32>) {
        let a = d.a.val;
        let v = hash_step(d.b.val, gid, a as u64);
        d.b.val = v;
        (vec![a], vec![v])
    }
}

/// An ordinary system whose data is a STATIC system-data type of the library (what users write), logging and
/// gated like every harness system.
pub struct HStat<K> {
    pub gid: usize,
    pub t: u8,
    pub ctx: Arc<Ctx>,
    pub k: PhantomData<K>,
}

impl<'a, K: CtlKind> System<'a> for HStat<K> {
    type SystemData = K::Data<'a>;

    fn run(&mut self, d: K::Data<'a>) {
        let ctx = &self.ctx;
        let gid = self.gid;
        ctx.note_addr(gid, self as *const _ as usize);
        let logx = ctx.log_exec.load(Ordering::Relaxed);
        if logx {
            ctx.ev(json!({"ev":"fetch","s":gid,"th":ctx.thread()}));
        }
        ctx.gate(gid);
        let must_panic = {
            let mut ps = ctx.panic_set.lock().unwrap();
            let hit = ps.contains(&gid);
            if hit && ctx.panic_once.load(Ordering::Relaxed) {
                ps.remove(&gid);
            }
            hit
        };
        if must_panic {
            if logx {
                ctx.ev(json!({"ev":"panic","s":gid}));
            }
            std::panic::panic_any(HPanic(gid));
        }
        let (seen, nv) = K::touch(d, gid);
        if logx {
            ctx.ev(json!({"ev":"finish","s":gid,"nv":nv,"seen":seen}));
        }
    }

    fn running_time(&self) -> RunningTime {
        rt(self.t)
    }
}

/// `$body` with `$s` bound to `HStat<K$kind>`.
#[macro_export]
macro_rules! with_hstat {
    ($kind:expr, $gid:expr, $t:expr, $ctx:expr, |$s:ident| $body:expr) => {{
        macro_rules! mk {
            ($k:ty) => {{
                let $s = $crate::sys::HStat::<$k> { gid: $gid, t: $t, ctx: $ctx, k: std::marker::PhantomData };
                $body
            }};
        }
        match $kind {
            1 => mk!($crate::sys::K1),
            2 => mk!($crate::sys::K2),
            3 => mk!($crate::sys::K3),
            4 => mk!($crate::sys::K4),
            5 => mk!($crate::sys::K5),
            6 => mk!($crate::sys::K6),
            7 => mk!($crate::sys::K7),
            _ => mk!($crate::sys::K8),
        }
    }};
}

pub struct HCtl<K> {
    pub gid: usize,
    /// builder index of the inner dispatcher (event field `d`)
    pub inner_b: usize,
    pub n: usize,
    pub t: u8,
    pub ctx: Arc<Ctx>,
    pub k: PhantomData<K>,
}

fn inner_dispatches(ctx: &Arc<Ctx>, gid: usize, n: usize, world: &World, dispatcher: &mut Dispatcher) {
    // `gid` here is the builder index of the inner dispatcher
    let logx = ctx.log_exec.load(Ordering::Relaxed);
    for _ in 0..n {
        if logx {
            ctx.ev(json!({"ev":"begin","d":gid,"mode":"disp","th":ctx.thread()}));
        }
        dispatcher.dispatch(world);
        if logx {
            ctx.ev(json!({"ev":"end","d":gid,"res":"ok"}));
        }
    }
}

impl<'a, 'b, 'c, K: CtlKind> BatchController<'a, 'b, 'c> for HCtl<K> {
    type BatchSystemData = K::Data<'c>;

    fn run(&mut self, world: &'c World, dispatcher: &mut Dispatcher<'a, 'b>) {
        let ctx = self.ctx.clone();
        ctx.note_addr(self.gid, self as *const _ as usize);
        let logx = ctx.log_exec.load(Ordering::Relaxed);
        if logx {
            ctx.ev(json!({"ev":"fetch","s":self.gid,"th":ctx.thread()}));
        }
        if ctx.panic_set.lock().unwrap().contains(&self.gid) {
            if logx {
                ctx.ev(json!({"ev":"panic","s":self.gid}));
            }
            std::panic::panic_any(HPanic(self.gid));
        }
        // use the declared data like a system would, then drop it before
        // dispatching (as the BatchController documentation demands)
        let (seen, nv) = {
            let d: K::Data<'c> = world.system_data();
            K::touch(d, self.gid)
        };
        if logx {
            ctx.ev(json!({"ev":"ctl","s":self.gid,"nv":nv,"seen":seen}));
        }
        inner_dispatches(&ctx, self.inner_b, self.n, world, dispatcher);
        if logx {
            ctx.ev(json!({"ev":"finish","s":self.gid,"nv":[],"seen":[]}));
        }
    }

    fn running_time(&self) -> RunningTime {
        rt(self.t)
    }
}

/// MultiDispatchController: the library's MultiDispatcher does the fetching
/// and the dispatching; only the plan is ours.
pub struct HMulti<K> {
    pub gid: usize,
    pub n: usize,
    pub ctx: Arc<Ctx>,
    pub k: PhantomData<K>,
}
impl<'c, K: CtlKind> MultiDispatchController<'c> for HMulti<K> {
    type SystemData = K::Data<'c>;
    fn plan(&mut self, d: K::Data<'c>) -> usize {
        let ctx = self.ctx.clone();
        ctx.note_addr(self.gid, self as *const _ as usize);
        let (seen, nv) = K::touch(d, self.gid);
        if ctx.log_exec.load(Ordering::Relaxed) {
            ctx.ev(json!({"ev":"fetch","s":self.gid,"th":ctx.thread()}));
            ctx.ev(json!({"ev":"ctl","s":self.gid,"nv":nv,"seen":seen}));
            ctx.ev(json!({"ev":"multi","s":self.gid,"n":self.n}));
        }
        self.n
    }
}

pub fn abstract_of_ctl() -> [(Res, Cell); 2] {
    [
        (CTL_A, Cell { ty: 4, dynid: 0 }),
        (CTL_B, Cell { ty: 5, dynid: 0 }),
    ]
}

/// A whole dispatcher used as a (thread-local) system of another dispatcher, driven through
/// the `RunNow` TRAIT methods of `Dispatcher` (not the inherent ones).
pub struct HNest {
    pub gid: usize,
    pub inner_b: usize,
    pub d: Dispatcher<'static, 'static>,
    pub ctx: Arc<Ctx>,
}

impl<'a> shred::RunNow<'a> for HNest {
    fn run_now(&mut self, world: &'a World) {
        let ctx = self.ctx.clone();
        ctx.note_addr(self.gid, self as *const _ as usize);
        let logx = ctx.log_exec.load(Ordering::Relaxed);
        if logx {
            ctx.ev(json!({"ev":"fetch","s":self.gid,"th":ctx.thread()}));
            ctx.ev(json!({"ev":"begin","d":self.inner_b,"mode":"disp","th":ctx.thread()}));
        }
        shred::RunNow::run_now(&mut self.d, world);
        if logx {
            ctx.ev(json!({"ev":"end","d":self.inner_b,"res":"ok"}));
            ctx.ev(json!({"ev":"finish","s":self.gid,"nv":[],"seen":[]}));
        }
    }

    fn setup(&mut self, world: &mut World) {
        shred::RunNow::setup(&mut self.d, world);
    }

    fn dispose(self: Box<Self>, world: &mut World) {
        let d: Box<Dispatcher<'static, 'static>> = Box::new(self.d);
        shred::RunNow::dispose(d, world);
    }
}
