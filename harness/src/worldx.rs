//! World binding (properties C08, C09): drives a REAL `shred::World` call by call and
//! observes the abstract state of spec/World.tla after every call.
//!
//! * four concrete resource types of different size / alignment / drop behaviour, each
//!   value carrying an `ident` whose destructor runs are counted in a global registry;
//! * every call is wrapped in `catch_unwind`; a panic is an outcome (classified by its
//!   message), never a harness failure;
//! * real guards are kept alive in a table (`'static` lifetimes laundered through a raw
//!   pointer; the driver itself obeys the compile-time rule "no `&mut World` call while a
//!   guard lives");
//! * after every call the driver probes every cell (single-threaded, quiescent):
//!   `try_borrow_mut` first (a failed exclusive attempt leaves the counter untouched),
//!   then `try_borrow` (a failed shared attempt on an exclusively borrowed cell leaves a
//!   stray increment that atomic_refcell wipes when the writer releases; it is invisible
//!   to every later operation, see atomic_refcell 0.1.14 `AtomicBorrowRef::try_new`).
//!
//! The driver decides nothing: outcomes and observations go into ndjson events that TLC
//! judges with spec/WorldTrace.tla.  The only "knowledge" here are two safety valves
//! (`abort`): once a stored value's real type differs from its key's type, or a granted
//! guard aliases a guard the driver already holds, continuing would be undefined
//! behaviour in the harness, so the block ends after that event has been logged.
use std::{
    any::{Any, TypeId},
    collections::BTreeMap,
    panic::{catch_unwind, AssertUnwindSafe},
    sync::{
        atomic::{AtomicU32, Ordering},
        Mutex,
    },
};

use serde::Deserialize;
use serde_json::{json, Value};
use shred::{
    cell::{AtomicRef, AtomicRefMut},
    CastFrom, Fetch, FetchMut, MetaIter, MetaIterMut, MetaTable, Read, Resource, ResourceId, SystemData, World, Write,
};

// ------------------------------------------------------------------ idents and drop counts

static DROPS: Mutex<Vec<u32>> = Mutex::new(Vec::new());
static NEXT: AtomicU32 = AtomicU32::new(1);

pub fn reset_idents() {
    DROPS.lock().unwrap().clear();
    NEXT.store(1, Ordering::SeqCst);
}
pub fn new_ident() -> u32 {
    let i = NEXT.fetch_add(1, Ordering::SeqCst);
    let mut d = DROPS.lock().unwrap();
    while d.len() < i as usize {
        d.push(0);
    }
    i
}
pub fn drops() -> Vec<u32> {
    DROPS.lock().unwrap().clone()
}

pub struct Handle {
    ident: u32,
}
impl Drop for Handle {
    fn drop(&mut self) {
        if let Ok(mut d) = DROPS.lock() {
            if let Some(c) = d.get_mut(self.ident as usize - 1) {
                *c += 1;
            }
        }
    }
}

// ------------------------------------------------------------------ resource types

pub trait Probe {
    fn tag(&self) -> usize;
    fn get(&self) -> (i64, u32);
    fn set(&mut self, p: i64);
    fn canary(&self) -> u64;
    fn set_canary(&mut self, v: u64);
}
unsafe impl<T: Probe + 'static> CastFrom<T> for dyn Probe {
    fn cast(t: *mut T) -> *mut Self {
        t
    }
}

pub trait Tracked: Resource + Probe + Sized {
    const CI: usize;
    fn make(ident: u32, p: i64) -> Self;
}

/// small
pub struct RA {
    h: Handle,
    p: i64,
    canary: u64,
}
/// large, payload in the middle
pub struct RB {
    pad: [u64; 12],
    p: i64,
    h: Handle,
    canary: u64,
    tail: [u8; 3],
}
/// owns heap memory (payload lives on the heap)
pub struct RC {
    v: Vec<i64>,
    name: String,
    canary: u64,
    h: Handle,
}
/// over-aligned, fields in yet another order
#[repr(align(64))]
pub struct RD {
    canary: u64,
    h: Handle,
    p: i64,
}

macro_rules! probe_impl {
    ($T:ident, $ci:expr, $get:expr, $set:expr, $mk:expr) => {
        impl Probe for $T {
            fn tag(&self) -> usize {
                $ci
            }
            fn get(&self) -> (i64, u32) {
                ($get(self), self.h.ident)
            }
            fn set(&mut self, p: i64) {
                $set(self, p)
            }
            fn canary(&self) -> u64 {
                unsafe { std::ptr::read_volatile(&self.canary) }
            }
            fn set_canary(&mut self, v: u64) {
                unsafe { std::ptr::write_volatile(&mut self.canary, v) }
            }
        }
        impl Tracked for $T {
            const CI: usize = $ci;
            fn make(ident: u32, p: i64) -> Self {
                $mk(ident, p)
            }
        }
        impl Default for $T {
            fn default() -> Self {
                Self::make(new_ident(), 0)
            }
        }
    };
}
probe_impl!(RA, 0, |s: &RA| s.p, |s: &mut RA, p| s.p = p, |i, p| RA { h: Handle { ident: i }, p, canary: 0 });
probe_impl!(RB, 1, |s: &RB| s.p, |s: &mut RB, p| s.p = p, |i, p| RB {
    pad: [0xA5A5_A5A5_A5A5_A5A5; 12],
    p,
    h: Handle { ident: i },
    canary: 0,
    tail: [7; 3]
});
probe_impl!(RC, 2, |s: &RC| s.v[3], |s: &mut RC, p| s.v[3] = p, |i, p| RC {
    v: vec![-1, -2, -3, p, -5],
    name: format!("rc-{}", i),
    canary: 0,
    h: Handle { ident: i }
});
probe_impl!(RD, 3, |s: &RD| s.p, |s: &mut RD, p| s.p = p, |i, p| RD { canary: 0, h: Handle { ident: i }, p });

/// The fifth resource type is `Box<dyn Resource>` ITSELF (a legal resource type: it is
/// `Any + Send + Sync`), holding a boxed `REInner`.  It has no `Default`, so it takes part in
/// everything except the `Read` / `Write` members of system-data shapes (their setup needs
/// `T: Default`); the `Option` forms are fine.
pub type RE = Box<dyn Resource>;
pub struct REInner {
    p: i64,
    h: Handle,
    canary: u64,
}
fn re_inner(b: &RE) -> &REInner {
    (**b).downcast_ref::<REInner>().expect("harness: a Box<dyn Resource> resource of the harness holds an REInner")
}
fn re_inner_mut(b: &mut RE) -> &mut REInner {
    (**b).downcast_mut::<REInner>().expect("harness: a Box<dyn Resource> resource of the harness holds an REInner")
}
impl Probe for RE {
    fn tag(&self) -> usize {
        4
    }
    fn get(&self) -> (i64, u32) {
        let i = re_inner(self);
        (i.p, i.h.ident)
    }
    fn set(&mut self, p: i64) {
        re_inner_mut(self).p = p
    }
    fn canary(&self) -> u64 {
        unsafe { std::ptr::read_volatile(&re_inner(self).canary) }
    }
    fn set_canary(&mut self, v: u64) {
        unsafe { std::ptr::write_volatile(&mut re_inner_mut(self).canary, v) }
    }
}
impl Tracked for RE {
    const CI: usize = 4;
    fn make(ident: u32, p: i64) -> Self {
        Box::new(REInner { p, h: Handle { ident }, canary: 0 })
    }
}

pub const NCONC: usize = 5;

macro_rules! with_ty {
    ($ci:expr, $T:ident => $body:expr) => {
        match $ci {
            0 => {
                type $T = RA;
                $body
            }
            1 => {
                type $T = RB;
                $body
            }
            2 => {
                type $T = RC;
                $body
            }
            3 => {
                type $T = RD;
                $body
            }
            _ => {
                type $T = RE;
                $body
            }
        }
    };
}

macro_rules! with_ty4 {
    ($ci:expr, $T:ident => $body:expr) => {
        match $ci {
            0 => {
                type $T = RA;
                $body
            }
            1 => {
                type $T = RB;
                $body
            }
            2 => {
                type $T = RC;
                $body
            }
            3 => {
                type $T = RD;
                $body
            }
            _ => panic!("harness: Box<dyn Resource> has no Default, it cannot be a Read / Write member"),
        }
    };
}

macro_rules! with_member {
    ($k:expr, $ci:expr, $M:ident => $body:expr) => {
        match $k {
            "read" => with_ty4!($ci, TT => {
                type $M = Read<'static, TT>;
                $body
            }),
            "write" => with_ty4!($ci, TT => {
                type $M = Write<'static, TT>;
                $body
            }),
            "optread" => with_ty!($ci, TT => {
                type $M = Option<Read<'static, TT>>;
                $body
            }),
            _ => with_ty!($ci, TT => {
                type $M = Option<Write<'static, TT>>;
                $body
            }),
        }
    };
}

fn conc_of_typeid(t: TypeId) -> Option<usize> {
    if t == TypeId::of::<RA>() {
        Some(0)
    } else if t == TypeId::of::<RB>() {
        Some(1)
    } else if t == TypeId::of::<RC>() {
        Some(2)
    } else if t == TypeId::of::<RD>() {
        Some(3)
    } else if t == TypeId::of::<RE>() {
        Some(4)
    } else {
        None
    }
}

/// (concrete type index, payload, ident) of a stored value, through CHECKED downcasts only
fn read_dyn(r: &dyn Resource) -> Option<(usize, i64, u32)> {
    let ci = conc_of_typeid(r.type_id())?;
    let (p, i) = with_ty!(ci, T => r.downcast_ref::<T>().map(|v| v.get()))?;
    Some((ci, p, i))
}

// ------------------------------------------------------------------ guards

pub trait AnyGuard {
    /// (concrete type index, payload, ident) read through the guard
    fn read(&self) -> (usize, i64, u32);
    fn write(&mut self, p: i64);
    fn dup(&self) -> Option<Box<dyn AnyGuard>>;
    /// is this a `Fetch` (the only guard type that is Clone)?  Never borrows.
    fn cloneable(&self) -> bool {
        false
    }
    fn canary(&self) -> u64;
    fn set_canary(&mut self, v: u64);
}
macro_rules! guard_impl {
    ($G:ident, $mutable:expr, $dup:expr, $cl:expr) => {
        impl<T: Tracked> AnyGuard for $G<'static, T> {
            fn read(&self) -> (usize, i64, u32) {
                let v: &T = &*self;
                let (p, i) = v.get();
                (v.tag(), p, i)
            }
            #[allow(unused_variables, unused_mut)]
            fn write(&mut self, p: i64) {
                $mutable(self, Some(p), None)
            }
            fn dup(&self) -> Option<Box<dyn AnyGuard>> {
                $dup(self)
            }
            fn cloneable(&self) -> bool {
                $cl
            }
            fn canary(&self) -> u64 {
                let v: &T = &*self;
                v.canary()
            }
            fn set_canary(&mut self, v: u64) {
                $mutable(self, None, Some(v))
            }
        }
    };
}
fn no_write<G>(_: &mut G, _: Option<i64>, _: Option<u64>) {
    panic!("harness: write through a shared guard")
}
fn wr_fm<T: Tracked>(g: &mut FetchMut<'static, T>, p: Option<i64>, c: Option<u64>) {
    if let Some(p) = p {
        Probe::set(&mut **g, p)
    }
    if let Some(c) = c {
        Probe::set_canary(&mut **g, c)
    }
}
fn wr_w<T: Tracked>(g: &mut Write<'static, T>, p: Option<i64>, c: Option<u64>) {
    if let Some(p) = p {
        Probe::set(&mut **g, p)
    }
    if let Some(c) = c {
        Probe::set_canary(&mut **g, c)
    }
}
guard_impl!(Fetch, no_write, |s: &Fetch<'static, T>| Some(Box::new(s.clone()) as Box<dyn AnyGuard>), true);
guard_impl!(FetchMut, wr_fm, |_s: &FetchMut<'static, T>| None, false);
guard_impl!(Read, no_write, |_s: &Read<'static, T>| None, false);
guard_impl!(Write, wr_w, |_s: &Write<'static, T>| None, false);

impl AnyGuard for AtomicRef<'static, dyn Probe> {
    fn read(&self) -> (usize, i64, u32) {
        let (p, i) = self.get();
        (self.tag(), p, i)
    }
    fn write(&mut self, _: i64) {
        panic!("harness: write through a shared guard")
    }
    fn dup(&self) -> Option<Box<dyn AnyGuard>> {
        None
    }
    fn canary(&self) -> u64 {
        (**self).canary()
    }
    fn set_canary(&mut self, _: u64) {
        panic!("harness: write through a shared guard")
    }
}
impl AnyGuard for AtomicRefMut<'static, dyn Probe> {
    fn read(&self) -> (usize, i64, u32) {
        let (p, i) = self.get();
        (self.tag(), p, i)
    }
    fn write(&mut self, p: i64) {
        self.set(p)
    }
    fn dup(&self) -> Option<Box<dyn AnyGuard>> {
        None
    }
    fn canary(&self) -> u64 {
        (**self).canary()
    }
    fn set_canary(&mut self, v: u64) {
        (**self).set_canary(v)
    }
}

pub struct GEntry {
    pub g: Box<dyn AnyGuard>,
    pub ty: u32,
    pub dy: u32,
    pub kind: char,
}
/// guards cross threads only in the multi-thread mode (all resource types are Send + Sync)
pub struct SendEntry(pub GEntry);
unsafe impl Send for SendEntry {}

/// one member of a system-data shape
pub trait Member: SystemData<'static> {
    fn into_guard(self) -> Option<(Box<dyn AnyGuard>, char)>;
    fn peek(&self) -> Option<(usize, i64, u32)>;
    fn poke(&mut self, p: i64);
}
impl<T: Tracked + Default> Member for Read<'static, T> {
    fn into_guard(self) -> Option<(Box<dyn AnyGuard>, char)> {
        Some((Box::new(self), 'r'))
    }
    fn peek(&self) -> Option<(usize, i64, u32)> {
        Some(AnyGuard::read(self))
    }
    fn poke(&mut self, _: i64) {}
}
impl<T: Tracked + Default> Member for Write<'static, T> {
    fn into_guard(self) -> Option<(Box<dyn AnyGuard>, char)> {
        Some((Box::new(self), 'w'))
    }
    fn peek(&self) -> Option<(usize, i64, u32)> {
        Some(AnyGuard::read(self))
    }
    fn poke(&mut self, p: i64) {
        AnyGuard::write(self, p)
    }
}
impl<T: Tracked> Member for Option<Read<'static, T>> {
    fn into_guard(self) -> Option<(Box<dyn AnyGuard>, char)> {
        self.map(|g| (Box::new(g) as Box<dyn AnyGuard>, 'r'))
    }
    fn peek(&self) -> Option<(usize, i64, u32)> {
        self.as_ref().map(|g| AnyGuard::read(g))
    }
    fn poke(&mut self, _: i64) {}
}
impl<T: Tracked> Member for Option<Write<'static, T>> {
    fn into_guard(self) -> Option<(Box<dyn AnyGuard>, char)> {
        self.map(|g| (Box::new(g) as Box<dyn AnyGuard>, 'w'))
    }
    fn peek(&self) -> Option<(usize, i64, u32)> {
        self.as_ref().map(|g| AnyGuard::read(g))
    }
    fn poke(&mut self, p: i64) {
        if let Some(g) = self.as_mut() {
            AnyGuard::write(g, p)
        }
    }
}

// ------------------------------------------------------------------ calls and outcomes

#[derive(Clone, Debug, Deserialize, Default)]
pub struct ShapeM {
    pub k: String,
    pub t: u32,
}
#[derive(Clone, Debug, Deserialize, Default)]
pub struct CallSpec {
    pub op: String,
    #[serde(default)]
    pub targ: u32,
    #[serde(default)]
    pub ty: u32,
    #[serde(default)]
    pub dy: u32,
    #[serde(default)]
    pub p: i64,
    #[serde(default)]
    pub gs: Vec<u32>,
    #[serde(default)]
    pub shape: Vec<ShapeM>,
}

pub fn panic_why(e: &(dyn Any + Send)) -> &'static str {
    let msg: &str = if let Some(s) = e.downcast_ref::<String>() {
        s.as_str()
    } else if let Some(s) = e.downcast_ref::<&'static str>() {
        s
    } else {
        ""
    };
    if msg.contains("wrong type ID") {
        "type"
    } else if msg.contains("already borrowed") || msg.contains("already mutably borrowed") || msg.contains("already immutably borrowed")
    {
        "borrow"
    } else if msg.contains("Tried to fetch resource") {
        "absent"
    } else if msg.starts_with("user") {
        "user"
    } else {
        "other"
    }
}

fn out(k: &str, why: &str, vs: Vec<Value>) -> Value {
    json!({"k": k, "why": why, "vs": vs})
}
fn noval() -> Value {
    json!({"type":0,"payload":0,"ident":0})
}

type Res<T> = Result<T, &'static str>;
fn guarded<R>(f: impl FnOnce() -> R) -> Res<R> {
    catch_unwind(AssertUnwindSafe(f)).map_err(|e| panic_why(&*e))
}

/// Runs `f` inside the destructor of a value that is dropped by an unwinding panic
/// (`std::thread::panicking()` is true while `f` runs).  `f` is itself run under catch_unwind
/// inside that destructor, so nothing can escape it (an escaping panic would abort); a panic
/// of the library call inside `f` is caught by the `guarded` around that call as always.
pub fn in_unwinding<R>(f: impl FnOnce() -> R) -> R {
    struct Runner<'a, F: FnOnce() -> R, R> {
        f: Option<F>,
        out: &'a mut (bool, Option<R>),
    }
    impl<F: FnOnce() -> R, R> Drop for Runner<'_, F, R> {
        fn drop(&mut self) {
            if let Some(f) = self.f.take() {
                self.out.0 = std::thread::panicking();
                self.out.1 = catch_unwind(AssertUnwindSafe(f)).ok();
            }
        }
    }
    let mut slot: (bool, Option<R>) = (false, None);
    let r = catch_unwind(AssertUnwindSafe(|| {
        let _runner = Runner { f: Some(f), out: &mut slot };
        panic!("user: outer panic, the call is issued while this unwinds");
    }));
    assert!(r.is_err() && slot.0, "harness: the call was not issued during unwinding");
    slot.1.expect("harness: the call issued during unwinding escaped its own catch_unwind")
}

pub fn on_rayon_worker() -> bool {
    #[cfg(feature = "parallel")]
    {
        rayon::current_thread_index().is_some()
    }
    #[cfg(not(feature = "parallel"))]
    {
        false
    }
}

/// Runs `f` on a worker thread of a small rayon pool (the caller blocks meanwhile, so the
/// worker is the only thread touching the world).  Without feature `parallel`: runs `f` here.
pub fn on_pool<R>(f: impl FnOnce() -> R) -> R {
    #[cfg(feature = "parallel")]
    {
        struct Tr<T>(T);
        unsafe impl<T> Send for Tr<T> {}
        static POOL: std::sync::OnceLock<rayon::ThreadPool> = std::sync::OnceLock::new();
        let pool = POOL.get_or_init(|| rayon::ThreadPoolBuilder::new().num_threads(2).build().unwrap());
        let job = Tr(f);
        let r = pool.install(move || {
            let job = job;
            Tr((job.0)())
        });
        r.0
    }
    #[cfg(not(feature = "parallel"))]
    {
        f()
    }
}

/// a live meta-table iterator (an object of the history like a guard)
pub enum IterBox {
    R(MetaIter<'static, dyn Probe>),
    W(MetaIterMut<'static, dyn Probe>),
}

pub struct Driver {
    world: *mut World,
    pub table: BTreeMap<u32, GEntry>,
    /// live meta-table iterators
    pub iters: BTreeMap<u32, IterBox>,
    /// abstract type (1-based) -> concrete type index
    pub tymap: Vec<usize>,
    /// abstract dynamic id -> real dynamic id (0 -> 0)
    pub dynmap: Vec<u64>,
    meta: *mut MetaTable<dyn Probe>,
    /// set when continuing would be undefined behaviour inside the harness
    pub abort: Option<String>,
    ctor_state: u64,
    last_ctor: u32,
}

impl Drop for Driver {
    fn drop(&mut self) {
        if self.abort.is_some() {
            // the world is in a state the library never reaches: running destructors of guards or
            // cells could panic inside a panic; leak everything instead
            std::mem::forget(std::mem::take(&mut self.table));
            std::mem::forget(std::mem::take(&mut self.iters));
            return;
        }
        let t = (std::mem::take(&mut self.iters), std::mem::take(&mut self.table));
        if catch_unwind(AssertUnwindSafe(move || drop(t))).is_err() {
            return; // a guard's destructor panicked (corrupted counter): leak the world
        }
        let (meta, world) = (self.meta as usize, self.world as usize);
        let _ = catch_unwind(move || unsafe {
            drop(Box::from_raw(meta as *mut MetaTable<dyn Probe>));
            drop(Box::from_raw(world as *mut World));
        });
    }
}

impl Driver {
    /// `tymap[k]` = concrete type of abstract type k+1; `dynmap[d]` = real dynamic id of d
    pub fn new(tymap: Vec<usize>, dynmap: Vec<u64>) -> Driver {
        assert_eq!(dynmap[0], 0);
        reset_idents();
        let mut meta = MetaTable::<dyn Probe>::new();
        for &ci in &tymap {
            with_ty!(ci, T => meta.register::<T>());
        }
        Driver { world: Box::into_raw(Box::new(World::empty())), table: BTreeMap::new(), iters: BTreeMap::new(), tymap, dynmap, meta: Box::into_raw(Box::new(meta)), abort: None, ctor_state: 0x9E3779B97F4A7C15, last_ctor: 0 }
    }
    pub fn meta(&self) -> &'static MetaTable<dyn Probe> {
        unsafe { &*self.meta }
    }
    pub fn seed_ctors(&mut self, seed: u64) {
        self.ctor_state = seed | 1;
    }
    pub fn ntypes(&self) -> u32 {
        self.tymap.len() as u32
    }
    pub fn ndyns(&self) -> u32 {
        self.dynmap.len() as u32
    }
    pub fn w(&self) -> &'static World {
        unsafe { &*self.world }
    }
    #[allow(clippy::mut_from_ref)]
    fn wm(&self) -> &'static mut World {
        assert!(self.table.is_empty() && self.iters.is_empty(), "harness: &mut World call while guards or iterators are live");
        unsafe { &mut *self.world }
    }
    pub fn ci(&self, ty: u32) -> usize {
        self.tymap[ty as usize - 1]
    }
    fn abs(&self, ci: usize) -> i64 {
        self.tymap.iter().position(|&c| c == ci).map(|k| k as i64 + 1).unwrap_or(-1)
    }
    /// The id of (ty, dy) built through a seed-chosen public constructor (all of them must
    /// denote the same resource): new / new_with_dynamic_id / from_type_id /
    /// from_type_id_and_dynamic_id.  Used for the id ARGUMENT of every by-id call.
    pub fn rid_any(&mut self, ty: u32, dy: u32) -> ResourceId {
        self.ctor_state = self.ctor_state.wrapping_mul(6364136223846793005).wrapping_add(1442695040888963407);
        let pick = (self.ctor_state >> 33) % 4;
        let d = self.dynmap[dy as usize];
        self.last_ctor = pick as u32;
        with_ty!(self.ci(ty), T => match pick {
            0 => ResourceId::new_with_dynamic_id::<T>(d),
            1 => ResourceId::from_type_id_and_dynamic_id(TypeId::of::<T>(), d),
            2 if d == 0 => ResourceId::new::<T>(),
            3 if d == 0 => ResourceId::from_type_id(TypeId::of::<T>()),
            2 => ResourceId::from_type_id_and_dynamic_id(TypeId::of::<T>(), d),
            _ => ResourceId::new_with_dynamic_id::<T>(d),
        })
    }
    pub fn rid(&self, ty: u32, dy: u32) -> ResourceId {
        let d = self.dynmap[dy as usize];
        with_ty!(self.ci(ty), T => ResourceId::new_with_dynamic_id::<T>(d))
    }
    fn val(&self, r: (usize, i64, u32)) -> Value {
        json!({"type": self.abs(r.0), "payload": r.1, "ident": r.2})
    }
    pub fn free_gid(&self) -> u32 {
        let mut g = 1;
        while self.table.contains_key(&g) {
            g += 1;
        }
        g
    }
    fn aliasing(&self, ty: u32, dy: u32, kind: char) -> bool {
        self.table.values().any(|e| e.ty == ty && e.dy == dy && (kind == 'w' || e.kind == 'w'))
    }
    /// store a granted guard under the smallest free id
    fn grant(&mut self, g: Box<dyn AnyGuard>, ty: u32, dy: u32, kind: char) -> u32 {
        if self.aliasing(ty, dy, kind) {
            self.abort = Some(format!("granted {} guard on ({},{}) aliases a live guard", kind, ty, dy));
        }
        let id = self.free_gid();
        self.table.insert(id, GEntry { g, ty, dy, kind });
        id
    }

    // -------------------------------------------------------------- observation

    pub fn observe(&mut self) -> Value {
        let quiescent = self.table.is_empty() && self.iters.is_empty();
        let mut cells = Vec::new();
        let mut hidden: Vec<Value> = Vec::new();
        for ty in 1..=self.ntypes() {
            for dy in 0..self.ndyns() {
                let id = self.rid(ty, dy);
                let cell = unsafe { self.w().try_fetch_internal(id.clone()) };
                let mut c = json!({"ty":ty,"dy":dy,"here":false,"tid":0,"payload":0,"ident":0,"b":"free"});
                if let Some(cell) = cell {
                    c["here"] = json!(true);
                    let mut seen: Option<(usize, i64, u32)> = None;
                    let mut known = false;
                    let own_w = self.table.values().find(|e| e.ty == ty && e.dy == dy && e.kind == 'w');
                    let own_r = self.table.values().any(|e| e.ty == ty && e.dy == dy && e.kind == 'r');
                    let probe = catch_unwind(AssertUnwindSafe(|| match cell.try_borrow_mut() {
                        Ok(m) => ("free", read_dyn(&**m), true),
                        Err(_) => match cell.try_borrow() {
                            Ok(r) => ("shared", read_dyn(&**r), true),
                            // exclusively borrowed: by one of our own guards, read through it
                            Err(_) => match own_w {
                                Some(e) => ("excl", Some(e.g.read()), true),
                                None => ("excl", None, false),
                            },
                        },
                    }));
                    let b = match probe {
                        Ok((b, s, k)) => {
                            seen = s;
                            known = k;
                            b
                        }
                        Err(_) => "broken",
                    };
                    let expect = if own_w.is_some() { "excl" } else if own_r { "shared" } else { "free" };
                    if b != expect {
                        self.abort = Some(format!("cell ({},{}) is {} while the driver's own guards make it {}", ty, dy, b, expect));
                    }
                    c["b"] = json!(b);
                    if quiescent && b == "free" {
                        // the brief's probe: get_mut_raw(id).type_id()  (AtomicRefCell::get_mut asserts
                        // an unborrowed cell in debug builds: under catch_unwind like every library call)
                        let w = self.wm();
                        let raw = catch_unwind(AssertUnwindSafe(move || w.get_mut_raw(id).map(|r| (*r).type_id())));
                        let via_raw = raw.ok().flatten().and_then(conc_of_typeid);
                        if via_raw != seen.map(|s| s.0) {
                            known = false;
                        }
                    }
                    match seen {
                        Some(s) if known => {
                            c["tid"] = json!(self.abs(s.0));
                            c["payload"] = json!(s.1);
                            c["ident"] = json!(s.2);
                            if self.abs(s.0) != ty as i64 {
                                self.abort = Some(format!("value of type {} stored under ({},{})", self.abs(s.0), ty, dy));
                            }
                        }
                        _ => {
                            c["tid"] = json!(-1);
                            self.abort = Some(format!("value under ({},{}) is not readable", ty, dy));
                        }
                    }
                } else if quiescent {
                    // no guard is live, so the `&mut World` view is available too: it is the map's
                    // content proper.  A value that only the shared-reference view hides is reported
                    // as stored (the calls that cannot see it will show up as outcomes)
                    let w = self.wm();
                    let raw = catch_unwind(AssertUnwindSafe(move || w.get_mut_raw(id).and_then(|r| read_dyn(&*r))));
                    if let Some(s) = raw.ok().flatten() {
                        c["here"] = json!(true);
                        c["tid"] = json!(self.abs(s.0));
                        c["payload"] = json!(s.1);
                        c["ident"] = json!(s.2);
                        hidden.push(json!([ty, dy]));
                    }
                }
                cells.push(c);
            }
        }
        let guards: Vec<Value> = self
            .table
            .iter()
            .map(|(g, e)| {
                let r = e.g.read();
                json!({"g":g,"ty":e.ty,"dy":e.dy,"kind":e.kind.to_string(),"payload":r.1,"ident":r.2})
            })
            .collect();
        json!({"cells": cells, "guards": guards, "drops": drops(), "hidden_from_shared_view": hidden})
    }

    /// Releases every live guard one by one as ordinary logged `drop` calls (each followed by
    /// an observation), so that a wrong borrow COUNT - which the probes cannot see while other
    /// guards are live - shows up before the history ends.
    pub fn finish(&mut self) -> Vec<Value> {
        let mut evs = Vec::new();
        while self.abort.is_none() {
            let Some((&it, _)) = self.iters.iter().next() else { break };
            let mut ev = self.do_call(&CallSpec { op: "miter_drop".into(), gs: vec![it], ..Default::default() });
            ev["closing"] = json!(true);
            evs.push(ev);
        }
        while self.abort.is_none() {
            let Some((&g, e)) = self.table.iter().next() else { break };
            let c = CallSpec { op: "drop".into(), targ: e.ty, ty: e.ty, dy: e.dy, gs: vec![g], ..Default::default() };
            let mut ev = self.do_call(&c);
            ev["closing"] = json!(true);
            evs.push(ev);
        }
        evs
    }

    // -------------------------------------------------------------- one call

    /// Executes the call on the real world; returns the complete `call` event
    /// (call, gids of granted guards, outcome, observation after the call).
    pub fn do_call(&mut self, c: &CallSpec) -> Value {
        self.do_call_in(c, false)
    }

    /// `&self` calls whose outcome must not depend on where they are issued
    pub fn unwind_eligible(op: &str) -> bool {
        matches!(
            op,
            "fetch" | "try_fetch" | "fetch_mut" | "try_fetch_mut" | "try_fetch_by_id" | "try_fetch_mut_by_id" | "has_value"
                | "has_value_raw" | "system_data" | "meta_iter" | "meta_iter_mut" | "clone" | "miter_new" | "miter_new_mut" | "miter_next"
        )
    }

    /// `unwinding`: the call is issued from a destructor that runs WHILE THE THREAD IS
    /// UNWINDING from a panic (all guards of the table stay alive across it).  The spec action
    /// is the ordinary one: the outcome of a World call does not depend on that.
    pub fn do_call_in(&mut self, c: &CallSpec, unwinding: bool) -> Value {
        let unwinding = unwinding && Self::unwind_eligible(&c.op);
        let mut gs: Vec<u32> = c.gs.clone();
        let (ty, dy) = match c.op.as_str() {
            "insert" | "remove" | "or_insert" | "or_insert_with" | "get_mut" | "has_value" | "fetch" | "try_fetch" | "fetch_mut"
            | "try_fetch_mut" => (c.targ, 0),
            _ => (c.ty, c.dy),
        };
        let o = if unwinding { in_unwinding(|| self.exec_op(c, ty, dy, &mut gs)) } else { self.exec_op(c, ty, dy, &mut gs) };
        let obs = self.observe();
        let shape: Vec<Value> = c.shape.iter().map(|m| json!({"k": m.k, "t": m.t})).collect();
        json!({"ev":"call","op":c.op,"targ":c.targ,"ty":ty,"dy":dy,"p":c.p,"gs":gs,"shape":shape,"out":o,"obs":obs,
               "unwinding":unwinding,"rayon_worker":on_rayon_worker(),"id_ctor":self.last_ctor})
    }

    fn exec_op(&mut self, c: &CallSpec, ty: u32, dy: u32, gs: &mut Vec<u32>) -> Value {
        let p = c.p;
        let op = c.op.as_str();
        match op {
            "insert" => with_ty!(self.ci(c.targ), R => {
                let v = R::make(new_ident(), p);
                let w = self.wm();
                match guarded(move || w.insert(v)) { Ok(()) => out("unit", "", vec![]), Err(y) => out("panic", y, vec![]) }
            }),
            "insert_by_id" => with_ty!(self.ci(c.targ), R => {
                let v = R::make(new_ident(), p);
                let id = self.rid_any(ty, dy);
                let w = self.wm();
                match guarded(move || w.insert_by_id(id, v)) { Ok(()) => out("unit", "", vec![]), Err(y) => out("panic", y, vec![]) }
            }),
            "remove" | "remove_by_id" => with_ty!(self.ci(c.targ), R => {
                let id = self.rid_any(ty, dy);
                let w = self.wm();
                let r = if op == "remove" { guarded(move || w.remove::<R>()) } else { guarded(move || w.remove_by_id::<R>(id)) };
                match r {
                    Ok(Some(v)) => { let (pp, i) = v.get(); let o = out("some", "", vec![self.val((v.tag(), pp, i))]); drop(v); o }
                    Ok(None) => out("none", "", vec![]),
                    Err(y) => out("panic", y, vec![]),
                }
            }),
            "or_insert" | "or_insert_with" => with_ty!(self.ci(c.targ), R => {
                let w = self.wm();
                let r = if op == "or_insert" {
                    let v = R::make(new_ident(), p);
                    guarded(move || { let g = w.entry::<R>().or_insert(v); AnyGuard::read(&g) })
                } else {
                    guarded(move || { let g = w.entry::<R>().or_insert_with(|| R::make(new_ident(), p)); AnyGuard::read(&g) })
                };
                match r { Ok(x) => out("guard", "", vec![self.val(x)]), Err(y) => out("panic", y, vec![]) }
            }),
            "get_mut" => with_ty!(self.ci(c.targ), R => {
                let w = self.wm();
                match guarded(move || w.get_mut::<R>().map(|v| { let r = (v.tag(), v.get().0, v.get().1); if p != 0 { v.set(p) } r })) {
                    Ok(Some(x)) => out("some", "", vec![self.val(x)]),
                    Ok(None) => out("none", "", vec![]),
                    Err(y) => out("panic", y, vec![]),
                }
            }),
            "get_mut_raw" => {
                let id = self.rid_any(ty, dy);
                let w = self.wm();
                let r = guarded(move || {
                    w.get_mut_raw(id).map(|r| {
                        let seen = read_dyn(&*r);
                        if let (Some(s), true) = (seen, p != 0) {
                            with_ty!(s.0, T => if let Some(v) = r.downcast_mut::<T>() { v.set(p) });
                        }
                        seen
                    })
                });
                match r {
                    Ok(Some(Some(x))) => out("some", "", vec![self.val(x)]),
                    Ok(Some(None)) => out("some", "", vec![json!({"type":-1,"payload":0,"ident":0})]),
                    Ok(None) => out("none", "", vec![]),
                    Err(y) => out("panic", y, vec![]),
                }
            }
            "has_value" => with_ty!(self.ci(c.targ), R => {
                let w = self.w();
                match guarded(move || w.has_value::<R>()) { Ok(b) => out(if b { "true" } else { "false" }, "", vec![]), Err(y) => out("panic", y, vec![]) }
            }),
            "has_value_raw" => {
                let id = self.rid_any(ty, dy);
                let w = self.w();
                match guarded(move || w.has_value_raw(id)) { Ok(b) => out(if b { "true" } else { "false" }, "", vec![]), Err(y) => out("panic", y, vec![]) }
            }
            "fetch" | "try_fetch" | "fetch_mut" | "try_fetch_mut" | "try_fetch_by_id" | "try_fetch_mut_by_id" => {
                gs.clear();
                let matching = c.targ == ty;
                let id = self.rid_any(ty, dy);
                let w = self.w();
                let kind = if op.contains("mut") { 'w' } else { 'r' };
                let r: Res<Option<Box<dyn AnyGuard>>> = with_ty!(self.ci(c.targ), R => match op {
                    "fetch" => guarded(move || Some(Box::new(w.fetch::<R>()) as Box<dyn AnyGuard>)),
                    "try_fetch" => guarded(move || w.try_fetch::<R>().map(|g| Box::new(g) as Box<dyn AnyGuard>)),
                    "fetch_mut" => guarded(move || Some(Box::new(w.fetch_mut::<R>()) as Box<dyn AnyGuard>)),
                    "try_fetch_mut" => guarded(move || w.try_fetch_mut::<R>().map(|g| Box::new(g) as Box<dyn AnyGuard>)),
                    "try_fetch_by_id" => guarded(move || w.try_fetch_by_id::<R>(id).map(|g| Box::new(g) as Box<dyn AnyGuard>)),
                    _ => guarded(move || w.try_fetch_mut_by_id::<R>(id).map(|g| Box::new(g) as Box<dyn AnyGuard>)),
                });
                match r {
                    Ok(Some(g)) => {
                        if !matching {
                            // a guard of the wrong static type: never dereferenced, released at once
                            drop(g);
                            return out("guard", "", vec![]);
                        }
                        let v = self.val(g.read());
                        let gid = self.grant(g, ty, dy, kind);
                        gs.push(gid);
                        out("guard", "", vec![v])
                    }
                    Ok(None) => out("none", "", vec![]),
                    Err(y) => out("panic", y, vec![]),
                }
            }
            "clone" => {
                let src = c.gs[0];
                let e = &self.table[&src];
                let (ty, dy) = (e.ty, e.dy);
                let r = guarded(|| e.g.dup());
                *gs = vec![src];
                match r {
                    Ok(Some(g)) => {
                        let v = self.val(g.read());
                        let gid = self.grant(g, ty, dy, 'r');
                        gs.push(gid);
                        out("guard", "", vec![v])
                    }
                    Ok(None) => out("none", "", vec![]),
                    Err(y) => out("panic", y, vec![]),
                }
            }
            "drop" => {
                let e = self.table.remove(&c.gs[0]).expect("harness: unknown guard");
                match guarded(move || drop(e)) { Ok(()) => out("unit", "", vec![]), Err(y) => out("panic", y, vec![]) }
            }
            "unwind" => {
                let held: Vec<GEntry> = c.gs.iter().map(|g| self.table.remove(g).expect("harness: unknown guard")).collect();
                let r = guarded(move || {
                    let _frame = held;
                    if !_frame.is_empty() {
                        panic!("user: unwinding through live guards");
                    }
                });
                match r { Ok(()) => out("unit", "", vec![]), Err(y) => out("panic", y, vec![]) }
            }
            "write" => {
                let e = self.table.get_mut(&c.gs[0]).expect("harness: unknown guard");
                match guarded(|| e.g.write(p)) { Ok(()) => out("unit", "", vec![]), Err(y) => out("panic", y, vec![]) }
            }
            "system_data" | "setup" | "exec" | "exec_panic" => {
                gs.clear();
                match c.shape.len() {
                    1 => {
                        let m = &c.shape[0];
                        with_member!(m.k.as_str(), self.ci(m.t), M1 => self.shape_op::<M1, ()>(c, gs))
                    }
                    2 => {
                        let (m, n) = (&c.shape[0], &c.shape[1]);
                        with_member!(m.k.as_str(), self.ci(m.t), M1 =>
                            with_member!(n.k.as_str(), self.ci(n.t), M2 => self.shape_op::<M1, M2>(c, gs)))
                    }
                    _ => panic!("harness: shapes have 1 or 2 members"),
                }
            }
            "miter_new" | "miter_new_mut" => {
                // creating the iterator borrows nothing (pinned code); it lives in `iters`
                let it = c.gs[0];
                let (w, meta) = (self.w(), self.meta());
                let r = if op == "miter_new" { guarded(|| IterBox::R(meta.iter(w))) } else { guarded(|| IterBox::W(meta.iter_mut(w))) };
                match r {
                    Ok(b) => {
                        self.iters.insert(it, b);
                        out("unit", "", vec![])
                    }
                    Err(y) => {
                        // creating an iterator cannot fail in any behaviour of the model: the rest of the
                        // history (which steps this iterator) cannot be executed, end the block here
                        self.abort = Some(format!("{} panicked ({})", op, y));
                        out("panic", y, vec![])
                    }
                }
            }
            "miter_next" => {
                let it = c.gs[0];
                *gs = vec![it];
                let Some(ib) = self.iters.get_mut(&it) else { return out("panic", "other", vec![]) };
                let r: Res<Option<(Box<dyn AnyGuard>, char)>> = match ib {
                    IterBox::R(i) => guarded(|| i.next().map(|x| (Box::new(x) as Box<dyn AnyGuard>, 'r'))),
                    IterBox::W(i) => guarded(|| i.next().map(|x| (Box::new(x) as Box<dyn AnyGuard>, 'w'))),
                };
                match r {
                    Ok(Some((g, kind))) => {
                        let x = g.read();
                        let t = self.abs(x.0);
                        let v = self.val(x);
                        let gid = self.grant(g, t.max(0) as u32, 0, kind);
                        gs.push(gid);
                        out("guard", "", vec![v])
                    }
                    Ok(None) => out("none", "", vec![]),
                    Err(y) => out("panic", y, vec![]),
                }
            }
            "miter_drop" => {
                let Some(ib) = self.iters.remove(&c.gs[0]) else { return out("panic", "other", vec![]) };
                match guarded(move || drop(ib)) { Ok(()) => out("unit", "", vec![]), Err(y) => out("panic", y, vec![]) }
            }
            "meta_iter" | "meta_iter_mut" => {
                gs.clear();
                let w = self.w();
                let meta: &'static MetaTable<dyn Probe> = unsafe { &*self.meta };
                let r: Res<Vec<(Box<dyn AnyGuard>, char)>> = if op == "meta_iter" {
                    guarded(|| {
                        let mut held: Vec<(Box<dyn AnyGuard>, char)> = Vec::new();
                        let mut it = meta.iter(w);
                        while let Some(x) = it.next() {
                            held.push((Box::new(x), 'r'));
                        }
                        held
                    })
                } else {
                    guarded(|| {
                        let mut held: Vec<(Box<dyn AnyGuard>, char)> = Vec::new();
                        let mut it = meta.iter_mut(w);
                        while let Some(x) = it.next() {
                            held.push((Box::new(x), 'w'));
                        }
                        held
                    })
                };
                match r {
                    Ok(held) => {
                        // which (type, 0) each item belongs to is read through the item itself
                        let mut vs = vec![noval(); self.tymap.len()];
                        for (g, kind) in held {
                            let x = g.read();
                            let t = self.abs(x.0);
                            if t >= 1 {
                                vs[t as usize - 1] = self.val(x);
                            }
                            let gid = self.grant(g, t.max(0) as u32, 0, kind);
                            gs.push(gid);
                        }
                        out("guards", "", vs)
                    }
                    Err(y) => out("panic", y, vec![]),
                }
            }
            _ => panic!("harness: unknown op {}", op),
        }
    }

    fn shape_op<A: MemberOrUnit, B: MemberOrUnit>(&mut self, c: &CallSpec, gs: &mut Vec<u32>) -> Value {
        let p = c.p;
        match c.op.as_str() {
            "system_data" => {
                let w = self.w();
                match guarded(move || w.system_data::<(A::M, B::M)>()) {
                    Ok((a, b)) => {
                        let mut vs = Vec::new();
                        let items = [A::guard(a), B::guard(b)];
                        for (k, it) in items.into_iter().enumerate() {
                            if k >= c.shape.len() {
                                continue;
                            }
                            match it {
                                Some((g, kind)) => {
                                    vs.push(self.val(g.read()));
                                    let gid = self.grant(g, c.shape[k].t, 0, kind);
                                    gs.push(gid);
                                }
                                None => vs.push(noval()),
                            }
                        }
                        out("guards", "", vs)
                    }
                    Err(y) => out("panic", y, vec![]),
                }
            }
            "setup" => {
                let w = self.wm();
                match guarded(move || w.setup::<(A::M, B::M)>()) { Ok(()) => out("unit", "", vec![]), Err(y) => out("panic", y, vec![]) }
            }
            _ => {
                let fp = c.op == "exec_panic";
                let w = self.wm();
                let n = c.shape.len();
                let r = guarded(move || {
                    w.exec(|(mut a, mut b): (A::M, B::M)| {
                        let seen = [A::peek(&a), B::peek(&b)];
                        if p != 0 {
                            A::poke(&mut a, p);
                            B::poke(&mut b, p);
                        }
                        if fp {
                            panic!("user: panic inside exec");
                        }
                        seen
                    })
                });
                match r {
                    Ok(seen) => out("guards", "", seen.iter().take(n).map(|s| s.map(|x| self.val(x)).unwrap_or_else(noval)).collect()),
                    Err(y) => out("panic", y, vec![]),
                }
            }
        }
    }
}

/// a shape member, or `()` padding for one-member shapes
pub trait MemberOrUnit {
    type M: SystemData<'static>;
    fn guard(m: Self::M) -> Option<(Box<dyn AnyGuard>, char)>;
    fn peek(m: &Self::M) -> Option<(usize, i64, u32)>;
    fn poke(m: &mut Self::M, p: i64);
}
impl MemberOrUnit for () {
    type M = ();
    fn guard(_: ()) -> Option<(Box<dyn AnyGuard>, char)> {
        None
    }
    fn peek(_: &()) -> Option<(usize, i64, u32)> {
        None
    }
    fn poke(_: &mut (), _: i64) {}
}
impl<X: Member> MemberOrUnit for X {
    type M = X;
    fn guard(m: X) -> Option<(Box<dyn AnyGuard>, char)> {
        m.into_guard()
    }
    fn peek(m: &X) -> Option<(usize, i64, u32)> {
        Member::peek(m)
    }
    fn poke(m: &mut X, p: i64) {
        Member::poke(m, p)
    }
}

/// one of the six shared-reference fetch paths with a MATCHING type argument (multi-thread mode)
pub fn thread_fetch(w: &'static World, op: &str, ci: usize, id: ResourceId) -> Option<Box<dyn AnyGuard>> {
    if op == "sd_read" {
        // Read<T> (needs T: Default for its setup handler, hence not the Box type)
        return with_ty4!(ci, R => Some(Box::new(w.system_data::<Read<'static, R>>()) as Box<dyn AnyGuard>));
    }
    with_ty!(ci, R => match op {
        "fetch" => Some(Box::new(w.fetch::<R>()) as Box<dyn AnyGuard>),
        "try_fetch" => w.try_fetch::<R>().map(|g| Box::new(g) as Box<dyn AnyGuard>),
        "fetch_mut" => Some(Box::new(w.fetch_mut::<R>()) as Box<dyn AnyGuard>),
        "try_fetch_mut" => w.try_fetch_mut::<R>().map(|g| Box::new(g) as Box<dyn AnyGuard>),
        "try_fetch_by_id" => w.try_fetch_by_id::<R>(id).map(|g| Box::new(g) as Box<dyn AnyGuard>),
        // the Option forms of system data (= try_fetch / try_fetch_mut, see MStyle in World.tla)
        "sd_optread" => w.system_data::<Option<Read<'static, R>>>().map(|g| Box::new(g) as Box<dyn AnyGuard>),
        "sd_optwrite" => w.system_data::<Option<Write<'static, R>>>().map(|g| Box::new(g) as Box<dyn AnyGuard>),
        _ => w.try_fetch_mut_by_id::<R>(id).map(|g| Box::new(g) as Box<dyn AnyGuard>),
    })
}
