//! Hand-written support code of the generated system-data type zoo (C06, world half of C13).
//!
//! `gen/zoo.py` turns shape tables (emitted by TLC from `spec/MCSysData.tla`, or produced by the
//! generator itself: arity patterns, deep nestings) into concrete Rust `SystemData` types
//! (`gen-out/zoo_cases.rs`, one `zoo_case!` invocation per type) plus a JSON descriptor file.
//! This module holds the resource types, the type-erased per-case operations (`Ops`), the
//! single-threaded borrow probe and the driver that records one trace block per case
//! (`reset`, `decl`, `fetch`, `setup` events; judged by `spec/SysDataTrace.tla`).
//!
//! Probe of a cell (atomic_refcell 0.1.14): `try_borrow_mut` is a compare-exchange(0, HIGH) and
//! leaves the counter untouched when it fails; when it succeeds the guard is dropped at once
//! (store 0) => "free".  Otherwise `try_borrow` does fetch_add(1): success (=> "shared") is undone by
//! dropping the guard; failure (=> "exclusive") leaves an increment *above* the HIGH bit, which
//! atomic_refcell documents as benign: the state stays "exclusively borrowed" and the writer's
//! release stores 0.  All probes run on the only thread that touches the world.

use std::{
    cell::RefCell,
    marker::PhantomData,
    panic::{catch_unwind, AssertUnwindSafe},
};

use rand::{rngs::StdRng, seq::SliceRandom, Rng};
use serde::Deserialize;
use serde_json::{json, Value};
use shred::{
    cell::{AtomicRef, AtomicRefMut},
    Accessor, DynamicSystemData, Resource, ResourceId, SystemData, World,
};

pub const DEFAULT_BASE: u32 = 100_000;
pub const NCONC: usize = 26;

thread_local! {
    /// concrete indices for which `Default::default()` ran, in order
    static DEFAULT_LOG: RefCell<Vec<usize>> = RefCell::new(Vec::new());
}

pub fn log_default(i: usize) {
    DEFAULT_LOG.with(|l| l.borrow_mut().push(i));
}
fn take_default_log() -> Vec<usize> {
    DEFAULT_LOG.with(|l| std::mem::take(&mut *l.borrow_mut()))
}

thread_local! {
    /// concrete indices of the resources whose custom setup handler (`Hc`) ran, in order
    static HANDLER_LOG: RefCell<Vec<usize>> = RefCell::new(Vec::new());
}
fn take_handler_log() -> Vec<usize> {
    HANDLER_LOG.with(|l| std::mem::take(&mut *l.borrow_mut()))
}

/// Custom `SetupHandler` of the zoo (`Read<'a, T, Hc<C>>`, `Write<'a, T, Hc<C>>`): its call is
/// observable whatever exists already (logged), it provides `T` like the DefaultProvider and it ALSO
/// provides the companion resource `C` - an effect beyond the resource the accessor declares.
pub struct Hc<C>(PhantomData<C>);
impl<T, C> shred::SetupHandler<T> for Hc<C>
where
    T: ZRes + Default,
    C: ZRes + Default,
{
    fn setup(world: &mut World) {
        HANDLER_LOG.with(|l| l.borrow_mut().push(T::IDX));
        world.entry::<T>().or_insert_with(T::default);
        world.entry::<C>().or_insert_with(C::default);
    }
}

pub trait Hrtb<'b> {}

pub trait ZRes: Resource + Sized {
    const IDX: usize;
    fn mk(v: u32) -> Self;
    fn val(&self) -> u32;
}

/// Type-erased access to one resource cell: a concrete resource type plus a dynamic id.  `dynid` 0 is
/// the cell the static Read/Write family addresses; `dynid` != 0 ("D3#1") is a dynamic-id SIBLING of
/// the same Rust type (inserted with `insert_by_id`), which no static member may ever touch.
#[derive(Clone)]
pub struct Slot {
    pub name: &'static str,
    pub idx: usize,
    pub has_default: bool,
    pub dynid: u64,
    pub id: fn(u64) -> ResourceId,
    pub insert: fn(&mut World, u64, u32),
    pub get: fn(&World, u64) -> Option<u32>,
    pub tyname: fn() -> &'static str,
}

impl Slot {
    pub fn rid(&self) -> ResourceId {
        (self.id)(self.dynid)
    }
    pub fn put(&self, w: &mut World, v: u32) {
        (self.insert)(w, self.dynid, v)
    }
    pub fn value(&self, w: &World) -> Option<u32> {
        (self.get)(w, self.dynid)
    }
    /// the cell addressed by the static accessors
    pub fn is_static(&self) -> bool {
        self.dynid == 0
    }
    /// slot of any resource type (used for the same-named local types of the twin cases)
    pub fn of<T: ZRes>(name: &'static str, has_default: bool) -> &'static Slot {
        Box::leak(Box::new(Slot { name, idx: T::IDX, has_default, dynid: 0, id: rid::<T>, insert: ins::<T>, get: get::<T>, tyname: tyname::<T> }))
    }
}

/// What the generic twin code needs from a resource type.
pub trait TwinRes: ZRes + Default + std::fmt::Debug + for<'b> Hrtb<'b> {}
impl<T: ZRes + Default + std::fmt::Debug + for<'b> Hrtb<'b>> TwinRes for T {}

/// A `Default` resource type declared locally (twin cases declare the SAME names in sibling blocks:
/// distinct types with identical `std::any::type_name`).
#[macro_export]
macro_rules! zoo_local_res {
    ($name:ident, $i:expr) => {
        #[derive(Debug)]
        struct $name(u32);
        impl Default for $name {
            fn default() -> Self {
                $crate::zoo::log_default($i);
                $name($crate::zoo::DEFAULT_BASE + $i)
            }
        }
        impl $crate::zoo::ZRes for $name {
            const IDX: usize = $i;
            fn mk(v: u32) -> Self {
                $name(v)
            }
            fn val(&self) -> u32 {
                self.0
            }
        }
        impl<'b> $crate::zoo::Hrtb<'b> for $name {}
    };
}

/// One generated type GENERIC in its resource types `$p..`, instantiated twice from sibling blocks of
/// one function with same-named local resource types (`$loc = index`), first block then second block:
/// declared ids must be a function of the type, not of its printed name or of what ran earlier.
#[macro_export]
macro_rules! zoo_twin {
    ($m:ident, $id0:expr, $id1:expr, $lt:lifetime, [$($p:ident),*], [$($loc:ident = $i:expr),*], $t:ty) => {
        pub mod $m {
            #![allow(unused_imports, non_camel_case_types)]
            use super::*;
            use $crate::zoo::TwinRes;
            pub struct Sys<$($p),*>(pub $crate::zoo::SysProbe, pub std::marker::PhantomData<fn() -> ($($p,)*)>);
            impl<$lt, $($p: TwinRes),*> shred::System<$lt> for Sys<$($p),*> {
                type SystemData = $t;
                fn run(&mut self, data: Self::SystemData) {
                    self.0.in_run();
                    drop(data);
                }
            }
            fn decl<$lt, $($p: TwinRes),*>() -> $crate::zoo::Decl {
                $crate::zoo::decl_of::<$t>()
            }
            fn fetch<$lt, $($p: TwinRes),*>(w: &$lt shred::World, via: u8, ids: &[shred::ResourceId]) -> Vec<u8> {
                $crate::zoo::fetch_of::<$t>(w, via, ids)
            }
            fn setup<$lt, $($p: TwinRes),*>(w: &mut shred::World, via: u8) {
                $crate::zoo::setup_of::<$t>(w, via)
            }
            fn acc<$($p: TwinRes),*>() -> $crate::zoo::Decl {
                use shred::{Accessor, System};
                let s = Sys::<$($p),*>($crate::zoo::SysProbe::idle(), std::marker::PhantomData);
                let a = s.accessor();
                (a.reads(), a.writes())
            }
            fn sys_run<$lt, $($p: TwinRes),*>(w: &$lt shred::World, ids: &[shred::ResourceId]) -> Vec<u8> {
                let mut s = Sys::<$($p),*>($crate::zoo::SysProbe { world: w as *const _, ids: ids.to_vec(), seen: None }, std::marker::PhantomData);
                shred::RunNow::run_now(&mut s, w);
                s.0.seen.take().unwrap_or_default()
            }
            fn sys_setup<$($p: TwinRes),*>(w: &mut shred::World) {
                let mut s = Sys::<$($p),*>($crate::zoo::SysProbe::idle(), std::marker::PhantomData);
                shred::RunNow::setup(&mut s, w);
            }
            fn exec<$lt, $($p: TwinRes),*>(w: &$lt mut shred::World) {
                $crate::zoo::exec_of::<$t>(w)
            }
            fn ops<$($p: TwinRes),*>(id: u32) -> $crate::zoo::Ops {
                $crate::zoo::Ops {
                    id,
                    decl: decl::<$($p),*>,
                    fetch: fetch::<$($p),*>,
                    setup: setup::<$($p),*>,
                    acc: acc::<$($p),*>,
                    sys_run: sys_run::<$($p),*>,
                    sys_setup: sys_setup::<$($p),*>,
                    exec: exec::<$($p),*>,
                }
            }
            pub fn run(f: &mut dyn FnMut(&$crate::zoo::Ops, Vec<&'static $crate::zoo::Slot>)) {
                {
                    $( $crate::zoo_local_res!($loc, $i); )*
                    f(&ops::<$($loc),*>($id0), vec![$( $crate::zoo::Slot::of::<$loc>(stringify!($loc), true) ),*]);
                }
                {
                    $( $crate::zoo_local_res!($loc, $i); )*
                    f(&ops::<$($loc),*>($id1), vec![$( $crate::zoo::Slot::of::<$loc>(stringify!($loc), true) ),*]);
                }
            }
        }
    };
}

pub type TwinFn = fn(&mut dyn FnMut(&Ops, Vec<&'static Slot>));

fn rid<T: ZRes>(dynid: u64) -> ResourceId {
    ResourceId::new_with_dynamic_id::<T>(dynid)
}
fn ins<T: ZRes>(w: &mut World, dynid: u64, v: u32) {
    if dynid == 0 {
        w.insert(T::mk(v));
    } else {
        w.insert_by_id(ResourceId::new_with_dynamic_id::<T>(dynid), T::mk(v));
    }
}
fn get<T: ZRes>(w: &World, dynid: u64) -> Option<u32> {
    // read past the borrow flag (quiescent point, single thread): a cell that the code under test
    // left borrowed must not make the harness panic
    unsafe { w.try_fetch_internal(ResourceId::new_with_dynamic_id::<T>(dynid)) }
        .and_then(|c| unsafe { (**c.as_ptr()).downcast_ref::<T>() })
        .map(|x| x.val())
}
fn tyname<T: ZRes>() -> &'static str {
    std::any::type_name::<T>()
}

macro_rules! zres {
    ($( $i:expr => $d:ident $n:ident ),* $(,)?) => {
        $(
            /// resource with a `Default` (records every call of it)
            #[derive(Debug)]
            pub struct $d(pub u32);
            impl Default for $d {
                fn default() -> Self { log_default($i); $d(DEFAULT_BASE + $i) }
            }
            impl ZRes for $d { const IDX: usize = $i; fn mk(v: u32) -> Self { $d(v) } fn val(&self) -> u32 { self.0 } }
            impl<'b> Hrtb<'b> for $d {}
            /// resource WITHOUT `Default` (only usable through the Expect / Option forms)
            #[derive(Debug)]
            pub struct $n(pub u32);
            impl ZRes for $n { const IDX: usize = $i; fn mk(v: u32) -> Self { $n(v) } fn val(&self) -> u32 { self.0 } }
            impl<'b> Hrtb<'b> for $n {}
        )*
        pub static D_SLOTS: [Slot; NCONC] = [ $( Slot { name: stringify!($d), idx: $i, has_default: true, dynid: 0,
            id: rid::<$d>, insert: ins::<$d>, get: get::<$d>, tyname: tyname::<$d> } ),* ];
        pub static N_SLOTS: [Slot; NCONC] = [ $( Slot { name: stringify!($n), idx: $i, has_default: false, dynid: 0,
            id: rid::<$n>, insert: ins::<$n>, get: get::<$n>, tyname: tyname::<$n> } ),* ];
    };
}

zres! {
    0 => D0 N0, 1 => D1 N1, 2 => D2 N2, 3 => D3 N3, 4 => D4 N4, 5 => D5 N5, 6 => D6 N6, 7 => D7 N7,
    8 => D8 N8, 9 => D9 N9, 10 => D10 N10, 11 => D11 N11, 12 => D12 N12, 13 => D13 N13, 14 => D14 N14,
    15 => D15 N15, 16 => D16 N16, 17 => D17 N17, 18 => D18 N18, 19 => D19 N19, 20 => D20 N20,
    21 => D21 N21, 22 => D22 N22, 23 => D23 N23, 24 => D24 N24, 25 => D25 N25,
}

/// "D3" -> the static cell of D3; "D3#2" -> its sibling with dynamic id 2
pub const PANIC_DEFAULT_MARK: &str = "must be inserted explicitly";

macro_rules! xres {
    ($( $i:expr => $x:ident ),* $(,)?) => {
        $(
            /// resource whose `Default` PANICS (the "must be inserted explicitly" idiom): usable with
            /// every accessor form, its setup only works when the resource already exists
            #[derive(Debug)]
            pub struct $x(pub u32);
            impl Default for $x {
                fn default() -> Self { panic!("{} {}", stringify!($x), PANIC_DEFAULT_MARK) }
            }
            impl ZRes for $x { const IDX: usize = $i; fn mk(v: u32) -> Self { $x(v) } fn val(&self) -> u32 { self.0 } }
            impl<'b> Hrtb<'b> for $x {}
        )*
        pub static X_SLOTS: [Slot; 4] = [ $( Slot { name: stringify!($x), idx: $i, has_default: false, dynid: 0,
            id: rid::<$x>, insert: ins::<$x>, get: get::<$x>, tyname: tyname::<$x> } ),* ];
    };
}
xres! { 26 => X0, 27 => X1, 28 => X2, 29 => X3 }

pub fn slot_by_name(name: &str) -> Option<&'static Slot> {
    let (base, dynid) = match name.split_once('#') {
        Some((b, n)) => (b, n.parse::<u64>().ok()?),
        None => (name, 0),
    };
    let s = D_SLOTS.iter().chain(N_SLOTS.iter()).chain(X_SLOTS.iter()).find(|s| s.name == base)?;
    if dynid == 0 {
        Some(s)
    } else {
        let mut c = s.clone();
        c.dynid = dynid;
        Some(Box::leak(Box::new(c)))
    }
}

// ------------------------------------------------------------------ per-case operations

pub type Decl = (Vec<ResourceId>, Vec<ResourceId>);

/// Type-erased operations on one generated system-data type `T` (and on the real `System`
/// whose `SystemData` is `T`); filled in by `zoo_case!`.
pub struct Ops {
    pub id: u32,
    /// `T::reads()`, `T::writes()`
    pub decl: fn() -> Decl,
    /// fetch `T` (via 0: `T::fetch`, 1: `World::system_data`, 2: `DynamicSystemData::fetch` with the
    /// `StaticAccessor`), classify the given cells while the value is alive, drop it
    pub fetch: for<'w> fn(&'w World, u8, &[ResourceId]) -> Vec<u8>,
    /// via 0: `T::setup`, 1: `World::setup::<T>`, 2: `DynamicSystemData::setup`
    pub setup: fn(&mut World, u8),
    /// `System::accessor()` of the per-case system: reads()/writes() through `StaticAccessor`
    pub acc: fn() -> Decl,
    /// `RunNow::run_now` of the per-case system; cells classified inside `System::run`
    pub sys_run: for<'w> fn(&'w World, &[ResourceId]) -> Vec<u8>,
    /// `RunNow::setup` of the per-case system
    pub sys_setup: fn(&mut World),
    /// `World::exec(|data: T| ..)` (setup, then fetch)
    pub exec: fn(&mut World),
}

/// Payload of the harness's own panics (execution contexts "value dropped by unwinding" and "fetch
/// issued from a destructor that runs because of a panic").
pub struct Deliberate;

thread_local! {
    /// classes observed while the value was alive, stashed before a deliberate panic
    static LAST_ALIVE: RefCell<Option<Vec<u8>>> = RefCell::new(None);
    /// make `SysProbe::in_run` panic after probing (the system's data is then dropped by unwinding)
    static PANIC_IN_RUN: RefCell<bool> = RefCell::new(false);
}
pub const UNWIND: u8 = 0x10;
pub const HOLD: u8 = 0x20;

fn stash_and_panic(cls: Vec<u8>) -> ! {
    LAST_ALIVE.with(|l| *l.borrow_mut() = Some(cls));
    std::panic::panic_any(Deliberate)
}

pub fn decl_of<'a, T: SystemData<'a>>() -> Decl {
    (T::reads(), T::writes())
}

pub fn fetch_of<'a, T: SystemData<'a>>(w: &'a World, via: u8, ids: &[ResourceId]) -> Vec<u8> {
    let unwind = via & UNWIND != 0;
    let d: T = match via & 0x0f {
        0 => T::fetch(w),
        1 => w.system_data::<T>(),
        _ => {
            let acc = <<T as DynamicSystemData<'a>>::Accessor as Accessor>::try_new().expect("static accessor");
            <T as DynamicSystemData<'a>>::fetch(&acc, w)
        }
    };
    let cls = classify(w, ids);
    if unwind {
        // the value is alive here: it is dropped by the unwinding of this frame
        stash_and_panic(cls);
    }
    if via & HOLD != 0 {
        // read storm: keep the data across two further fetches of the same type
        let d2: T = T::fetch(w);
        let d3: T = w.system_data::<T>();
        drop(d2);
        drop(d3);
    }
    drop(d);
    cls
}

/// Read-only storm (multi-threaded): `threads` threads - std threads and, with the `parallel` feature,
/// rayon workers - fetch the SAME read-only type from one shared `&World` (every resource present,
/// nobody holds an exclusive borrow) for `ms` milliseconds through `T::fetch`, `World::system_data`,
/// `RunNow::run_now` of the per-case system, partly holding the data across further fetches.  A declared
/// READ takes a SHARED borrow, so every one of these fetches must succeed; each is run under
/// catch_unwind and failures are only counted (no cell is probed here: a probe is an exclusive attempt).
pub fn storm(ops: &Ops, d: &CaseDesc, slots: &[&'static Slot], ms: u64, ev: &mut Vec<Value>, st: &mut Stats) {
    use std::sync::atomic::{AtomicU64, Ordering};
    let vals: Vec<u32> = (0..slots.len()).map(|i| 1 + i as u32).collect();
    let w = mk_world(slots, &vals);
    let n_ops = AtomicU64::new(0);
    let n_fail = AtomicU64::new(0);
    let first: std::sync::Mutex<Option<String>> = std::sync::Mutex::new(None);
    let deadline = std::time::Instant::now() + std::time::Duration::from_millis(ms);
    let worker = |t: usize| {
        let mut k = t;
        let (mut done, mut fail) = (0u64, 0u64);
        loop {
            for _ in 0..8 {
                k += 1;
                let r = catch_unwind(AssertUnwindSafe(|| match k % 4 {
                    0 => drop((ops.fetch)(&w, 0, &[])),
                    1 => drop((ops.fetch)(&w, 1, &[])),
                    2 => drop((ops.sys_run)(&w, &[])),
                    _ => drop((ops.fetch)(&w, if t % 2 == 0 { HOLD } else { 2 | HOLD }, &[])),
                }));
                done += 1;
                if let Err(p) = r {
                    fail += 1;
                    let mut g = first.lock().unwrap_or_else(|e| e.into_inner());
                    if g.is_none() {
                        *g = Some(panic_text(p).chars().take(160).collect());
                    }
                }
            }
            if std::time::Instant::now() >= deadline {
                break;
            }
        }
        n_ops.fetch_add(done, Ordering::Relaxed);
        n_fail.fetch_add(fail, Ordering::Relaxed);
    };
    let n_std = 4usize;
    #[cfg(feature = "parallel")]
    let n_rayon = 3usize;
    #[cfg(not(feature = "parallel"))]
    let n_rayon = 0usize;
    std::thread::scope(|sc| {
        for t in 0..n_std {
            let worker = &worker;
            sc.spawn(move || worker(t));
        }
        #[cfg(feature = "parallel")]
        {
            let worker = &worker;
            sc.spawn(move || {
                let pool = rayon::ThreadPoolBuilder::new().num_threads(n_rayon).build().expect("pool");
                pool.scope(|rs| {
                    for t in 0..n_rayon {
                        rs.spawn(move |_| worker(n_std + t));
                    }
                });
            });
        }
    });
    let (o, f) = (n_ops.load(Ordering::Relaxed), n_fail.load(Ordering::Relaxed));
    st.storm_blocks += 1;
    st.storm_ops += o as usize;
    st.storm_fail += f as usize;
    let msg = first.into_inner().unwrap_or_else(|e| e.into_inner()).unwrap_or_default();
    ev.push(json!({"ev":"storm","case":d.id,"threads":n_std + n_rayon,"rayon":n_rayon,"ms":ms,
                   "ops": o.min(2_000_000_000), "fail": f.min(2_000_000_000), "msg": msg}));
}

pub fn setup_of<'a, T: SystemData<'a>>(w: &mut World, via: u8) {
    match via {
        0 => T::setup(w),
        1 => w.setup::<T>(),
        _ => {
            let acc = <<T as DynamicSystemData<'a>>::Accessor as Accessor>::try_new().expect("static accessor");
            <T as DynamicSystemData<'a>>::setup(&acc, w)
        }
    }
}

pub fn exec_of<'a, T: SystemData<'a>>(w: &'a mut World) {
    // `exec` keeps the world mutably borrowed for 'a, so nothing can be probed while the data is
    // alive; observed: panic or not, Default::default() calls, world and cells afterwards
    w.exec(|d: T| drop(d))
}

/// State of the per-case probing system.
pub struct SysProbe {
    pub world: *const World,
    pub ids: Vec<ResourceId>,
    pub seen: Option<Vec<u8>>,
}

impl SysProbe {
    pub fn idle() -> Self {
        SysProbe { world: std::ptr::null(), ids: Vec::new(), seen: None }
    }
    /// called from `System::run` while the fetched data is alive
    pub fn in_run(&mut self) {
        if !self.world.is_null() {
            // the world is only shared-borrowed while a system runs; this is the only thread
            let w = unsafe { &*self.world };
            let cls = classify(w, &self.ids);
            if PANIC_IN_RUN.with(|f| *f.borrow()) {
                // `System::run` panics while it owns the data: dropped by unwinding through run_now
                stash_and_panic(cls);
            }
            self.seen = Some(cls);
        }
    }
}

/// One generated type.  `$lt` is the fetch lifetime used inside `$t`.
#[macro_export]
macro_rules! zoo_case {
    ($m:ident, $id:expr, $lt:lifetime, $t:ty) => {
        pub mod $m {
            #![allow(unused_imports)]
            use super::*;
            pub struct Sys(pub $crate::zoo::SysProbe);
            impl<$lt> shred::System<$lt> for Sys {
                type SystemData = $t;
                fn run(&mut self, data: Self::SystemData) {
                    self.0.in_run();
                    drop(data);
                }
            }
            fn decl<$lt>() -> $crate::zoo::Decl {
                $crate::zoo::decl_of::<$t>()
            }
            fn fetch<$lt>(w: &$lt shred::World, via: u8, ids: &[shred::ResourceId]) -> Vec<u8> {
                $crate::zoo::fetch_of::<$t>(w, via, ids)
            }
            fn setup<$lt>(w: &mut shred::World, via: u8) {
                $crate::zoo::setup_of::<$t>(w, via)
            }
            fn acc() -> $crate::zoo::Decl {
                use shred::{Accessor, System};
                let s = Sys($crate::zoo::SysProbe::idle());
                let a = s.accessor();
                (a.reads(), a.writes())
            }
            fn sys_run<$lt>(w: &$lt shred::World, ids: &[shred::ResourceId]) -> Vec<u8> {
                let mut s = Sys($crate::zoo::SysProbe { world: w as *const _, ids: ids.to_vec(), seen: None });
                shred::RunNow::run_now(&mut s, w);
                s.0.seen.take().unwrap_or_default()
            }
            fn sys_setup(w: &mut shred::World) {
                let mut s = Sys($crate::zoo::SysProbe::idle());
                shred::RunNow::setup(&mut s, w);
            }
            fn exec<$lt>(w: &$lt mut shred::World) {
                $crate::zoo::exec_of::<$t>(w)
            }
            pub static OPS: $crate::zoo::Ops = $crate::zoo::Ops {
                id: $id,
                decl,
                fetch,
                setup,
                acc,
                sys_run,
                sys_setup,
                exec,
            };
        }
    };
}

// ------------------------------------------------------------------ borrow probe

/// 0 free, 1 shared, 2 exclusive, 3 no such cell.  See the module comment.
pub fn classify(w: &World, ids: &[ResourceId]) -> Vec<u8> {
    ids.iter()
        .map(|id| match unsafe { w.try_fetch_internal(id.clone()) } {
            None => 3,
            Some(cell) => {
                if let Ok(g) = cell.try_borrow_mut() {
                    drop(g);
                    0
                } else if let Ok(g) = cell.try_borrow() {
                    drop(g);
                    1
                } else {
                    2
                }
            }
        })
        .collect()
}

enum Held<'w> {
    _R(AtomicRef<'w, Box<dyn Resource>>),
    _W(AtomicRefMut<'w, Box<dyn Resource>>),
}

// ------------------------------------------------------------------ descriptors

#[derive(Deserialize, Clone, Debug)]
pub struct Expect {
    pub reads: Vec<u32>,
    pub writes: Vec<u32>,
    pub out: String,
    pub pres: u32,
    pub alive: Vec<u8>,
    pub after: Vec<u8>,
    pub created: Vec<u32>,
    #[serde(default)]
    pub calls: Vec<u32>,
    /// presence after setup
    pub w1: Vec<bool>,
}

#[derive(Deserialize, Clone, Debug)]
pub struct Run {
    pub present: Vec<bool>,
    pub held: Vec<u8>,
    #[serde(default)]
    pub exp: Option<Expect>,
}

#[derive(Deserialize, Clone, Debug)]
pub struct CaseDesc {
    pub id: u32,
    pub origin: String,
    pub ty: String,
    pub shape: Value,
    pub nres: usize,
    /// concrete type per abstract resource ("D3", "N0", "X1", "D3#2", ...)
    pub conc: Vec<String>,
    /// Default::default() of the resource's type panics
    #[serde(default)]
    pub pdef: Vec<bool>,
    /// run the multi-threaded read-only storm on this (read-only) case
    #[serde(default)]
    pub storm: bool,
    /// runs with reference values emitted by TLC (spec -> implementation)
    #[serde(default)]
    pub runs: Vec<Run>,
    /// number of additional random fetch / setup runs
    #[serde(default)]
    pub extra: usize,
}

#[derive(Deserialize, Debug)]
pub struct DescFile {
    pub hash: String,
    pub cases: Vec<CaseDesc>,
}

#[derive(Default, Debug)]
pub struct Stats {
    pub cases: usize,
    pub events: usize,
    pub fetch_runs: usize,
    pub setup_runs: usize,
    pub exec_runs: usize,
    pub second_pass: usize,
    pub setup_leaked: usize,
    pub storm_blocks: usize,
    pub storm_ops: usize,
    pub storm_fail: usize,
    pub setup_panics: usize,
    pub fetch_ctx: [usize; 3],
    pub twin_blocks: usize,
    pub fetch_ok: usize,
    pub fetch_missing: usize,
    pub fetch_borrow: usize,
    pub fetch_other: usize,
    pub with_held: usize,
    pub model_runs: usize,
    pub model_matched: usize,
    pub model_mismatch: usize,
    pub mismatch_samples: Vec<Value>,
}

// ------------------------------------------------------------------ driver

fn abstract_of(slots: &[&'static Slot], id: &ResourceId) -> u32 {
    slots.iter().position(|s| s.rid() == *id).map(|p| p as u32 + 1).unwrap_or(0)
}

fn abstract_list(slots: &[&'static Slot], v: &[ResourceId]) -> Vec<u32> {
    v.iter().map(|id| abstract_of(slots, id)).collect()
}

fn panic_text(p: Box<dyn std::any::Any + Send>) -> String {
    if let Some(s) = p.downcast_ref::<String>() {
        s.clone()
    } else if let Some(s) = p.downcast_ref::<&'static str>() {
        s.to_string()
    } else {
        String::from("<non-string panic>")
    }
}

/// ("missing" | "borrow" | "other", abstract resource named by the message or 0)
fn classify_panic(slots: &[&'static Slot], msg: &str) -> (&'static str, u32) {
    let kind = if msg.contains(PANIC_DEFAULT_MARK) {
        "panic_default"
    } else if msg.contains("the resource does not exist") {
        "missing"
    } else if msg.contains("already mutably borrowed") || msg.contains("already immutably borrowed") || msg.contains("already borrowed") {
        "borrow"
    } else {
        "other"
    };
    let mut res = 0;
    for (i, s) in slots.iter().enumerate().filter(|(_, s)| s.is_static()) {
        let full = (s.tyname)();
        let hit = match kind {
            "missing" => msg.contains(&format!("`{}`", full)),
            "borrow" => msg.starts_with(&format!("{}:", full)),
            _ => false,
        };
        if hit {
            res = i as u32 + 1;
        }
    }
    (kind, res)
}

fn mk_world(slots: &[&'static Slot], vals: &[u32]) -> World {
    let mut w = World::empty();
    for (s, v) in slots.iter().zip(vals) {
        if *v != 0 {
            s.put(&mut w, *v);
        }
    }
    w
}

fn snapshot(slots: &[&'static Slot], w: &World) -> Vec<u32> {
    slots.iter().map(|s| s.value(w).unwrap_or(0)).collect()
}

const FETCH_VIA: [&str; 4] = ["fetch", "system_data", "dynamic", "run_now"];
const SETUP_VIA: [&str; 4] = ["type", "world", "dynamic", "run_now_setup"];

struct FetchObs {
    out: &'static str,
    pres: u32,
    alive: Vec<u8>,
    after: Vec<u8>,
    msg: String,
}

struct InDrop<'x>(&'x mut dyn FnMut());
impl Drop for InDrop<'_> {
    fn drop(&mut self) {
        (self.0)()
    }
}

pub const CTX: [&str; 3] = ["normal", "dropped_by_unwinding", "fetched_in_drop_while_unwinding"];

/// ctx 0: normal control flow; 1: the fetched value is dropped by an unwinding (caught) panic;
/// 2: the whole fetch is issued from a destructor that runs because of a (caught) panic.
/// The expected observation is the same in all three.
fn do_fetch(ops: &Ops, slots: &[&'static Slot], ids: &[ResourceId], present: &[bool], held: &[u8], via: usize, ctx: usize, rng: &mut StdRng) -> FetchObs {
    let vals: Vec<u32> = present.iter().map(|p| if *p { rng.gen_range(1..DEFAULT_BASE) } else { 0 }).collect();
    let w = mk_world(slots, &vals);
    // borrows held by somebody else
    let mut guards: Vec<Held> = Vec::new();
    for (i, h) in held.iter().enumerate() {
        if *h == 0 {
            continue;
        }
        let cell = unsafe { w.try_fetch_internal(ids[i].clone()) }.expect("held resource must be present");
        if *h == 1 {
            guards.push(Held::_R(cell.try_borrow().expect("pre-borrow")));
        } else {
            guards.push(Held::_W(cell.try_borrow_mut().expect("pre-borrow")));
        }
    }
    LAST_ALIVE.with(|l| *l.borrow_mut() = None);
    PANIC_IN_RUN.with(|f| *f.borrow_mut() = ctx == 1);
    let mut the_fetch = || {
        catch_unwind(AssertUnwindSafe(|| {
            if via == 3 {
                (ops.sys_run)(&w, ids)
            } else {
                (ops.fetch)(&w, via as u8 | if ctx == 1 { UNWIND } else { 0 }, ids)
            }
        }))
    };
    let r = if ctx == 2 {
        let mut res = None;
        {
            let mut body = || res = Some(the_fetch());
            let _ = catch_unwind(AssertUnwindSafe(|| {
                let _g = InDrop(&mut body);
                std::panic::panic_any(Deliberate)
            }));
        }
        res.expect("destructor ran")
    } else {
        the_fetch()
    };
    PANIC_IN_RUN.with(|f| *f.borrow_mut() = false);
    let after = classify(&w, ids);
    let obs = match r {
        Ok(alive) => FetchObs { out: "ok", pres: 0, alive, after, msg: String::new() },
        Err(p) if p.is::<Deliberate>() => {
            // our own panic: the fetch had succeeded, the value was dropped by the unwinding
            let alive = LAST_ALIVE.with(|l| l.borrow_mut().take()).unwrap_or_default();
            FetchObs { out: "ok", pres: 0, alive, after, msg: String::new() }
        }
        Err(p) => {
            let msg = panic_text(p);
            let (kind, res) = classify_panic(slots, &msg);
            FetchObs { out: kind, pres: res, alive: after.clone(), after, msg }
        }
    };
    drop(guards);
    obs
}

/// concrete indices of `D` types -> abstract resources of the case (0: not a resource of the case)
fn abstract_of_default_types(slots: &[&'static Slot], log: &[usize]) -> Vec<u32> {
    log.iter()
        .map(|c| slots.iter().position(|s| (s.has_default || s.idx >= NCONC) && s.is_static() && s.idx == *c).map(|p| p as u32 + 1).unwrap_or(0))
        .collect()
}

struct SetupObs {
    out: &'static str,
    created: Vec<u32>,
    calls: Vec<u32>,
    w1: Vec<u32>,
}

fn setup_panic_kind(msg: &str) -> &'static str {
    if msg.contains(PANIC_DEFAULT_MARK) {
        "panic_default"
    } else if msg.contains("already") && msg.contains("borrowed") {
        "panic_borrow"
    } else {
        "panic"
    }
}

/// `leaked[i]` 1 / 2: a shared / exclusive guard of the (present) resource is forgotten before the setup
/// (what safe code can do with `mem::forget(world.fetch::<T>())`).
fn do_setup(ops: &Ops, slots: &[&'static Slot], w0: &[u32], leaked: &[u8], via: usize) -> SetupObs {
    let mut w = mk_world(slots, w0);
    for (i, l) in leaked.iter().enumerate() {
        if *l != 0 {
            let cell = unsafe { w.try_fetch_internal(slots[i].rid()) }.expect("leaked resource must be present");
            if *l == 1 {
                std::mem::forget(cell.try_borrow().expect("leak"));
            } else {
                std::mem::forget(cell.try_borrow_mut().expect("leak"));
            }
        }
    }
    take_default_log();
    take_handler_log();
    let r = catch_unwind(AssertUnwindSafe(|| {
        if via == 3 {
            (ops.sys_setup)(&mut w)
        } else {
            (ops.setup)(&mut w, via as u8)
        }
    }));
    let created = abstract_of_default_types(slots, &take_default_log());
    let calls = abstract_of_default_types(slots, &take_handler_log());
    let out = match r {
        Ok(()) => "ok",
        Err(p) => setup_panic_kind(&panic_text(p)),
    };
    SetupObs { out, created, calls, w1: snapshot(slots, &w) }
}

fn random_presence(n: usize, rng: &mut StdRng, k: usize) -> Vec<bool> {
    match k {
        0 => vec![true; n],
        1 => vec![false; n],
        2 => {
            // all but one
            let mut v = vec![true; n];
            if n > 0 {
                v[rng.gen_range(0..n)] = false;
            }
            v
        }
        _ => {
            let p = *[0.2, 0.5, 0.8, 0.95].choose(rng).unwrap();
            (0..n).map(|_| rng.gen_bool(p)).collect()
        }
    }
}

/// Record the trace block of one case (resource types looked up by the descriptor's names).
pub fn run_case(ops: &Ops, d: &CaseDesc, rng: &mut StdRng, ev: &mut Vec<Value>, st: &mut Stats, pass: u32) {
    let slots: Vec<&'static Slot> = d.conc.iter().map(|n| slot_by_name(n).unwrap_or_else(|| panic!("unknown concrete type {}", n))).collect();
    run_case_with(ops, d, slots, rng, ev, st, pass)
}

/// Record the trace block of one case.  `pass` 1: everything; `pass` 2: only the declarations again
/// (queried after every other type of the process has been used, in another order).
pub fn run_case_with(ops: &Ops, d: &CaseDesc, slots: Vec<&'static Slot>, rng: &mut StdRng, ev: &mut Vec<Value>, st: &mut Stats, pass: u32) {
    assert_eq!(slots.len(), d.nres);
    let ids: Vec<ResourceId> = slots.iter().map(|s| s.rid()).collect();
    let dflt: Vec<u32> = slots.iter().map(|s| DEFAULT_BASE + s.idx as u32).collect();
    let n0 = ev.len();
    ev.push(json!({"ev":"reset","case":d.id,"origin":d.origin,"ty":d.ty,"shape":d.shape,"nres":d.nres,"dflt":dflt,
                   "conc":d.conc,"pass":pass,
                   "pdef": if d.pdef.len() == d.nres { d.pdef.clone() } else { vec![false; d.nres] }}));

    // ---- declarations: the type, and the accessor of a real System using it
    let mut reported: Option<(Vec<u32>, Vec<u32>)> = None;
    for (via, f) in [("type", ops.decl), ("accessor", ops.acc)] {
        match catch_unwind(f) {
            Ok((r, w)) => {
                let (r, w) = (abstract_list(&slots, &r), abstract_list(&slots, &w));
                if via == "type" {
                    reported = Some((r.clone(), w.clone()));
                }
                ev.push(json!({"ev":"decl","via":via,"out":"ok","reads":r,"writes":w}));
            }
            Err(_) => ev.push(json!({"ev":"decl","via":via,"out":"panic","reads":[],"writes":[]})),
        }
    }

    if pass != 1 {
        st.second_pass += 1;
        st.events += ev.len() - n0;
        return;
    }

    // ---- fetch runs
    let mut fetch_runs: Vec<(Vec<bool>, Vec<u8>, Option<Expect>)> =
        d.runs.iter().map(|r| (r.present.clone(), r.held.clone(), r.exp.clone())).collect();
    if d.runs.is_empty() && d.nres <= 3 {
        for m in 0..(1u32 << d.nres) {
            fetch_runs.push(((0..d.nres).map(|i| m >> i & 1 == 1).collect(), vec![0; d.nres], None));
        }
    }
    for k in 0..d.extra {
        let present = random_presence(d.nres, rng, if d.runs.is_empty() && d.nres > 3 { k } else { 3 + k });
        // sometimes somebody else already holds a borrow on a present resource
        let mut held = vec![0u8; d.nres];
        if rng.gen_bool(0.4) {
            let cand: Vec<usize> = (0..d.nres).filter(|i| present[*i]).collect();
            if let Some(i) = cand.choose(rng) {
                held[*i] = rng.gen_range(1..=2);
            }
        }
        fetch_runs.push((present, held, None));
    }
    for (k, (present, held, exp)) in fetch_runs.iter().enumerate() {
        let via = if exp.is_some() { (k + d.id as usize) % 4 } else { rng.gen_range(0..4) };
        let ctx = if exp.is_some() { (k / 4 + k + d.id as usize) % 3 } else { *[0, 0, 1, 1, 2, 2, 2].choose(rng).unwrap() };
        let o = do_fetch(ops, &slots, &ids, present, held, via, ctx, rng);
        st.fetch_runs += 1;
        st.fetch_ctx[ctx] += 1;
        match o.out {
            "ok" => st.fetch_ok += 1,
            "missing" => st.fetch_missing += 1,
            "borrow" => st.fetch_borrow += 1,
            _ => st.fetch_other += 1,
        }
        if held.iter().any(|h| *h != 0) {
            st.with_held += 1;
        }
        let mut e = json!({"ev":"fetch","via":FETCH_VIA[via],"ctx":CTX[ctx],"present":present,"held":held,"out":o.out,"pres":o.pres,
                           "alive":o.alive,"after":o.after});
        if o.out == "other" {
            e["msg"] = json!(o.msg.chars().take(200).collect::<String>());
        }
        if let Some(x) = exp {
            // spec -> implementation: compare with the reference values TLC emitted for this state
            st.model_runs += 1;
            let n = x.alive.len();
            let same = reported.as_ref().map(|(r, w)| *r == x.reads && *w == x.writes).unwrap_or(false)
                && o.out == x.out
                && (o.out == "ok" || o.pres == x.pres)
                && o.alive[..n] == x.alive[..]
                && o.after[..n] == x.after[..]
                && o.alive[n..].iter().zip(&present[n..]).all(|(c, p)| *c == if *p { 0 } else { 3 });
            if same {
                st.model_matched += 1;
            } else {
                st.model_mismatch += 1;
                if st.mismatch_samples.len() < 3 {
                    st.mismatch_samples.push(json!({"case":d.id,"ty":d.ty,"observed":e,"reported":reported,
                        "expected":{"reads":x.reads,"writes":x.writes,"out":x.out,"pres":x.pres,"alive":x.alive,"after":x.after}}));
                }
            }
        }
        ev.push(e);
    }

    // ---- setup runs: every presence subset (small cases) or sampled ones, distinctive values
    let mut setups: Vec<(Vec<bool>, Option<Expect>)> = Vec::new();
    if !d.runs.is_empty() {
        for r in &d.runs {
            if r.held.iter().all(|h| *h == 0) && !setups.iter().any(|(p, _)| *p == r.present) {
                setups.push((r.present.clone(), r.exp.clone()));
            }
        }
    } else if d.nres <= 3 {
        for m in 0..(1u32 << d.nres) {
            setups.push(((0..d.nres).map(|i| m >> i & 1 == 1).collect(), None));
        }
    }
    for k in 0..d.extra {
        setups.push((random_presence(d.nres, rng, if d.runs.is_empty() && d.nres > 3 { k } else { 3 + k }), None));
    }
    for (k, (present, exp)) in setups.iter().enumerate() {
        let via = if exp.is_some() { (k + d.id as usize) % 4 } else { rng.gen_range(0..4) };
        let w0: Vec<u32> = present.iter().map(|p| if *p { rng.gen_range(1..DEFAULT_BASE) } else { 0 }).collect();
        // in a share of the runs a guard of one present resource was leaked beforehand
        let mut leaked = vec![0u8; d.nres];
        if exp.is_none() && rng.gen_bool(0.3) {
            let cand: Vec<usize> = (0..d.nres).filter(|i| present[*i]).collect();
            if let Some(i) = cand.choose(rng) {
                leaked[*i] = rng.gen_range(1..=2);
                st.setup_leaked += 1;
            }
        }
        let o = do_setup(ops, &slots, &w0, &leaked, via);
        st.setup_runs += 1;
        if o.out != "ok" {
            st.setup_panics += 1;
        }
        let e = json!({"ev":"setup","via":SETUP_VIA[via],"w0":w0,"leaked":leaked,"out":o.out,"created":o.created,"calls":o.calls,"w1":o.w1});
        if let Some(x) = exp {
            st.model_runs += 1;
            let n = x.w1.len();
            let same = o.out == "ok"
                && o.created == x.created
                && o.calls == x.calls
                && (0..n).all(|i| (o.w1[i] != 0) == x.w1[i] && (w0[i] == 0 || o.w1[i] == w0[i]) && (w0[i] != 0 || o.w1[i] == 0 || o.w1[i] == dflt[i]))
                && (n..d.nres).all(|i| o.w1[i] == w0[i]);
            if same {
                st.model_matched += 1;
            } else {
                st.model_mismatch += 1;
                if st.mismatch_samples.len() < 3 {
                    st.mismatch_samples.push(json!({"case":d.id,"ty":d.ty,"observed":e,"expected":{"created":x.created,"calls":x.calls,"w1":x.w1}}));
                }
            }
        }
        ev.push(e);
    }
    // ---- World::exec: setup followed by a fetch on the same world
    for k in 0..2usize.min(d.extra) {
        let present = random_presence(d.nres, rng, if k == 0 { 1 } else { 3 });
        let w0: Vec<u32> = present.iter().map(|p| if *p { rng.gen_range(1..DEFAULT_BASE) } else { 0 }).collect();
        let mut w = mk_world(&slots, &w0);
        take_default_log();
        take_handler_log();
        let r = catch_unwind(AssertUnwindSafe(|| (ops.exec)(&mut w)));
        let created = abstract_of_default_types(&slots, &take_default_log());
        let calls = abstract_of_default_types(&slots, &take_handler_log());
        let after = classify(&w, &ids);
        let w1 = snapshot(&slots, &w);
        let (out, pres) = match r {
            Ok(()) => ("ok", 0),
            Err(p) => classify_panic(&slots, &panic_text(p)),
        };
        st.exec_runs += 1;
        ev.push(json!({"ev":"exec","w0":w0,"out":out,"pres":pres,"created":created,"calls":calls,"after":after,"w1":w1}));
    }
    st.cases += 1;
    st.events += ev.len() - n0;
}

/// One event per line; `reset` lines start with `{"ev":"reset"` (block splitting looks at the line start).
pub fn write_zoo_events<W: std::io::Write>(w: &mut W, evs: &[Value]) {
    for e in evs {
        if e["ev"] == "reset" {
            let mut m = e.as_object().cloned().unwrap_or_default();
            m.remove("ev");
            let rest = serde_json::to_string(&Value::Object(m)).unwrap();
            w.write_all(b"{\"ev\":\"reset\",").unwrap();
            w.write_all(rest[1..].as_bytes()).unwrap();
        } else {
            serde_json::to_writer(&mut *w, e).unwrap();
        }
        w.write_all(b"\n").unwrap();
    }
}
