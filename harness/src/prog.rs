//! Abstract registration programs: what the TLA+ planner model calls a
//! registration sequence, plus what is needed to instantiate it on the real
//! `DispatcherBuilder` (names, concrete resource mapping, list orders).

use rand::{rngs::StdRng, seq::SliceRandom, Rng};
use serde::{Deserialize, Serialize};

/// Abstract resource id (1..). 101/102 are the two resources a batch
/// controller can declare statically.
pub type Res = u32;
pub const CTL_A: Res = 101;
pub const CTL_B: Res = 102;

#[derive(Clone, Debug, Serialize, Deserialize, Default)]
pub struct Prog {
    pub ops: Vec<Op>,
}

#[derive(Clone, Debug, Serialize, Deserialize)]
#[serde(tag = "op", rename_all = "lowercase")]
pub enum Op {
    Add {
        r: Vec<Res>,
        w: Vec<Res>,
        deps: Vec<String>,
        t: u8,
        name: String,
    },
    Barrier,
    /// an ordinary system whose SystemData is a STATIC type of the library (Read / Write / Option / Expect / tuple /
    /// derived struct over the two controller resources): see `stat_access`
    Stat {
        kind: u8,
        deps: Vec<String>,
        t: u8,
        name: String,
    },
    Tl {
        r: Vec<Res>,
        w: Vec<Res>,
    },
    /// a whole dispatcher registered as a thread-local system (impl RunNow for Dispatcher)
    Nest {
        inner: Prog,
    },
    Batch {
        /// 0: `()`, 1: Read<CtlA>, 2: Write<CtlA>, 3: (Read<CtlA>, Write<CtlB>)
        ctl: u8,
        /// number of inner dispatches per run
        n: usize,
        /// use MultiDispatcher instead of a hand-written controller
        multi: bool,
        inner: Prog,
        deps: Vec<String>,
        t: u8,
        name: String,
    },
}

/// Declared access of the static system-data kinds (1: Read<A>, 2: Write<A>, 3: (Read<A>, Write<B>), 4: Option<Read<A>>,
/// 5: Option<Write<B>>, 6: (ReadExpect<A>, Option<Write<B>>), 7: WriteExpect<B>, 8: derived struct {Read<A>, Write<B>}).
pub fn stat_access(kind: u8) -> (Vec<Res>, Vec<Res>) {
    match kind {
        1 | 4 => (vec![CTL_A], vec![]),
        2 => (vec![], vec![CTL_A]),
        5 | 7 => (vec![], vec![CTL_B]),
        _ => (vec![CTL_A], vec![CTL_B]),
    }
}

pub fn ctl_access(ctl: u8) -> (Vec<Res>, Vec<Res>) {
    match ctl {
        0 => (vec![], vec![]),
        1 => (vec![CTL_A], vec![]),
        2 => (vec![], vec![CTL_A]),
        _ => (vec![CTL_A], vec![CTL_B]),
    }
}

impl Prog {
    /// every name used in a dependency list or more than once, in this builder or nested ones
    pub fn sensitive_names(&self, out: &mut std::collections::BTreeSet<String>) {
        let mut seen = std::collections::BTreeSet::new();
        for o in &self.ops {
            match o {
                Op::Add { deps, name, .. } | Op::Stat { deps, name, .. } => {
                    out.extend(deps.iter().cloned());
                    if !seen.insert(name.clone()) {
                        out.insert(name.clone());
                    }
                }
                Op::Batch { deps, name, inner, .. } => {
                    out.extend(deps.iter().cloned());
                    if !seen.insert(name.clone()) {
                        out.insert(name.clone());
                    }
                    inner.sensitive_names(out);
                }
                Op::Nest { inner } => inner.sensitive_names(out),
                _ => {}
            }
        }
    }

    pub fn count_systems(&self) -> usize {
        self.ops
            .iter()
            .map(|o| match o {
                Op::Add { .. } | Op::Tl { .. } | Op::Stat { .. } => 1,
                Op::Batch { inner, .. } | Op::Nest { inner } => 1 + inner.count_systems(),
                Op::Barrier => 0,
            })
            .sum()
    }
    pub fn depth(&self) -> usize {
        self.ops
            .iter()
            .map(|o| match o {
                Op::Batch { inner, .. } | Op::Nest { inner } => 1 + inner.depth(),
                _ => 0,
            })
            .max()
            .unwrap_or(0)
    }
    pub fn resources(&self, out: &mut Vec<Res>) {
        for o in &self.ops {
            match o {
                Op::Add { r, w, .. } | Op::Tl { r, w } => {
                    out.extend(r);
                    out.extend(w);
                }
                Op::Batch { ctl, inner, .. } => {
                    let (r, w) = ctl_access(*ctl);
                    out.extend(r);
                    out.extend(w);
                    inner.resources(out);
                }
                Op::Nest { inner } => inner.resources(out),
                Op::Stat { kind, .. } => {
                    let (r, w) = stat_access(*kind);
                    out.extend(r);
                    out.extend(w);
                }
                Op::Barrier => {}
            }
        }
        out.sort();
        out.dedup();
    }
}

/// Parameters of the random program generator.
#[derive(Clone, Debug)]
pub struct GenCfg {
    pub n_min: usize,
    pub n_max: usize,
    pub n_res: u32,
    pub p_read: f64,
    pub p_write: f64,
    pub p_dep: f64,
    pub max_deps: usize,
    pub p_dup_dep: f64,
    pub p_barrier: f64,
    pub p_tl: f64,
    pub p_batch: f64,
    pub max_depth: usize,
    pub p_unnamed: f64,
    pub p_weird_name: f64,
    pub p_ill: f64,
    pub times: Vec<u8>,
    pub inner_tl: bool,
    pub p_nest: f64,
    /// share of the ordinary systems that use a static system-data type
    pub p_stat: f64,
}

impl GenCfg {
    pub fn basic(n_min: usize, n_max: usize, n_res: u32) -> Self {
        GenCfg {
            n_min,
            n_max,
            n_res,
            p_read: 0.25,
            p_write: 0.15,
            p_dep: 0.3,
            max_deps: 3,
            p_dup_dep: 0.2,
            p_barrier: 0.08,
            p_tl: 0.0,
            p_batch: 0.0,
            max_depth: 0,
            p_unnamed: 0.15,
            p_weird_name: 0.2,
            p_ill: 0.0,
            times: vec![1, 2, 3, 4, 5],
            inner_tl: false,
            p_nest: 0.0,
            p_stat: 0.0,
        }
    }
}

const WEIRD: &[&str] = &[
    "physics step",
    "render-pass",
    "io/flush",
    "a b-c/d",
    "net sync",
    "ai-plan",
    "x/y",
    "näme",
    "UPPER case",
    "snake_case",
    "with.dot",
    "semi;colon",
    "back\\slash",
    "the \"fast\" solver",
    "tab\there",
    "q'uote",
    "𝄞 clef €",
    "unnamed_system_1",
    "a-very-long-name/0123456789 0123456789 0123456789 0123456789 0123456789 0123456789 0123456789 0123456789 0123456789 0123456789 0123456789 0123456789 0123456789 0123456789 0123456789 0123456789 0123456789 0123456789 0123456789 0123456789 0123456789 0123456789 0123456789 end",
];

/// A different name that becomes equal to `name` once ' ', '-', '/' are replaced by '_'
/// (what the plan printer does) - the builder must keep such names apart.
pub fn sanitise_twin(rng: &mut StdRng, name: &str) -> Option<String> {
    const CS: [char; 4] = [' ', '-', '/', '_'];
    let idx: Vec<usize> = name.char_indices().filter(|(_, c)| CS.contains(c)).map(|(i, _)| i).collect();
    if idx.is_empty() {
        return None;
    }
    let mut out: Vec<char> = name.chars().collect();
    let pos: Vec<usize> = name.chars().enumerate().filter(|(_, c)| CS.contains(c)).map(|(i, _)| i).collect();
    let k = *pos.choose(rng)?;
    let others: Vec<char> = CS.iter().copied().filter(|c| *c != out[k]).collect();
    out[k] = *others.choose(rng)?;
    Some(out.into_iter().collect())
}

/// Degenerate but well-formed call sequences: nothing at all, only barriers, only thread-local systems,
/// batches over such builders, (twice) the same unnamed controller type.
/// `inner_tl`: thread-local systems also on builders that are handed to add_batch (the scenario of known finding
/// KF1 - only where that finding is handled).
pub fn gen_degenerate(rng: &mut StdRng, inner_tl: bool) -> Prog {
    let tiny_of = |rng: &mut StdRng, tl_ok: bool| -> Vec<Op> {
        match rng.gen_range(0..if tl_ok { 4 } else { 2 }) {
            0 => vec![],
            1 => (0..rng.gen_range(1..=3)).map(|_| Op::Barrier).collect(),
            2 => (0..rng.gen_range(1..=3)).map(|i| Op::Tl { r: vec![i + 1], w: vec![] }).collect(),
            _ => vec![Op::Barrier, Op::Tl { r: vec![], w: vec![1] }, Op::Barrier],
        }
    };
    let mut ops = tiny_of(rng, true);
    for _ in 0..rng.gen_range(0..=2) {
        let ctl = rng.gen_range(0..4);
        ops.push(Op::Batch { ctl, n: rng.gen_range(0..=2), multi: rng.gen_bool(0.4), inner: Prog { ops: tiny_of(rng, inner_tl) }, deps: vec![], t: 3, name: String::new() });
        if rng.gen_bool(0.5) {
            // a second unnamed batch with the same controller type
            ops.push(Op::Batch { ctl, n: 1, multi: false, inner: Prog { ops: tiny_of(rng, inner_tl) }, deps: vec![], t: 3, name: String::new() });
        }
    }
    if rng.gen_bool(0.3) {
        ops.extend(tiny_of(rng, true));
    }
    Prog { ops }
}

/// Many systems funnelled into single groups: heavy anchor groups (so that appending keeps
/// "improving the balance") and long runs of short writers of one resource.
pub fn gen_funnel(rng: &mut StdRng) -> Prog {
    let mut ops = Vec::new();
    let mut k = 0usize;
    let mut next_res: Res = 1;
    let rounds = rng.gen_range(1..=3);
    for _ in 0..rounds {
        let anchors = rng.gen_range(1..=3);
        let mut blocks: Vec<Vec<Op>> = Vec::new();
        for _ in 0..anchors {
            let r = next_res;
            next_res += 1;
            let n = rng.gen_range(1..=4);
            let mut b = Vec::new();
            for i in 0..n {
                let t = if i == 0 { *[1u8, 2, 5].choose(rng).unwrap() } else { *[3u8, 4, 5].choose(rng).unwrap() };
                b.push(Op::Add { r: vec![], w: vec![r], deps: vec![], t, name: if rng.gen_bool(0.2) { String::new() } else { format!("a{}", k) } });
                k += 1;
            }
            blocks.push(b);
        }
        // interleave the anchor blocks keeping each block's own order
        let mut merged: Vec<Op> = Vec::new();
        while blocks.iter().any(|b| !b.is_empty()) {
            let nonempty: Vec<usize> = (0..blocks.len()).filter(|i| !blocks[*i].is_empty()).collect();
            let i = *nonempty.choose(rng).unwrap();
            merged.push(blocks[i].remove(0));
        }
        ops.extend(merged);
        let r = next_res;
        next_res += 1;
        let m = rng.gen_range(4..=12);
        // half of the rounds: the members also touch a second resource that nobody else uses, so that inside the
        // group members conflict with members that are NOT their neighbours (a reader of r2 two places behind its
        // writer, readers of r in between): the order inside a group is total, not neighbour-wise
        let r2 = if rng.gen_bool(0.5) {
            next_res += 1;
            Some(next_res - 1)
        } else {
            None
        };
        for i in 0..m {
            let t = *[1u8, 1, 1, 2].choose(rng).unwrap();
            let (mut rr, mut ww) = if i == 0 || rng.gen_bool(if r2.is_some() { 0.5 } else { 0.85 }) { (vec![], vec![r]) } else { (vec![r], vec![]) };
            if let Some(r2) = r2 {
                if rng.gen_bool(0.45) {
                    if rng.gen_bool(0.4) {
                        ww.push(r2);
                    } else {
                        rr.push(r2);
                    }
                }
            }
            ops.push(Op::Add { r: rr, w: ww, deps: vec![], t, name: if rng.gen_bool(0.2) { String::new() } else { format!("f{}", k) } });
            k += 1;
        }
        // a group whose members conflict with members that are NOT their neighbours: one writer of r, then readers of r of
        // which the first and the third also share r2 (write/read, write/write or read/write) while the one in between
        // does not touch r2 - behind a heavy anchor, so that the planner queues all four in one group
        if rng.gen_bool(0.5) {
            let (ra, r, r2) = (next_res, next_res + 1, next_res + 2);
            next_res += 3;
            ops.push(Op::Add { r: vec![], w: vec![ra], deps: vec![], t: 5, name: format!("h{}", k) });
            ops.push(Op::Add { r: vec![], w: vec![r], deps: vec![], t: 1, name: format!("g{}", k + 1) });
            let (first_w, third_w) = *[(true, false), (true, true), (false, true)].choose(rng).unwrap();
            let with = |wr: bool| if wr { (vec![r], vec![r2]) } else { (vec![r, r2], vec![]) };
            let (r1, w1) = with(first_w);
            ops.push(Op::Add { r: r1, w: w1, deps: vec![], t: 1, name: format!("g{}", k + 2) });
            ops.push(Op::Add { r: vec![r], w: vec![], deps: vec![], t: 1, name: if rng.gen_bool(0.3) { String::new() } else { format!("g{}", k + 3) } });
            let (r3, w3) = with(third_w);
            ops.push(Op::Add { r: r3, w: w3, deps: vec![], t: 1, name: format!("g{}", k + 4) });
            k += 5;
        }
        // a dependency chain: resource-free short systems, each depending on the one before (now and then on an
        // earlier member too) - the planner queues them up in ONE group as long as that improves the balance, so the
        // group reaches its capacity through dependencies alone; the member after that must open a new STAGE
        if rng.gen_bool(0.6) {
            let len = rng.gen_range(3..=9);
            let mut prev: Vec<String> = Vec::new();
            for _ in 0..len {
                let name = format!("q{}", k);
                k += 1;
                let mut deps: Vec<String> = prev.last().cloned().into_iter().collect();
                if prev.len() > 1 && rng.gen_bool(0.2) {
                    deps.push(prev[rng.gen_range(0..prev.len() - 1)].clone());
                }
                let t = *[1u8, 1, 1, 2].choose(rng).unwrap();
                ops.push(Op::Add { r: vec![], w: vec![], deps, t, name: name.clone() });
                prev.push(name);
            }
        }
        // systems that depend on members of the (possibly full) groups and are otherwise compatible
        let named: Vec<String> = ops
            .iter()
            .filter_map(|o| match o {
                Op::Add { name, .. } if !name.is_empty() => Some(name.clone()),
                _ => None,
            })
            .collect();
        for _ in 0..rng.gen_range(0..=3) {
            if named.is_empty() {
                break;
            }
            let mut deps = vec![named.choose(rng).unwrap().clone()];
            if rng.gen_bool(0.3) {
                deps.push(named.choose(rng).unwrap().clone());
            }
            ops.push(Op::Add { r: vec![], w: vec![], deps, t: *[1u8, 3, 5].choose(rng).unwrap(), name: format!("d{}", k) });
            k += 1;
        }
        if rng.gen_bool(0.3) {
            ops.push(Op::Barrier);
        }
    }
    Prog { ops }
}

/// Very many stages: a chain of systems each closed by a barrier.
pub fn gen_chain(rng: &mut StdRng) -> Prog {
    let n = rng.gen_range(250..=330);
    let mut ops = Vec::new();
    for i in 0..n {
        ops.push(Op::Add { r: vec![], w: vec![], deps: vec![], t: 3, name: format!("c{}", i) });
        ops.push(Op::Barrier);
    }
    for i in 0..rng.gen_range(1..=4) {
        ops.push(Op::Add { r: vec![], w: vec![], deps: vec![], t: 3, name: format!("last{}", i) });
    }
    Prog { ops }
}

/// One very wide stage (more groups than any inline buffer or narrow index type holds: 6, 16, 255/256), then
/// systems that conflict with / depend on members of far-away groups.
pub fn gen_wide_stage(rng: &mut StdRng) -> Prog {
    let n = *[7usize, 17, 40, 130, 257, 262, 300].choose(rng).unwrap();
    let mut ops = Vec::new();
    // every member writes its own resource (301 + i) or nothing: no conflicts, one group each
    for i in 0..n {
        let own = rng.gen_bool(0.6);
        let t = *[1u8, 3, 3, 3, 5].choose(rng).unwrap();
        ops.push(Op::Add { r: vec![], w: if own { vec![301 + i as Res] } else { vec![] }, deps: vec![], t, name: format!("w{}", i) });
    }
    // late-comers: conflict with exactly one member (mostly one of the last groups), some with a dependency
    for k in 0..rng.gen_range(2..=8) {
        let i = if rng.gen_bool(0.7) { n - 1 - rng.gen_range(0..n.min(5)) } else { rng.gen_range(0..n) };
        let t = *[1u8, 1, 3, 5].choose(rng).unwrap();
        let (r, w) = if rng.gen_bool(0.5) { (vec![], vec![301 + i as Res]) } else { (vec![301 + i as Res], vec![]) };
        let deps = if rng.gen_bool(0.3) { vec![format!("w{}", rng.gen_range(0..n))] } else { vec![] };
        ops.push(Op::Add { r, w, deps, t, name: format!("late{}", k) });
    }
    Prog { ops }
}

/// `shaped`: a very short first member among average ones, the last member owns a resource (a short late-comer
/// that conflicts with the LAST group must not end up in the first one)
fn wide_stage_of(rng: &mut StdRng, n: usize, shaped: bool) -> Prog {
    let mut ops = Vec::new();
    for i in 0..n {
        let own = if shaped { i == n - 1 || (i > 0 && rng.gen_bool(0.3)) } else { rng.gen_bool(0.6) };
        let t = if shaped { if i == 0 { 1 } else { 3 } } else { *[1u8, 3, 3, 3, 5].choose(rng).unwrap() };
        ops.push(Op::Add { r: vec![], w: if own { vec![301 + i as Res] } else { vec![] }, deps: vec![], t, name: format!("w{}", i) });
    }
    if shaped {
        ops.push(Op::Add { r: vec![], w: vec![301 + (n - 1) as Res], deps: vec![], t: 1, name: "late-short".into() });
    }
    // late-comers conflict with exactly one owner each (the stage keeps exactly n groups)
    let owners: Vec<usize> = ops.iter().enumerate().filter(|(_, o)| matches!(o, Op::Add { w, .. } if !w.is_empty())).map(|(i, _)| i).collect();
    for k in 0..rng.gen_range(2..=6) {
        if owners.is_empty() {
            break;
        }
        let i = if rng.gen_bool(0.7) { owners[owners.len() - 1 - rng.gen_range(0..owners.len().min(3))] } else { *owners.choose(rng).unwrap() };
        let t = *[1u8, 1, 3, 5].choose(rng).unwrap();
        let (r, w) = if rng.gen_bool(0.5) { (vec![], vec![301 + i as Res]) } else { (vec![301 + i as Res], vec![]) };
        ops.push(Op::Add { r, w, deps: vec![], t, name: format!("late{}", k) });
    }
    Prog { ops }
}

/// Programs at the boundaries of machine-word and narrow-integer sizes (64/65 and 255/256/257 groups,
/// thread-local systems, dependencies, resources).  `None` when `i` is past the last one.
pub fn gen_boundary(i: usize, rng: &mut StdRng) -> Option<Prog> {
    let plain = |name: String, deps: Vec<String>| Op::Add { r: vec![], w: vec![], deps, t: 3, name };
    Some(match i {
        0 => wide_stage_of(rng, 64, false),
        1 => wide_stage_of(rng, 65, true),
        2 => wide_stage_of(rng, 256, false),
        3 => wide_stage_of(rng, 257, true),
        4 => {
            // 65 .. 66 distinct resources, conflicts on the last ones
            let mut ops = vec![Op::Add { r: (401..=464).collect(), w: vec![], deps: vec![], t: 3, name: "all".into() }];
            for (k, x) in [465u32, 465, 466, 466, 464, 464].iter().enumerate() {
                ops.push(Op::Add { r: vec![], w: vec![*x], deps: vec![], t: *[1u8, 3, 5].choose(rng).unwrap(), name: format!("p{}", k) });
            }
            Prog { ops }
        }
        5 | 6 => {
            // exactly 256 / 257 thread-local systems next to a few ordinary ones
            let n = if i == 5 { 256 } else { 257 };
            let mut ops = vec![Op::Add { r: vec![], w: vec![1], deps: vec![], t: 3, name: "o1".into() }, Op::Add { r: vec![1], w: vec![2], deps: vec![], t: 3, name: "o2".into() }];
            for k in 0..n {
                ops.push(Op::Tl { r: if k % 50 == 0 { vec![2] } else { vec![] }, w: vec![] });
            }
            Prog { ops }
        }
        7 => {
            // more than 64 distinct dependencies (and the same again, repeated and shuffled)
            let mut ops: Vec<Op> = (0..66).map(|k| plain(format!("d{}", k), vec![])).collect();
            ops.push(plain("a".into(), vec!["d0".into(), "d1".into()]));
            let mut all: Vec<String> = (0..66).map(|k| format!("d{}", k)).collect();
            all.push("a".into());
            ops.push(plain("b".into(), all.clone()));
            all.shuffle(rng);
            all.push("d65".into());
            ops.push(plain("c".into(), all));
            Prog { ops }
        }
        8 => {
            // more than 1024 registrations on one builder (short stages: a barrier every few systems)
            let mut ops = Vec::new();
            for k in 0..1030 {
                let deps = if k > 0 && k % 9 == 0 { vec![format!("m{}", k - 1)] } else { vec![] };
                ops.push(Op::Add { r: vec![], w: if k % 3 == 0 { vec![1 + (k % 5) as Res] } else { vec![] }, deps, t: 3, name: format!("m{}", k) });
                if k % 6 == 5 {
                    ops.push(Op::Barrier);
                }
            }
            Prog { ops }
        }
        9 => wide_stage_of(rng, 257, false),
        10 => wide_stage_of(rng, 256, true),
        _ => return None,
    })
}

/// More distinct resources in one builder than a machine word has bits (65..140), each system touching few of
/// them: conflicts on the late resources only.
pub fn gen_many_res(rng: &mut StdRng) -> Prog {
    let nres = *[63u32, 64, 65, 66, 100, 127, 128, 129, 140, 200].choose(rng).unwrap();
    let mut ops = Vec::new();
    let mut k = 0;
    // first touch every resource once, in order (a reader of many, or one system each)
    if rng.gen_bool(0.5) {
        ops.push(Op::Add { r: (401..=400 + nres).collect(), w: vec![], deps: vec![], t: 3, name: "all".into() });
    } else {
        for i in 1..=nres {
            ops.push(Op::Add { r: vec![400 + i], w: vec![], deps: vec![], t: 3, name: format!("r{}", i) });
            if i % 7 == 0 && rng.gen_bool(0.3) {
                ops.push(Op::Barrier);
            }
        }
    }
    // then pairs that conflict only on one (mostly late) resource
    for _ in 0..rng.gen_range(3..=10) {
        // (sometimes a resource nobody has touched so far: its first user joins the crowded first stage)
        let x = if rng.gen_bool(0.35) {
            400 + nres + 1 + rng.gen_range(0..3)
        } else if rng.gen_bool(0.7) {
            400 + nres - rng.gen_range(0..nres.min(4))
        } else {
            400 + rng.gen_range(1..=nres)
        };
        for _ in 0..2 {
            let t = *[1u8, 3, 5].choose(rng).unwrap();
            let (r, w) = if rng.gen_bool(0.7) { (vec![], vec![x]) } else { (vec![x], vec![]) };
            ops.push(Op::Add { r, w, deps: vec![], t, name: format!("p{}", k) });
            k += 1;
        }
    }
    Prog { ops }
}

pub fn gen_prog(rng: &mut StdRng, cfg: &GenCfg, depth: usize, prefix: &str) -> Prog {
    let n = rng.gen_range(cfg.n_min..=cfg.n_max);
    let mut ops = Vec::new();
    let mut names: Vec<String> = Vec::new();
    let mut k = 0usize;
    // access density varies per program so that sparse and dense conflict graphs both occur
    let dens: f64 = *[0.3, 0.6, 1.0, 1.6].choose(rng).unwrap();
    let pick_acc = |rng: &mut StdRng| {
        let mut r = Vec::new();
        let mut w = Vec::new();
        for res in 1..=cfg.n_res {
            let x: f64 = rng.gen();
            if x < cfg.p_write * dens {
                w.push(res);
            } else if x < (cfg.p_write + cfg.p_read) * dens {
                r.push(res);
            }
        }
        if rng.gen_bool(0.02) {
            // a wide access set: more ids than the planner's inline buffers hold (12 reads / 10 writes)
            let nr = *[0usize, 11, 13, 17, 33, 40].choose(rng).unwrap();
            let nw = *[0usize, 0, 9, 11, 12, 21].choose(rng).unwrap();
            let mut pool: Vec<Res> = (201..=270).collect();
            pool.shuffle(rng);
            r.extend(pool[..nr].iter().copied());
            w.extend(pool[nr..nr + nw].iter().copied());
        }
        if rng.gen_bool(0.08) {
            let x = *[CTL_A, CTL_B].choose(rng).unwrap();
            if rng.gen_bool(0.5) {
                r.push(x)
            } else {
                w.push(x)
            }
        }
        (r, w)
    };
    while k < n {
        let x: f64 = rng.gen();
        if x < cfg.p_barrier {
            ops.push(Op::Barrier);
            if rng.gen_bool(0.15) {
                ops.push(Op::Barrier);
            }
            continue;
        }
        if depth == 0 && cfg.p_nest > 0.0 && rng.gen_bool(cfg.p_nest) {
            let mut icfg = cfg.clone();
            icfg.n_min = 1;
            icfg.n_max = 5;
            icfg.p_nest = 0.0;
            icfg.p_batch = 0.0;
            icfg.p_tl = 0.25;
            icfg.inner_tl = true;
            // depth 0 for the inner generator: it is a top-level dispatcher of its own (thread-local allowed)
            let inner = gen_prog(rng, &icfg, 0, &format!("{}n{}.", prefix, k));
            ops.push(Op::Nest { inner });
            k += 1;
            continue;
        }
        if x < cfg.p_barrier + cfg.p_tl && (depth == 0 || cfg.inner_tl) {
            let (r, w) = pick_acc(rng);
            ops.push(Op::Tl { r, w });
            k += 1;
            continue;
        }
        // name
        let twin = if !names.is_empty() && rng.gen_bool(0.08) {
            let base = names.choose(rng).unwrap().clone();
            sanitise_twin(rng, &base).filter(|t| !names.contains(t))
        } else {
            None
        };
        let name = if let Some(t) = twin {
            t
        } else if rng.gen_bool(cfg.p_unnamed) {
            String::new()
        } else if rng.gen_bool(0.04) {
            // blanks at either end belong to the name like any other character
            format!(" {}edge {} ", prefix, k)
        } else if rng.gen_bool(cfg.p_weird_name) {
            format!("{}{} {}", prefix, WEIRD.choose(rng).unwrap(), k)
        } else {
            format!("{}s{}", prefix, k)
        };
        // deps
        let mut deps: Vec<String> = Vec::new();
        if !names.is_empty() && rng.gen_bool(cfg.p_dep) {
            // (now and then more dependencies than the planner's inline buffer of 4 holds)
            let nd = if names.len() >= 6 && rng.gen_bool(0.08) { rng.gen_range(5..=8) } else { rng.gen_range(1..=cfg.max_deps) };
            for _ in 0..nd {
                if !deps.is_empty() && rng.gen_bool(cfg.p_dup_dep) {
                    let d = deps.choose(rng).unwrap().clone();
                    deps.push(d);
                } else {
                    deps.push(names.choose(rng).unwrap().clone());
                }
            }
        }
        let mut name = name;
        if cfg.p_ill > 0.0 && rng.gen_bool(cfg.p_ill) {
            if rng.gen_bool(0.5) || names.is_empty() {
                let pos = rng.gen_range(0..=deps.len());
                // an unregistered name; sometimes one that only differs from a registered
                // name in characters the plan printer sanitises
                let twin = names.choose(rng).cloned().and_then(|b| sanitise_twin(rng, &b)).filter(|t| !names.contains(t));
                match twin {
                    Some(t) if rng.gen_bool(0.5) => deps.insert(pos, t),
                    // the placeholder the plan printer shows for an unnamed system is not a name either
                    _ if rng.gen_bool(0.25) => deps.insert(pos, format!("unnamed_system_{}", rng.gen_range(0..=k + 1))),
                    _ => deps.insert(pos, format!("{}nosuch {}", prefix, k)),
                }
            } else {
                name = names.choose(rng).unwrap().clone();
            }
        }
        let t = *cfg.times.choose(rng).unwrap();
        if depth < cfg.max_depth && rng.gen_bool(cfg.p_batch) {
            let mut icfg = cfg.clone();
            icfg.n_min = 1;
            icfg.n_max = (cfg.n_max / 3).max(2).min(8);
            // (inner builders have their own name space: now and then the same names as outside)
            let iprefix = if rng.gen_bool(0.25) { prefix.to_string() } else { format!("{}b{}.", prefix, k) };
            let inner = gen_prog(rng, &icfg, depth + 1, &iprefix);
            ops.push(Op::Batch {
                ctl: rng.gen_range(0..4),
                n: *[0usize, 1, 1, 2, 3].choose(rng).unwrap(),
                multi: rng.gen_bool(0.3),
                inner,
                deps,
                t,
                name: name.clone(),
            });
        } else if cfg.p_stat > 0.0 && rng.gen_bool(cfg.p_stat) {
            // a system whose data is one of the library's static system-data types
            ops.push(Op::Stat { kind: rng.gen_range(1..=8), deps, t, name: name.clone() });
        } else {
            let (mut r, mut w) = pick_acc(rng);
            // next to a batch whose controller declares data of its own: outer systems touching exactly that data
            // (without any dependency on the batch) - the batch's access is the union INCLUDING the controller's
            let ctl_near = ops.iter().rev().take(3).any(|o| matches!(o, Op::Batch { ctl, .. } if *ctl != 0));
            if ctl_near && deps.is_empty() && rng.gen_bool(0.6) {
                r.retain(|x| *x != CTL_A && *x != CTL_B);
                w.retain(|x| *x != CTL_A && *x != CTL_B);
                let x = *[CTL_A, CTL_B].choose(rng).unwrap();
                if rng.gen_bool(0.5) {
                    r.push(x)
                } else {
                    w.push(x)
                }
            }
            ops.push(Op::Add {
                r,
                w,
                deps,
                t,
                name: name.clone(),
            });
        }
        if !name.is_empty() && !names.contains(&name) {
            names.push(name);
        }
        k += 1;
    }
    if rng.gen_bool(0.1) {
        ops.insert(0, Op::Barrier);
    }
    if rng.gen_bool(0.1) {
        ops.push(Op::Barrier);
    }
    Prog { ops }
}

/// How an abstract program is instantiated on the real API (C19: none of this
/// may influence the plan).
#[derive(Clone, Debug)]
pub struct Variant {
    /// abstract resource -> (slot type 0..3, dynamic id); CTL_A/CTL_B are fixed
    pub resmap: std::collections::BTreeMap<Res, (u8, u64)>,
    /// rename systems: name -> name' (injective, "" stays "")
    pub rename: bool,
    pub rename_salt: u32,
    /// shuffle / duplicate declared lists
    pub shuffle_lists: bool,
    pub dup_lists: bool,
    /// insert redundant barriers (leading, repeated)
    pub extra_barriers: bool,
    /// systems nobody depends on: registered under the empty name instead of their name and
    /// vice versa (the plan must not depend on whether / how a system is named)
    pub toggle_names: bool,
    pub seed: u64,
}

impl Variant {
    pub fn identity(resources: &[Res]) -> Self {
        let mut resmap = std::collections::BTreeMap::new();
        for (i, r) in resources.iter().enumerate() {
            if *r != CTL_A && *r != CTL_B {
                resmap.insert(*r, ((i % 4) as u8, (i / 4) as u64));
            }
        }
        Variant {
            resmap,
            rename: false,
            rename_salt: 0,
            shuffle_lists: false,
            dup_lists: false,
            extra_barriers: false,
            toggle_names: false,
            seed: 0,
        }
    }
    pub fn random(resources: &[Res], rng: &mut StdRng) -> Self {
        // injective random map into 4 slot types x dynamic ids
        let mut cells: Vec<(u8, u64)> = Vec::new();
        let span = (resources.len() as u64 / 2).max(3);
        for ty in 0..4u8 {
            for d in 0..span {
                // (ids that differ only in their high bits, or only above bit 8 / 16, and the extremes)
                const NASTY: [u64; 12] = [1 << 32, (1 << 32) | 1, (2 << 32) | 1, (1 << 16) | 1, (1 << 8) | 1, 256, 65536, u32::MAX as u64, u64::MAX, 1 << 63, (1 << 63) | 1, (3 << 32) | 1];
                cells.push((ty, if rng.gen_bool(0.3) { d * 1_000_003 + 7 } else if rng.gen_bool(0.25) { NASTY[(d as usize) % NASTY.len()] } else { d }));
            }
        }
        cells.sort();
        cells.dedup();
        cells.shuffle(rng);
        let mut resmap = std::collections::BTreeMap::new();
        let mut it = cells.into_iter();
        for r in resources {
            if *r != CTL_A && *r != CTL_B {
                resmap.insert(*r, it.next().expect("enough cells"));
            }
        }
        Variant {
            resmap,
            rename: rng.gen_bool(0.7),
            rename_salt: rng.gen(),
            shuffle_lists: true,
            dup_lists: rng.gen_bool(0.5),
            extra_barriers: rng.gen_bool(0.5),
            toggle_names: rng.gen_bool(0.5),
            seed: rng.gen(),
        }
    }
    /// Renaming may differ per builder (name spaces of different builders are unrelated).
    pub fn rename_in(&self, name: &str, builder: usize) -> String {
        let base = self.rename_of(name);
        if !self.rename || name.is_empty() || self.rename_salt % 2 == 0 {
            return base;
        }
        format!("{}@{}", base, builder)
    }

    pub fn rename_of(&self, name: &str) -> String {
        if !self.rename || name.is_empty() {
            return name.to_string();
        }
        // injective: reversible transformation with a salt-dependent prefix
        let style = self.rename_salt % 3;
        match style {
            0 => format!("zz{}-{}", self.rename_salt % 97, name),
            1 => format!("{} /r{}", name, self.rename_salt % 89),
            _ => name.chars().rev().collect::<String>() + "'",
        }
    }
}

/// One TLC terminal state -> program (names "n<k>", deps by name).
pub fn prog_of_state(st: &serde_json::Value) -> (Prog, Vec<Vec<Vec<u64>>>) {
    let regs = st["regs"].as_array().unwrap();
    let mut ops = Vec::new();
    let mut epoch = 0;
    for (i, r) in regs.iter().enumerate() {
        let e = r["e"].as_u64().unwrap();
        if e > epoch {
            ops.push(Op::Barrier);
            epoch = e;
        }
        let nm = r["nm"].as_u64().unwrap();
        let name = if nm == 0 { String::new() } else { format!("n{}", nm) };
        let _ = i;
        let deps: Vec<String> = r["d"]
            .as_array()
            .unwrap()
            .iter()
            .map(|d| {
                // d is a system id; its name token is regs[d].nm
                let id = d.as_u64().unwrap() as usize;
                format!("n{}", regs[id - 1]["nm"].as_u64().unwrap())
            })
            .collect();
        let v = |k: &str| -> Vec<u32> { r[k].as_array().unwrap().iter().map(|x| x.as_u64().unwrap() as u32).collect() };
        ops.push(Op::Add {
            r: v("r"),
            w: v("w"),
            deps,
            t: r["t"].as_u64().unwrap() as u8,
            name,
        });
    }
    if st["epoch"].as_u64().unwrap() > epoch {
        ops.push(Op::Barrier);
    }
    let ids: Vec<Vec<Vec<u64>>> = serde_json::from_value(st["ids"].clone()).unwrap();
    (Prog { ops }, ids)
}

