//! Conformance harness binding the TLA+ specification of shred (../spec) to
//! the real library (path dependency on /repo, rebuilt from its working tree).
pub mod build;
pub mod execx;
#[cfg(feature = "x-meta")]
pub mod metax;
#[cfg(feature = "x-parseq")]
pub mod parseqx;
#[cfg(feature = "x-world")]
pub mod worldx;
#[cfg(feature = "x-zoo")]
pub mod zoo;
pub mod prog;
pub mod record;
#[cfg(feature = "parallel")]
pub mod rvx;
pub mod sys;
pub mod unwind;

static LAST_PANIC: std::sync::Mutex<String> = std::sync::Mutex::new(String::new());

/// No panic messages on stderr (panics of the code under test are data and there are thousands of them); the
/// place and message of the LAST panic are remembered for `run_main`.
pub fn quiet_panics() {
    std::panic::set_hook(Box::new(|info| {
        let loc = info.location().map(|l| format!("{}:{}", l.file(), l.line())).unwrap_or_default();
        let msg = if let Some(s) = info.payload().downcast_ref::<&str>() {
            s.to_string()
        } else if let Some(s) = info.payload().downcast_ref::<String>() {
            s.clone()
        } else {
            "(non-string payload)".to_string()
        };
        if let Ok(mut g) = LAST_PANIC.try_lock() {
            *g = format!("{} {}", loc, msg.replace('\n', " "));
        }
    }));
}

/// Runs a harness binary's main; a panic that escapes it is reported on stdout as
/// `HARNESS-PANIC <file:line> <message>` (exit code 101): the caller decides from the place whether the code
/// under test or the harness panicked where nobody expected it.
pub fn run_main(f: impl FnOnce()) {
    let r = std::panic::catch_unwind(std::panic::AssertUnwindSafe(f));
    if r.is_err() {
        let last = LAST_PANIC.lock().map(|g| g.clone()).unwrap_or_default();
        println!("HARNESS-PANIC {}", last);
        std::process::exit(101);
    }
}

/// Minimal `--key value` argument parser.
pub struct Args(pub Vec<String>);
impl Args {
    pub fn from_env() -> Self {
        Args(std::env::args().skip(1).collect())
    }
    pub fn get(&self, key: &str) -> Option<&str> {
        let k = format!("--{}", key);
        self.0.iter().position(|a| *a == k).and_then(|i| self.0.get(i + 1)).map(|s| s.as_str())
    }
    pub fn num<T: std::str::FromStr>(&self, key: &str, default: T) -> T {
        self.get(key).and_then(|s| s.parse().ok()).unwrap_or(default)
    }
    pub fn flag(&self, key: &str) -> bool {
        let k = format!("--{}", key);
        self.0.iter().any(|a| *a == k)
    }
    pub fn cmd(&self) -> &str {
        self.0.first().map(|s| s.as_str()).unwrap_or("")
    }
}

static PROGRESS: std::sync::atomic::AtomicU64 = std::sync::atomic::AtomicU64::new(0);

/// Called at every logged event (and by drivers between programs): the harness is alive.
pub fn progress() {
    PROGRESS.fetch_add(1, std::sync::atomic::Ordering::Relaxed);
}

/// A dispatch that never returns (a dead-locked pool, a lost wake-up) must not hang the check for an hour:
/// when nothing at all has been logged for `secs` seconds the process reports `HARNESS-HANG` and exits with 102.
pub fn hang_watchdog(secs: u64) {
    std::thread::spawn(move || {
        let mut last = PROGRESS.load(std::sync::atomic::Ordering::Relaxed);
        let mut quiet = 0u64;
        loop {
            std::thread::sleep(std::time::Duration::from_secs(5));
            let now = PROGRESS.load(std::sync::atomic::Ordering::Relaxed);
            if now != last {
                last = now;
                quiet = 0;
            } else {
                quiet += 5;
                if quiet >= secs {
                    println!("HARNESS-HANG no event for {} s (events so far: {})", quiet, now);
                    std::process::exit(102);
                }
            }
        }
    });
}
