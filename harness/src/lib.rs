//! Conformance harness binding the TLA+ specification of shred (../spec) to
//! the real library (path dependency on /repo, rebuilt from its working tree).
pub mod build;
pub mod execx;
#[cfg(feature = "x-meta")]
pub mod metax;
#[cfg(feature = "x-parseq")]
pub mod parseqx;
#[cfg(feature = "x-world")]
pub mod worldx;
#[cfg(feature = "x-zoo")]
pub mod zoo;
pub mod prog;
pub mod record;
#[cfg(feature = "parallel")]
pub mod rvx;
pub mod sys;
pub mod unwind;

pub fn quiet_panics() {
    std::panic::set_hook(Box::new(|_| {}));
}

/// Minimal `--key value` argument parser.
pub struct Args(pub Vec<String>);
impl Args {
    pub fn from_env() -> Self {
        Args(std::env::args().skip(1).collect())
    }
    pub fn get(&self, key: &str) -> Option<&str> {
        let k = format!("--{}", key);
        self.0.iter().position(|a| *a == k).and_then(|i| self.0.get(i + 1)).map(|s| s.as_str())
    }
    pub fn num<T: std::str::FromStr>(&self, key: &str, default: T) -> T {
        self.get(key).and_then(|s| s.parse().ok()).unwrap_or(default)
    }
    pub fn flag(&self, key: &str) -> bool {
        let k = format!("--{}", key);
        self.0.iter().any(|a| *a == k)
    }
    pub fn cmd(&self) -> &str {
        self.0.first().map(|s| s.as_str()).unwrap_or("")
    }
}
