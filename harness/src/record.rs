//! Recording of complete registration traces (reset .. built).

use std::io::Write;

use serde_json::{json, Value};
use shred::Dispatcher;

use crate::{
    build::Recorder,
    prog::{Prog, Variant},
};

pub struct Recorded {
    pub rec: Recorder,
    pub dispatcher: Option<Dispatcher<'static, 'static>>,
    pub top: usize,
}

/// reset, registration events, final print, build, `built` event.
pub fn record_registration(prog: &Prog, variant: Variant, prog_no: usize, var_no: usize, print_every: bool) -> Recorded {
    #[cfg(feature = "parallel")]
    return record_registration_pool(
        prog,
        variant,
        prog_no,
        var_no,
        print_every,
        // plans do not depend on the pool: a one-worker pool now and then
        if early_pool() && prog_no % 2 == 0 { one_pool() } else { shared_pool() },
    );
    #[cfg(not(feature = "parallel"))]
    return record_registration_pool(prog, variant, prog_no, var_no, print_every, ());
}

#[cfg(feature = "parallel")]
pub type PoolArg = std::sync::Arc<rayon::ThreadPool>;
#[cfg(not(feature = "parallel"))]
pub type PoolArg = ();

pub fn record_registration_pool(
    prog: &Prog,
    variant: Variant,
    prog_no: usize,
    var_no: usize,
    print_every: bool,
    pool: PoolArg,
) -> Recorded {
    crate::unwind::ctx(move || record_registration_body(prog, variant, prog_no, var_no, print_every, pool))
}

fn record_registration_body(
    prog: &Prog,
    variant: Variant,
    prog_no: usize,
    var_no: usize,
    print_every: bool,
    pool: PoolArg,
) -> Recorded {
    let mut rec = Recorder::new(variant, print_every);
    let nopool = no_pool();
    let early = early_pool() && !nopool;
    rec.events.push(json!({"ev":"reset","prog":prog_no,"var":var_no,"unwinding":crate::unwind::active(),"earlypool":early}));
    #[cfg(feature = "parallel")]
    if early {
        rec.early_pool = Some(pool.clone());
    }
    let (b, top) = rec.build(prog);
    rec.print(top, &b);
    let blay = b.verif_layout();
    #[cfg(feature = "parallel")]
    if build_async() {
        // `build_async` is a build too: same plan, no panic (the dispatcher is not run here)
        let pool2 = pool.clone();
        let r = std::panic::catch_unwind(std::panic::AssertUnwindSafe(move || {
            let b = if early || nopool { b } else { b.with_pool(pool2) };
            b.build_async(shred::World::empty())
        }));
        match r {
            Ok(mut ad) => {
                let dl = ad.verif_layout();
                let (lay, tl) = rec.layout_gids(&dl);
                rec.events.push(json!({"ev":"built","b":top,"out":"ok","lay":lay,"tl":tl,"maxthreads":0,"parallel":false,
                    "same": dl == blay, "async": true}));
            }
            Err(_) => rec.events.push(json!({"ev":"built","b":top,"out":"other","lay":[],"tl":[],"maxthreads":0,
                "parallel":false,"same":false,"async":true})),
        }
        return Recorded { rec, dispatcher: None, top };
    }
    // (attaching the pool is a builder call like any other: a panic in it is data, not a harness crash)
    let d = std::panic::catch_unwind(std::panic::AssertUnwindSafe(move || {
        #[cfg(feature = "parallel")]
        let b = if early || nopool { b } else { b.with_pool(pool) };
        #[cfg(not(feature = "parallel"))]
        let _ = (pool, early, nopool);
        b.build()
    }));
    match d {
        Ok(d) => {
            let dl = d.verif_layout();
            let (lay, tl) = rec.layout_gids(&dl);
            #[cfg(feature = "parallel")]
            let mt = d.max_threads();
            #[cfg(not(feature = "parallel"))]
            let mt = 0usize;
            rec.events.push(json!({"ev":"built","b":top,"out":"ok","lay":lay,"tl":tl,
                "maxthreads":mt,"parallel":cfg!(feature = "parallel"),"same": dl == blay}));
            Recorded { rec, dispatcher: Some(d), top }
        }
        Err(_) => {
            rec.events.push(json!({"ev":"built","b":top,"out":"other","lay":[],"tl":[],"maxthreads":0,
                "parallel":cfg!(feature = "parallel"),"same":false}));
            Recorded { rec, dispatcher: None, top }
        }
    }
}

/// One small pool shared by all dispatchers that are only built, not run
/// (the default would create a 16-thread pool per build).
thread_local! {
    static EARLY_POOL: std::cell::Cell<bool> = std::cell::Cell::new(false);
    static NO_POOL: std::cell::Cell<bool> = std::cell::Cell::new(false);
}

thread_local! {
    static BUILD_ASYNC: std::cell::Cell<bool> = std::cell::Cell::new(false);
}

/// The following programs of this thread are built with `build_async` (and not run).
pub fn set_build_async(on: bool) {
    BUILD_ASYNC.with(|a| a.set(on));
}

pub fn build_async() -> bool {
    BUILD_ASYNC.with(|a| a.get())
}

/// The following programs of this thread get no pool from the harness: `build` creates the default one.
pub fn set_no_pool(on: bool) {
    NO_POOL.with(|a| a.set(on));
}

pub fn no_pool() -> bool {
    NO_POOL.with(|a| a.get())
}

/// The following programs of this thread get their pool before anything is registered (instead of just before `build`).
pub fn set_early_pool(on: bool) {
    EARLY_POOL.with(|a| a.set(on));
}

pub fn early_pool() -> bool {
    EARLY_POOL.with(|a| a.get())
}

#[cfg(feature = "parallel")]
pub fn one_pool() -> std::sync::Arc<rayon::ThreadPool> {
    static POOL: std::sync::OnceLock<std::sync::Arc<rayon::ThreadPool>> = std::sync::OnceLock::new();
    POOL.get_or_init(|| std::sync::Arc::new(rayon::ThreadPoolBuilder::new().num_threads(1).build().unwrap()))
        .clone()
}

#[cfg(feature = "parallel")]
pub fn shared_pool() -> std::sync::Arc<rayon::ThreadPool> {
    static POOL: std::sync::OnceLock<std::sync::Arc<rayon::ThreadPool>> = std::sync::OnceLock::new();
    POOL.get_or_init(|| std::sync::Arc::new(rayon::ThreadPoolBuilder::new().num_threads(2).build().unwrap()))
        .clone()
}

pub fn write_events<W: Write>(w: &mut W, evs: &[Value]) {
    for e in evs {
        serde_json::to_writer(&mut *w, e).unwrap();
        w.write_all(b"\n").unwrap();
    }
}
