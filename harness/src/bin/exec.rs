//! exec random ... : random programs -> registration + gated / free-running real
//!                   dispatches -> ndjson trace for ShredTrace.tla
use std::{fs::File, io::{BufWriter, Write}, sync::Arc};

use rand::{rngs::StdRng, seq::SliceRandom, Rng, SeedableRng};
use serde_json::json;
use shred::DispatcherBuilder;
use shredh::{
    execx::{run_dispatch, setup_world, ExecOpts, Mode},
    prog::{gen_prog, GenCfg, Variant},
    record::{record_registration_pool, write_events},
    Args,
};

fn main() {
    shredh::run_main(real_main)
}

fn real_main() {
    shredh::quiet_panics();
    let a = Args::from_env();
    // (rendezvous runs have their own, per-attempt watchdog and long deliberate waits)
    if a.cmd() != "rendezvous" {
        shredh::hang_watchdog(a.num("hang-secs", 240));
    }
    match a.cmd() {
        "random" => random(&a),
        "prog" => progs(&a),
        "schedule" => schedule_cmd(&a),
        "lifecycle" => lifecycle_cmd(&a),
        #[cfg(feature = "parallel")]
        "async" => async_cmd(&a),
        #[cfg(feature = "parallel")]
        "rendezvous" => rendezvous_cmd(&a),
        #[cfg(feature = "parallel")]
        "pools" => pools_cmd(&a),
        _ => {
            eprintln!("usage: exec random ...");
            std::process::exit(2)
        }
    }
}

#[cfg(feature = "parallel")]
fn pool(n: usize) -> Arc<rayon::ThreadPool> {
    Arc::new(rayon::ThreadPoolBuilder::new().num_threads(n).build().unwrap())
}

fn random(a: &Args) {
    let seed: u64 = a.num("seed", 1);
    let count: usize = a.num("count", 20);
    let dispatches: usize = a.num("dispatches", 3);
    let out = a.get("out").expect("--out");
    let gated_share: f64 = a.num("gated", 0.7);
    let quiet_us: u64 = a.num("quiet-us", 300);
    let npanic: f64 = a.num("ppanic", 0.0);
    let modes_arg = a.get("modes").unwrap_or("disp,par,seq,disp");
    let modes: Vec<Mode> = modes_arg
        .split(',')
        .map(|m| match m {
            "par" => Mode::Par,
            "seq" => Mode::Seq,
            "tlonly" => Mode::TlOnly,
            _ => Mode::Disp,
        })
        .collect();
    let mut w = BufWriter::new(File::create(out).unwrap());
    let mut rng = StdRng::seed_from_u64(seed);
    let mut base = GenCfg::basic(a.num("nmin", 4), a.num("nmax", 30), a.num("nres", 8));
    base.p_tl = a.num("ptl", 0.05);
    base.p_batch = a.num("pbatch", 0.08);
    base.max_depth = a.num("depth", 2);
    base.p_barrier = a.num("pbarrier", 0.08);
    base.p_dep = a.num("pdep", 0.3);
    base.inner_tl = a.flag("innertl");
    base.p_nest = a.num("pnest", 0.0);
    base.p_unnamed = 0.1;
    base.p_stat = a.num("pstat", 0.06);
    let big_pool: usize = a.num("pool", 24);
    #[cfg(feature = "parallel")]
    let gate_pool = pool(big_pool);
    #[cfg(feature = "parallel")]
    let small_pools: Vec<Arc<rayon::ThreadPool>> = [1usize, 2, 3, 4, 6, 8, 12, 16].iter().map(|n| pool(*n)).collect();
    let (mut nsys, mut nev, mut ndisp, mut max_held, mut releases, mut stalls, mut npan) = (0, 0, 0, 0, 0, 0, 0);
    let mut samples = Vec::new();
    let mut prev: Option<(shredh::record::Recorded, shred::World)> = None;
    let mut nz = 0usize;
    #[allow(unused_mut)]
    let mut ndriven = 0usize;
    // --boundary: the programs of prog::gen_boundary after the random ones
    let nb = if a.flag("boundary") { (0..).take_while(|i| shredh::prog::gen_boundary(*i, &mut StdRng::seed_from_u64(0)).is_some()).count() } else { 0 };
    for k in 0..count + nb {
        shredh::progress();
        shredh::unwind::set(rng.gen_bool(a.num("punwind", 0.08)));
        shredh::record::set_early_pool(rng.gen_bool(0.3));
        shredh::build::set_nohook(if rng.gen_bool(0.5) { 0.25 } else { 0.0 });
        shredh::build::set_zst(if rng.gen_bool(0.25) { 0.5 } else { 0.0 });
        shredh::build::set_noise(if rng.gen_bool(0.2) { 0.06 } else { 0.0 });
        let mut cfg = base.clone();
        cfg.n_res = rng.gen_range(2..=base.n_res.max(2));
        // now and then a funnel program: groups filled to the capacity limit
        let special = rng.gen_range(0..100);
        let prog = if k >= count {
            shredh::prog::gen_boundary(k - count, &mut rng).unwrap()
        } else if special < 3 {
            shredh::prog::gen_many_res(&mut rng)
        } else if special < 5 {
            shredh::prog::gen_wide_stage(&mut rng)
        } else if rng.gen_bool(a.num("pfunnel", 0.12)) {
            shredh::prog::gen_funnel(&mut rng)
        } else {
            gen_prog(&mut rng, &cfg, 0, "")
        };
        let mut res = Vec::new();
        prog.resources(&mut res);
        let variant = if rng.gen_bool(0.5) { Variant::identity(&res) } else { Variant::random(&res, &mut rng) };
        let gated = rng.gen_bool(gated_share);
        #[cfg(feature = "parallel")]
        let p = if rng.gen_bool(a.num("pool1", 0.08)) {
            small_pools[0].clone() // exactly one worker
        } else if gated {
            gate_pool.clone()
        } else {
            small_pools.choose(&mut rng).unwrap().clone()
        };
        #[cfg(not(feature = "parallel"))]
        let p = ();
        #[cfg(feature = "parallel")]
        let own_pool = p.clone();
        let mut r = record_registration_pool(&prog, variant, k + 1, 0, false, p);
        if r.dispatcher.is_none() {
            write_events(&mut w, &r.rec.events);
            continue;
        }
        let world = setup_world(&mut r, false);
        let all_gids: Vec<usize> = r.rec.sys.iter().filter(|s| s.addr != 0).map(|s| s.gid).collect();
        // systems that are followed by at least two others in their group (top-level plan): what a panic
        // leaves behind in such a group is what the next dispatch runs
        let fronts: Vec<usize> = {
            let (st, tl) = r.rec.layout_gids(&r.dispatcher.as_ref().unwrap().verif_layout());
            // (the thread-local list is such a group too)
            st.iter().flatten().chain(std::iter::once(&tl)).filter(|g| g.len() >= 3).flat_map(|g| g[..g.len() - 2].to_vec()).filter(|g| *g != 0).collect()
        };
        // systems inside a batch that is dispatched more than once per outer dispatch: a panic in a round
        // that is not the last one leaves rounds undone
        let repeated: Vec<usize> = {
            let inners: Vec<usize> = r.rec.sys.iter().filter(|s| s.kind == "batch" && s.n >= 2).map(|s| s.inner).collect();
            r.rec.sys.iter().filter(|s| s.addr != 0 && inners.contains(&s.builder)).map(|s| s.gid).collect()
        };
        let mut i = 0;
        let mut last_panicked = false;
        // a dispatch that panicked is never the last one: the state it leaves behind is observed by the next
        while i < dispatches || (last_panicked && i < dispatches + 2) {
            let mode = modes[(k + i) % modes.len()];
            i += 1;
            let mut panics = Vec::new();
            last_panicked = false;
            if npanic > 0.0 && i <= dispatches && rng.gen_bool(npanic) && !all_gids.is_empty() {
                last_panicked = true;
                // thread-local systems (top level) are few: pick them on purpose now and then
                let tls: Vec<usize> = r.rec.sys.iter().filter(|s| s.kind == "tl" && s.builder == r.top).map(|s| s.gid).collect();
                if !tls.is_empty() && rng.gen_bool(0.3) {
                    panics.push(*tls.choose(&mut rng).unwrap());
                } else if !fronts.is_empty() && rng.gen_bool(0.35) {
                    panics.push(*fronts.choose(&mut rng).unwrap());
                } else if !repeated.is_empty() && rng.gen_bool(0.4) {
                    panics.push(*repeated.choose(&mut rng).unwrap());
                } else {
                    panics.push(*all_gids.choose(&mut rng).unwrap());
                }
                if rng.gen_bool(0.25) {
                    panics.push(*all_gids.choose(&mut rng).unwrap());
                }
                npan += 1;
            }
            let opts = ExecOpts {
                mode,
                gated,
                quiet_us,
                seed: rng.gen(),
                jitter_us: *[0u64, 5, 50, 300].choose(&mut rng).unwrap(),
                panics,
                policy: rng.gen_range(0..4),
            };
            // now and then the call is made from a worker of the dispatcher's own pool or of a foreign pool
            #[cfg(feature = "parallel")]
            shredh::execx::set_driver_pool(if rng.gen_bool(a.num("pdriver", 0.12)) {
                ndriven += 1;
                Some(if rng.gen_bool(0.5) && own_pool.current_num_threads() >= 2 { own_pool.clone() } else { small_pools[1].clone() })
            } else {
                None
            });
            let st = run_dispatch(&mut r, &world, &opts);
            #[cfg(feature = "parallel")]
            shredh::execx::set_driver_pool(None);
            max_held = max_held.max(st.max_held);
            releases += st.releases;
            stalls += st.stalls;
            ndisp += 1;
        }
        nsys += prog.count_systems();
        nz += r.rec.zslots.len();
        if samples.len() < 2 {
            samples.push(serde_json::to_value(&prog).unwrap());
        }
        // the dispatcher of the PREVIOUS program is still alive (two dispatchers, two worlds at a time): now that
        // this program has been built and run, the previous one is dispatched once more - nothing one dispatcher
        // does may leak into another one
        if let Some((mut pr, pw)) = prev.take() {
            if rng.gen_bool(0.6) {
                let opts = ExecOpts { mode: modes[k % modes.len()], gated: false, quiet_us, seed: rng.gen(), jitter_us: 0, panics: vec![], policy: 0 };
                run_dispatch(&mut pr, &pw, &opts);
                ndisp += 1;
            }
            nev += pr.rec.events.len();
            write_events(&mut w, &pr.rec.events);
        }
        prev = Some((r, world));
    }
    if let Some((pr, _pw)) = prev.take() {
        nev += pr.rec.events.len();
        write_events(&mut w, &pr.rec.events);
    }
    w.flush().unwrap();
    println!(
        "{}",
        json!({"programs":count + nb,"systems":nsys,"zero_sized_systems":nz,"dispatch_calls_made_from_a_pool_worker":ndriven,"events":nev,"dispatches":ndisp,"max_held":max_held,
               "releases":releases,"stalls":stalls,"panicking_dispatches":npan,"samples":samples})
    );
}

/// exec prog --in progs.jsonl --out trace.ndjson : fixed programs (one JSON object per line:
/// {"prog": <Prog>, "modes": ["disp","seq",..], "gated": bool, "panics": [[gid..],..]})
fn progs(a: &Args) {
    use std::io::BufRead;
    let inp = a.get("in").expect("--in");
    let out = a.get("out").expect("--out");
    let seed: u64 = a.num("seed", 1);
    let quiet_us: u64 = a.num("quiet-us", 300);
    let mut rng = StdRng::seed_from_u64(seed);
    let mut w = BufWriter::new(File::create(out).unwrap());
    #[cfg(feature = "parallel")]
    let gate_pool = pool(a.num("pool", 16));
    let (mut n, mut nev, mut ndisp) = (0usize, 0usize, 0usize);
    for line in std::io::BufReader::new(File::open(inp).unwrap()).lines() {
        let line = line.unwrap();
        if line.trim().is_empty() {
            continue;
        }
        let v: serde_json::Value = serde_json::from_str(&line).expect("json");
        let prog: shredh::prog::Prog = serde_json::from_value(v["prog"].clone()).expect("prog");
        let gated = v["gated"].as_bool().unwrap_or(true);
        let modes: Vec<String> = serde_json::from_value(v["modes"].clone()).unwrap_or_else(|_| vec!["disp".into()]);
        let panics: Vec<Vec<usize>> = serde_json::from_value(v["panics"].clone()).unwrap_or_default();
        let mut res = Vec::new();
        prog.resources(&mut res);
        n += 1;
        #[cfg(feature = "parallel")]
        let p = gate_pool.clone();
        #[cfg(not(feature = "parallel"))]
        let p = ();
        let mut r = record_registration_pool(&prog, Variant::identity(&res), n, 0, true, p);
        if r.dispatcher.is_some() {
            let world = setup_world(&mut r, false);
            for (i, m) in modes.iter().enumerate() {
                let mode = match m.as_str() {
                    "par" => Mode::Par,
                    "seq" => Mode::Seq,
                    "tlonly" => Mode::TlOnly,
                    _ => Mode::Disp,
                };
                let opts = ExecOpts {
                    mode,
                    gated,
                    quiet_us,
                    seed: rng.gen(),
                    jitter_us: 20,
                    panics: panics.get(i).cloned().unwrap_or_default(),
                    policy: 0,
                };
                run_dispatch(&mut r, &world, &opts);
                ndisp += 1;
            }
        }
        nev += r.rec.events.len();
        write_events(&mut w, &r.rec.events);
    }
    w.flush().unwrap();
    println!("{}", json!({"programs":n,"events":nev,"dispatches":ndisp}));
}

/// exec lifecycle ... : random programs (batches nested up to --depth, thread-local systems) ->
/// setup on worlds with a random subset of the resources pre-existing, (repeated), dispose
fn lifecycle_cmd(a: &Args) {
    let seed: u64 = a.num("seed", 1);
    let count: usize = a.num("count", 40);
    let out = a.get("out").expect("--out");
    let mut w = BufWriter::new(File::create(out).unwrap());
    let mut rng = StdRng::seed_from_u64(seed);
    let mut base = GenCfg::basic(a.num("nmin", 2), a.num("nmax", 20), a.num("nres", 8));
    base.p_tl = a.num("ptl", 0.12);
    base.p_batch = a.num("pbatch", 0.25);
    base.max_depth = a.num("depth", 3);
    base.p_nest = a.num("pnest", 0.05);
    base.inner_tl = true;
    #[cfg(feature = "parallel")]
    let p4 = pool(4);
    let (mut nsys, mut nev) = (0usize, 0usize);
    let mut samples = Vec::new();
    let mut maxdepth = 0;
    for k in 0..count {
        shredh::unwind::set(rng.gen_bool(a.num("punwind", 0.12)));
        shredh::record::set_early_pool(rng.gen_bool(0.3));
        shredh::build::set_nohook(if rng.gen_bool(0.5) { 0.25 } else { 0.0 });
        shredh::build::set_zst(if rng.gen_bool(0.25) { 0.5 } else { 0.0 });
        shredh::build::set_noise(if rng.gen_bool(0.2) { 0.06 } else { 0.0 });
        let mut cfg = base.clone();
        cfg.n_res = rng.gen_range(2..=base.n_res.max(2));
        let degenerate = rng.gen_bool(0.05);
        shredh::record::set_no_pool(rng.gen_bool(if degenerate { 0.5 } else { 0.03 }));
        let prog = if degenerate { shredh::prog::gen_degenerate(&mut rng, true) } else { gen_prog(&mut rng, &cfg, 0, "") };
        let mut res = Vec::new();
        prog.resources(&mut res);
        #[cfg(feature = "parallel")]
        let p = p4.clone();
        #[cfg(not(feature = "parallel"))]
        let p = ();
        let mut r = record_registration_pool(&prog, Variant::identity(&res), k + 1, 0, false, p);
        if r.dispatcher.is_some() {
            // any subset of all mapped resources (also ones nobody accesses) pre-exists
            let all: Vec<u32> = r.rec.ctx.resmap.keys().copied().collect();
            let pre: Vec<u32> = all.into_iter().filter(|_| rng.gen_bool(0.4)).collect();
            let repeat = *[0usize, 1, 2, 3].choose(&mut rng).unwrap();
            // a refused conversion to the sendable form must hand back the complete dispatcher
            let has_tl = r.rec.sys.iter().any(|x| (x.kind == "tl" || x.kind == "nest") && x.builder == r.top);
            if has_tl && rng.gen_bool(0.5) {
                let d = r.dispatcher.take().unwrap();
                match d.try_into_sendable() {
                    Ok(_) => {}
                    Err(d) => r.dispatcher = Some(d),
                }
            }
            if r.dispatcher.is_none() {
                write_events(&mut w, &r.rec.events);
                continue;
            }
            shredh::execx::lifecycle(&mut r, &pre, repeat, rng.gen_bool(0.3));
        }
        maxdepth = maxdepth.max(prog.depth());
        nsys += prog.count_systems();
        nev += r.rec.events.len();
        write_events(&mut w, &r.rec.events);
        if samples.len() < 2 {
            samples.push(serde_json::to_value(&prog).unwrap());
        }
    }
    w.flush().unwrap();
    println!("{}", json!({"programs":count,"systems":nsys,"events":nev,"max_batch_depth":maxdepth,"samples":samples}));
}

/// exec async ... : random programs on the AsyncDispatcher, random call sequences of the caller
#[cfg(feature = "parallel")]
fn async_cmd(a: &Args) {
    use shredh::execx::asyncx::{record_async, run_session};
    let seed: u64 = a.num("seed", 1);
    let count: usize = a.num("count", 30);
    let ncalls: usize = a.num("calls", 12);
    let out = a.get("out").expect("--out");
    let mut w = BufWriter::new(File::create(out).unwrap());
    let mut rng = StdRng::seed_from_u64(seed);
    let mut base = GenCfg::basic(a.num("nmin", 2), a.num("nmax", 14), a.num("nres", 6));
    base.p_tl = a.num("ptl", 0.12);
    base.p_batch = a.num("pbatch", 0.06);
    base.p_dep = a.num("pdep", 0.3);
    base.p_barrier = a.num("pbarrier", 0.08);
    base.max_depth = 1;
    // a panic in a spawned job must not abort the process: it is data
    let mk = |n: usize| Arc::new(rayon::ThreadPoolBuilder::new().num_threads(n).panic_handler(|_| {}).build().unwrap());
    let big = mk(a.num("pool", 12));
    let smalls = [mk(1), mk(2), mk(3)];
    let (mut nsys, mut nev, mut ncall) = (0usize, 0usize, 0usize);
    let mut samples = Vec::new();
    for k in 0..count {
        shredh::unwind::set(rng.gen_bool(a.num("punwind", 0.12)));
        shredh::record::set_early_pool(rng.gen_bool(0.3));
        shredh::build::set_nohook(if rng.gen_bool(0.5) { 0.25 } else { 0.0 });
        let zst = if rng.gen_bool(0.25) { 0.5 } else { 0.0 };
        shredh::build::set_zst(zst);
        let noise = if rng.gen_bool(0.2) { 0.06 } else { 0.0 };
        shredh::build::set_noise(noise);
        let mut cfg = base.clone();
        cfg.n_res = rng.gen_range(2..=base.n_res.max(2));
        let prog = gen_prog(&mut rng, &cfg, 0, "");
        let mut res = Vec::new();
        prog.resources(&mut res);
        // mostly a pool wide enough for maximal overlap, now and then 1..3 workers
        let p = if rng.gen_bool(0.3) { smalls.choose(&mut rng).unwrap().clone() } else { big.clone() };
        let mut ops: Vec<String> = Vec::new();
        let n = rng.gen_range(3..=ncalls);
        let mut in_flight = false;
        for _ in 0..n {
            let x: f64 = rng.gen();
            let op = if x < 0.3 {
                "dispatch"
            } else if x < 0.55 {
                "running"
            } else if x < 0.7 {
                "wait"
            } else if x < 0.8 {
                "wait_without_tl"
            } else if x < 0.85 {
                "world"
            } else if x < 0.88 {
                "res"
            } else if x < 0.92 {
                "world_mut"
            } else if x < 0.95 {
                "mut_res"
            } else {
                "setup"
            };
            if op == "dispatch" {
                in_flight = true;
            }
            ops.push(op.to_string());
        }
        let _ = in_flight;
        // now and then the whole session (build_async, every call) is driven from a worker of the dispatcher's OWN
        // pool (which then needs a second worker for the background job)
        let on_worker = p.current_num_threads() >= 2 && rng.gen_bool(a.num("ponworker", 0.15));
        let flags = (shredh::unwind::active(), shredh::record::early_pool(), noise, zst);
        let (ppanic, quiet_us, hold_ms, setuplog): (f64, u64, u64, bool) = (a.num("ppanic", 0.0), a.num("quiet-us", 300), a.num("hold-ms", 3), a.flag("setuplog"));
        let session = |rng: &mut StdRng| -> Vec<serde_json::Value> {
            let mut s = record_async(&prog, Variant::identity(&res), k + 1, p.clone());
            // now and then an ordinary top-level system panics inside the background job
            let mut panics = Vec::new();
            if rng.gen_bool(ppanic) {
                // an ordinary system (poisons the job) or a thread-local one (panics inside wait, once)
                let want = if rng.gen_bool(0.5) { "plain" } else { "tl" };
                let cand: Vec<usize> = s.rec.sys.iter().filter(|x| x.kind == want && x.builder == s.top && x.addr != 0).map(|x| x.gid).collect();
                // half of the ordinary victims: a system of a non-first group of a stage with >= 3 groups that is not the
                // last stage (its siblings are still held inside run when it panics; later stages must not start)
                let wide: Vec<usize> = {
                    let (st, _) = s.rec.layout_gids(&s.ad.verif_layout());
                    let n = st.len();
                    st.iter()
                        .enumerate()
                        .filter(|(i, g)| g.len() >= 3 && i + 1 < n)
                        .flat_map(|(_, g)| g[1..].iter().flatten().copied().collect::<Vec<_>>())
                        .filter(|g| *g != 0)
                        .collect()
                };
                if want == "plain" && !wide.is_empty() && rng.gen_bool(0.5) {
                    panics.push(*wide.choose(&mut *rng).unwrap());
                } else if let Some(g) = cand.choose(&mut *rng) {
                    panics.push(*g);
                }
            }
            let st = run_session(&mut s, &ops, rng.gen::<u64>(), quiet_us, hold_ms, &panics, setuplog);
            let _ = st;
            std::mem::take(&mut s.rec.events)
        };
        let evs = if on_worker {
            let rr = &mut rng;
            p.install(|| {
                shredh::unwind::set(flags.0);
                shredh::record::set_early_pool(flags.1);
                shredh::build::set_noise(flags.2);
                shredh::build::set_zst(flags.3);
                session(rr)
            })
        } else {
            session(&mut rng)
        };
        ncall += ops.len();
        nsys += prog.count_systems();
        nev += evs.len();
        write_events(&mut w, &evs);
        if samples.len() < 2 {
            samples.push(json!({"prog": prog, "calls": ops, "driven_from_a_worker_of_its_own_pool": on_worker}));
        }
    }
    w.flush().unwrap();
    println!("{}", json!({"programs":count,"systems":nsys,"events":nev,"calls":ncall,"samples":samples}));
}

/// exec rendezvous ... : stages of rendezvous systems, widths 2..16, several execution
/// contexts; a stall (20 s) counts only if it reproduces in two immediate repetitions
#[cfg(feature = "parallel")]
fn rendezvous_cmd(a: &Args) {
    use shredh::rvx::*;
    use shred::World;
    use std::time::Duration;
    let seed: u64 = a.num("seed", 1);
    let out = a.get("out").expect("--out");
    let wmax: usize = a.num("wmax", 16);
    let reps: usize = a.num("reps", 3);
    let timeout = Duration::from_millis(a.num("timeout-ms", 20000));
    let mut rng = StdRng::seed_from_u64(seed);
    let mut w = BufWriter::new(File::create(out).unwrap());
    let cores = std::thread::available_parallelism().map(|n| n.get()).unwrap_or(1);
    let contexts = ["user", "user_par", "default", "batch", "batch_then_pool", "batch_nested", "batch_siblings", "default_outer_batch", "default_neighbour", "default_built_on_worker", "shared_after_async", "async", "async_repeat", "foreign"];
    let hint_sets: Vec<Vec<u8>> = vec![vec![3], vec![1], vec![5], vec![1, 5], vec![2, 3, 4], vec![1, 1, 2]];
    let (mut runs, mut stalls, mut skipped) = (0usize, 0usize, 0usize);
    let mut samples = Vec::new();
    let widths: Vec<usize> = (2..=wmax).collect();
    'outer: for &width in &widths {
        for ctxname in contexts {
            let hints = hint_sets.choose(&mut rng).unwrap().clone();
            let extra = *[0usize, 1, 3].choose(&mut rng).unwrap();
            // (batch_nested: a batch two levels down runs on the default pool that was created for its parent builder,
            // not on the pool given to the outermost builder - Pool.tla, the code's named deviation; what counts for
            // it is the number of cores)
            if (ctxname == "batch_nested" && cores < width)
                || (ctxname == "default_built_on_worker" && cores < width)
                || (ctxname == "default" && cores < width)
                || (ctxname == "default_outer_batch" && cores < width + 1)
                || (ctxname == "default_neighbour" && cores.min(wmax) != width)
            {
                skipped += 1;
                continue;
            }
            // one attempt = build + `reps` dispatches; returns the events and whether any system timed out
            let hints_c = hints.clone();
            let attempt_body = move |reps: usize| -> (Vec<serde_json::Value>, bool) {
                let hints = hints_c.clone();
                let rv = Rv::new(width, timeout);
                let psize = width + extra + if ctxname.starts_with("batch") || ctxname.starts_with("async") { 1 } else { 0 };
                let mut evs = Vec::new();
                let mut any_to = false;
                let world = World::empty();
                let inner = rv_builder(&rv, &hints);
                let lay = inner.verif_layout();
                let (stages, wd) = (lay.stages.len(), lay.stages.iter().map(|s| s.len()).max().unwrap_or(0));
                let pool_of = |n: usize| pool(n);
                for _ in 0..reps {
                    rv.reset();
                    rv.log.lock().unwrap().clear();
                    evs.push(json!({"ev":"rvbegin","w":width,"pool": if ctxname.starts_with("default") || ctxname == "batch_nested" { cores } else { psize },"ctx":ctxname,
                                    "stages":stages,"width":wd,"hints":hints}));
                    match ctxname {
                        "user" | "user_par" | "default" | "foreign" => {
                            let mut b = rv_builder(&rv, &hints);
                            if ctxname != "default" {
                                b.add_pool(pool_of(psize));
                            }
                            let mut d = b.build();
                            match ctxname {
                                "user_par" => d.dispatch_par(&world),
                                "foreign" => {
                                    // dispatch called from a worker of ANOTHER (single-threaded) pool
                                    let other = pool_of(1);
                                    let mut sd = d.try_into_sendable().ok().expect("no thread-local systems");
                                    let wref = &world;
                                    other.install(move || sd.dispatch(wref));
                                }
                                _ => d.dispatch(&world),
                            }
                        }
                        "batch" => {
                            let mut d = DispatcherBuilder::new()
                                .with_pool(pool_of(psize))
                                .with_batch(RvCtl, rv_builder(&rv, &hints), "batch", &[])
                                .build();
                            d.dispatch(&world);
                        }
                        "batch_nested" => {
                            // the rendezvous stage is two batches deep; the pool is attached last
                            let mid = DispatcherBuilder::new().with_batch(RvCtl, rv_builder(&rv, &hints), "inner", &[]);
                            let mut d = DispatcherBuilder::new()
                                .with_batch(RvCtl, mid, "outer", &[])
                                .with_pool(pool_of(psize + 1))
                                .build();
                            d.dispatch(&world);
                        }
                        "batch_siblings" => {
                            // the batch with the rendezvous stage is the FIRST group of an outer stage with idle
                            // siblings: the worker that runs it has just queued the siblings for others to steal.
                            // A pause lets the pool fall asleep first (stealing then takes its time).
                            let nsib = 3 + extra;
                            let mut b = DispatcherBuilder::new().with_pool(pool_of(psize + nsib)).with_batch(
                                RvCtl,
                                rv_builder(&rv, &hints),
                                "batch",
                                &[],
                            );
                            for i in 0..nsib {
                                b.add(shredh::rvx::Noop, &format!("sib{}", i), &[]);
                            }
                            let mut d = b.build();
                            std::thread::sleep(Duration::from_millis(12));
                            d.dispatch(&world);
                        }
                        "async_repeat" => {
                            // further dispatches issued while the first frame is still running wait on the CALLER's
                            // side: they take no pool thread away from the running stage
                            let mut ad = rv_builder(&rv, &hints).with_pool(pool_of(psize)).build_async(World::empty());
                            ad.dispatch();
                            ad.dispatch();
                            ad.dispatch();
                            ad.wait();
                        }
                        "default_built_on_worker" => {
                            // the default pool is sized by the machine, wherever `build` happens to be called: here on
                            // the only worker of an unrelated one-thread pool; the dispatch comes from this thread
                            let small = pool_of(1);
                            let (rv2, hints2) = (rv.clone(), hints.clone());
                            let mut sd = small.install(move || rv_builder(&rv2, &hints2).build().try_into_sendable().ok().expect("no thread-local systems"));
                            sd.dispatch(&world);
                        }
                        "shared_after_async" => {
                            // another dispatcher on the same pool has finished an asynchronous dispatch that nobody has
                            // waited for yet: it holds no worker any more
                            let p = pool_of(psize);
                            let mut other = DispatcherBuilder::new().with(shredh::rvx::Noop, "noop", &[]).with_pool(p.clone()).build_async(World::empty());
                            other.dispatch();
                            std::thread::sleep(Duration::from_millis(15));
                            let mut d = rv_builder(&rv, &hints).with_pool(p).build();
                            d.dispatch(&world);
                            other.wait();
                        }
                        "default_neighbour" => {
                            // a dispatcher's default pool is its own: another default-pool dispatcher that is busy
                            // (one of its systems stays inside run meanwhile) takes nothing away from it
                            use std::sync::atomic::{AtomicBool, Ordering};
                            let started = Arc::new(AtomicBool::new(false));
                            let release = Arc::new(AtomicBool::new(false));
                            let mut nb = DispatcherBuilder::new()
                                .with(Blocker { started: started.clone(), release: release.clone() }, "blocker", &[])
                                .build_async(World::empty());
                            nb.dispatch();
                            let t0 = std::time::Instant::now();
                            while !started.load(Ordering::SeqCst) && t0.elapsed() < Duration::from_secs(10) {
                                std::thread::sleep(Duration::from_millis(1));
                            }
                            let mut d = rv_builder(&rv, &hints).build();
                            d.dispatch(&world);
                            release.store(true, Ordering::SeqCst);
                            nb.wait();
                        }
                        "default_outer_batch" => {
                            // default pool; the rendezvous systems sit next to a narrow batch registered first
                            let mut b = DispatcherBuilder::new().with_batch(
                                RvCtl,
                                DispatcherBuilder::new().with(shredh::rvx::Noop, "noop", &[]),
                                "narrow",
                                &[],
                            );
                            for i in 0..rv.width {
                                b.add(RvSys { id: i + 1, t: hints[i % hints.len()], rv: rv.clone() }, &format!("rv{}", i), &[]);
                            }
                            let mut d = b.build();
                            d.dispatch(&world);
                        }
                        "batch_then_pool" => {
                            // the pool that counts is the one installed LAST: the handle is shared with batches
                            let mut d = DispatcherBuilder::new()
                                .with_pool(pool_of(1))
                                .with_batch(RvCtl, rv_builder(&rv, &hints), "batch", &[])
                                .with_pool(pool_of(psize))
                                .build();
                            d.dispatch(&world);
                        }
                        _ => {
                            let mut ad = rv_builder(&rv, &hints).with_pool(pool_of(psize)).build_async(World::empty());
                            ad.dispatch();
                            ad.wait();
                        }
                    }
                    let log = std::mem::take(&mut *rv.log.lock().unwrap());
                    let to = log.iter().any(|e| e["timedout"] == true);
                    any_to |= to;
                    evs.extend(log);
                    evs.push(json!({"ev":"rvend","stalled":to}));
                    if to {
                        break;
                    }
                }
                (evs, any_to)
            };
            // a dispatch that never returns (dead-locked pool) must end the attempt too: the attempt runs on a
            // thread of its own and is given up after 3 x timeout + 15 s (the stuck threads are left behind)
            let attempt_body = Arc::new(attempt_body);
            let hang_after = timeout * 3 + Duration::from_secs(15);
            let hints_h = hints.clone();
            let attempt = move |reps: usize| -> (Vec<serde_json::Value>, bool) {
                let (tx, rx) = std::sync::mpsc::channel();
                let body = attempt_body.clone();
                std::thread::spawn(move || {
                    let _ = tx.send(body(reps));
                });
                match rx.recv_timeout(hang_after * reps as u32) {
                    Ok(r) => r,
                    Err(_) => (
                        vec![
                            json!({"ev":"rvbegin","w":width,"pool":width,"ctx":ctxname,"stages":1,"width":width,"hints":hints_h}),
                            json!({"ev":"rvend","stalled":true,"hung":true}),
                        ],
                        true,
                    ),
                }
            };
            let (mut evs, mut stalled) = attempt(reps);
            let hung = evs.iter().any(|e| e["hung"] == true);
            if hung {
                // a dispatch that did not return at all within 3 x timeout + 15 s: every rendezvous system gives up
                // after `timeout`, so no scheduling delay explains it - no repetition needed (and the stuck
                // threads may hold the pools)
                stalls += 1;
            } else if stalled {
                // S2: a stall is only believed if it reproduces twice more, immediately
                let (e2, s2) = attempt(1);
                let (e3, s3) = attempt(1);
                if s2 && s3 {
                    stalls += 1;
                    evs = e3;
                    let _ = e2;
                } else {
                    stalled = false;
                    // keep only the non-stalled evidence
                    evs = if !s2 { e2 } else { e3 };
                }
            }
            let _ = stalled;
            runs += 1;
            let mut all = vec![json!({"ev":"reset","prog":runs,"var":0})];
            all.extend(evs);
            if samples.len() < 3 {
                samples.push(all.get(1).cloned().unwrap_or_default());
            }
            write_events(&mut w, &all);
            if stalls > 0 {
                // one reproduced stall decides the check; do not spend 60 s on each further scenario
                break 'outer;
            }
        }
    }
    w.flush().unwrap();
    println!("{}", json!({"runs":runs,"stalls":stalls,"skipped_default_pool":skipped,"cores":cores,"samples":samples}));
}

/// exec schedule --in replay.txt --out trace.ndjson [--max N] : (registration sequence, eager
/// schedule) behaviours emitted by TLC from MCShred, forced on the real dispatcher
fn schedule_cmd(a: &Args) {
    use shredh::execx::{run_dispatch_forced, Forced};
    use std::io::BufRead;
    let inp = a.get("in").expect("--in");
    let out = a.get("out").expect("--out");
    let seed: u64 = a.num("seed", 1);
    let max: usize = a.num("max", 2000);
    let quiet_us: u64 = a.num("quiet-us", 250);
    let mut rng = StdRng::seed_from_u64(seed);
    let mut w = BufWriter::new(File::create(out).unwrap());
    #[cfg(feature = "parallel")]
    let gate_pool = pool(a.num("pool", 8));
    // reservoir-sample `max` behaviours (TLC's output order is not deterministic: sort first)
    let mut lines: Vec<String> = std::io::BufReader::new(File::open(inp).unwrap())
        .lines()
        .map(|l| l.unwrap())
        .filter(|l| l.starts_with("<<\"REPLAY\""))
        .collect();
    lines.sort();
    let total = lines.len();
    lines.shuffle(&mut rng);
    lines.truncate(max);
    let (mut n, mut layout_drift, mut followed, mut mismatch, mut deviations, mut nev) = (0usize, 0usize, 0usize, 0usize, 0usize, 0usize);
    let mut samples = Vec::new();
    for line in &lines {
        let (Some(s), Some(e)) = (line.find("\"{"), line.rfind("}\"")) else { continue };
        let Ok(inner) = serde_json::from_str::<String>(&line[s..e + 2]) else { continue };
        let st: serde_json::Value = serde_json::from_str(&inner).unwrap();
        let (prog, ids) = shredh::prog::prog_of_state(&st);
        let mut res = Vec::new();
        prog.resources(&mut res);
        n += 1;
        #[cfg(feature = "parallel")]
        let p = gate_pool.clone();
        #[cfg(not(feature = "parallel"))]
        let p = ();
        let variant = if rng.gen_bool(0.5) { Variant::identity(&res) } else { Variant::random(&res, &mut rng) };
        let mut r = record_registration_pool(&prog, variant, n, 0, false, p);
        let real: Vec<Vec<Vec<u64>>> = serde_json::from_value(r.rec.events.last().unwrap()["lay"].clone()).unwrap_or_default();
        if r.dispatcher.is_none() || real != ids {
            // the real plan is not the model's: nothing to force; the trace is still judged
            layout_drift += 1;
            nev += r.rec.events.len();
            write_events(&mut w, &r.rec.events);
            continue;
        }
        let world = setup_world(&mut r, false);
        let steps: Vec<(String, usize)> = st["hist"]
            .as_array()
            .unwrap()
            .iter()
            .map(|x| (x[0].as_str().unwrap().to_string(), x[1].as_u64().unwrap() as usize))
            .collect();
        let mode = match st["mode"].as_str().unwrap_or("par") {
            "seq" => Mode::Seq,
            "disp" => Mode::Disp,
            _ => Mode::Par,
        };
        let fs = run_dispatch_forced(&mut r, &world, mode, &Forced { steps: steps.clone() }, quiet_us);
        if fs.deviations == 0 && fs.runset_mismatch == 0 {
            followed += 1;
        }
        mismatch += (fs.runset_mismatch > 0) as usize;
        deviations += (fs.deviations > 0) as usize;
        // the model's predicted result must be the real one
        nev += r.rec.events.len();
        write_events(&mut w, &r.rec.events);
        if samples.len() < 2 {
            samples.push(json!({"prog": prog, "layout": ids, "schedule": steps}));
        }
    }
    w.flush().unwrap();
    println!(
        "{}",
        json!({"behaviours_emitted":total,"forced":n,"layout_drift":layout_drift,"followed_exactly":followed,
               "runset_mismatch":mismatch,"deviated":deviations,"events":nev,"samples":samples})
    );
}

// ---------------------------------------------------------------------------------------
// Pool.tla: the shared thread-pool handle of builders, dispatchers and batches

#[cfg(feature = "parallel")]
mod poolx {
    use std::sync::{Arc, Mutex};

    use shred::{BatchController, Dispatcher, DispatcherBuilder, System, World};

    /// logs on which pool it ran: a worker of user pool p is named "vp<p>-<i>"; anything else is 0
    pub struct Probe {
        pub b: usize,
        pub log: Arc<Mutex<Vec<(usize, usize)>>>,
    }
    impl<'a> System<'a> for Probe {
        type SystemData = ();
        fn run(&mut self, _: ()) {
            let t = std::thread::current();
            let p = t.name().and_then(|n| n.strip_prefix("vp")).and_then(|r| r.split('-').next()).and_then(|x| x.parse::<usize>().ok()).unwrap_or(0);
            self.log.lock().unwrap().push((self.b, p));
        }
    }
    pub struct Once;
    impl<'a, 'b, 'c> BatchController<'a, 'b, 'c> for Once {
        type BatchSystemData = ();
        fn run(&mut self, world: &'c World, dispatcher: &mut Dispatcher<'a, 'b>) {
            dispatcher.dispatch(world);
        }
    }
    pub type B = DispatcherBuilder<'static, 'static>;
}

/// exec pools --in replay.txt | --random N --out trace.ndjson : call sequences new / add_pool / add_batch / build on
/// real builders; afterwards every top-level dispatcher is dispatched once and every probe reports its pool.
#[cfg(feature = "parallel")]
fn pools_cmd(a: &Args) {
    use poolx::*;
    use shred::{Dispatcher, World};
    use std::io::BufRead;
    use std::sync::Mutex;
    let out = a.get("out").expect("--out");
    let seed: u64 = a.num("seed", 1);
    let keep: usize = a.num("keep", 400);
    let mut rng = StdRng::seed_from_u64(seed);
    let mut w = BufWriter::new(File::create(out).unwrap());
    let np_max = 8usize;
    let pools: Vec<Arc<rayon::ThreadPool>> = (1..=np_max)
        .map(|p| Arc::new(rayon::ThreadPoolBuilder::new().num_threads(2).thread_name(move |i| format!("vp{}-{}", p, i)).build().unwrap()))
        .collect();
    // behaviours: (calls, expectation of the model or None)
    let mut behaviours: Vec<(Vec<(String, usize, usize)>, Option<Vec<usize>>)> = Vec::new();
    if let Some(inp) = a.get("in") {
        for line in std::io::BufReader::new(File::open(inp).unwrap()).lines() {
            let line = line.unwrap();
            let (Some(s), Some(e)) = (line.find("\"{"), line.rfind("}\"")) else { continue };
            let Ok(inner) = serde_json::from_str::<String>(&line[s..e + 2]) else { continue };
            let st: serde_json::Value = serde_json::from_str(&inner).unwrap();
            let calls: Vec<(String, usize, usize)> = st["hist"]
                .as_array()
                .unwrap()
                .iter()
                .map(|c| (c[0].as_str().unwrap().to_string(), c[1].as_u64().unwrap() as usize, c[2].as_u64().unwrap() as usize))
                .collect();
            let expect: Vec<usize> = st["expect"].as_array().unwrap().iter().map(|x| x.as_u64().unwrap() as usize).collect();
            behaviours.push((calls, Some(expect)));
        }
    }
    let max: usize = a.num("max", usize::MAX);
    if behaviours.len() > max {
        behaviours.shuffle(&mut rng);
        behaviours.truncate(max);
    }
    for _ in 0..a.num("random", 0usize) {
        // random well-formed call sequences over up to 6 builders and 4 pools
        let nb = rng.gen_range(1..=6usize);
        let mut state: Vec<u8> = vec![0; nb + 1]; // 0 none, 1 open, 2 closed
        let mut calls = Vec::new();
        let mut born = 0usize;
        for _ in 0..rng.gen_range(2..=16) {
            let open: Vec<usize> = (1..=nb).filter(|b| state[*b] == 1).collect();
            let x = rng.gen_range(0..10);
            if (x < 3 || open.is_empty()) && born < nb {
                born += 1;
                state[born] = 1;
                calls.push(("new".to_string(), born, 0));
            } else if x < 6 && !open.is_empty() {
                calls.push(("addpool".to_string(), *open.choose(&mut rng).unwrap(), rng.gen_range(1..=4)));
            } else if x < 9 && open.len() >= 2 {
                let o = *open.choose(&mut rng).unwrap();
                let i = *open.iter().filter(|b| **b != o).collect::<Vec<_>>().choose(&mut rng).unwrap().clone();
                state[i] = 2;
                calls.push(("addbatch".to_string(), o, i));
            } else if !open.is_empty() {
                let b = *open.choose(&mut rng).unwrap();
                state[b] = 2;
                calls.push(("build".to_string(), b, 0));
            }
        }
        for b in 1..=nb {
            if state[b] == 1 {
                calls.push(("build".to_string(), b, 0));
            }
        }
        behaviours.push((calls, None));
    }
    let (mut agree, mut disagree, mut written, mut nev, mut defaults) = (0usize, 0usize, 0usize, 0usize, 0usize);
    let total = behaviours.len();
    let mut samples = Vec::new();
    for (k, (calls, expect)) in behaviours.iter().enumerate() {
        shredh::progress();
        let log = Arc::new(Mutex::new(Vec::new()));
        let nb = calls.iter().map(|c| c.1.max(if c.0 == "addbatch" { c.2 } else { 0 })).max().unwrap_or(0);
        let mut builders: Vec<Option<B>> = (0..=nb).map(|_| None).collect();
        let mut tops: Vec<(usize, Dispatcher<'static, 'static>)> = Vec::new();
        let mut evs = vec![json!({"ev":"reset","prog":k + 1,"var":0})];
        let res = std::panic::catch_unwind(std::panic::AssertUnwindSafe(|| {
            for (op, x, y) in calls {
                match op.as_str() {
                    "new" => {
                        builders[*x] = Some(B::new().with(Probe { b: *x, log: log.clone() }, "probe", &[]));
                        evs.push(json!({"ev":"pnew","b":x}));
                    }
                    "addpool" => {
                        builders[*x].as_mut().unwrap().add_pool(pools[*y - 1].clone());
                        evs.push(json!({"ev":"paddpool","b":x,"p":y}));
                    }
                    "addbatch" => {
                        let inner = builders[*y].take().unwrap();
                        builders[*x].as_mut().unwrap().add_batch::<Once>(Once, inner, &format!("batch{}", y), &[]);
                        evs.push(json!({"ev":"paddbatch","o":x,"i":y}));
                    }
                    _ => {
                        let d = builders[*x].take().unwrap().build();
                        tops.push((*x, d));
                        evs.push(json!({"ev":"pbuild","b":x}));
                    }
                }
            }
            let world = World::empty();
            for (_, d) in tops.iter_mut() {
                d.dispatch(&world);
            }
        }));
        let mut got: Vec<(usize, usize)> = log.lock().unwrap().clone();
        got.sort();
        for (b, p) in &got {
            evs.push(json!({"ev":"pran","b":b,"pool":p}));
            if *p == 0 {
                defaults += 1;
            }
        }
        if res.is_err() {
            evs.push(json!({"ev":"pran","b":0,"pool":0,"panic":true}));
        }
        let ok = match expect {
            Some(e) => {
                let want: Vec<(usize, usize)> = e.iter().enumerate().filter(|(_, p)| **p != 99).map(|(i, p)| (i + 1, *p)).collect();
                res.is_ok() && want == got
            }
            None => res.is_ok(),
        };
        if ok {
            agree += 1;
        } else {
            disagree += 1;
        }
        // every disagreeing run and a sample of the others are also validated by PoolTrace
        if !ok || expect.is_none() || written < keep && rng.gen_bool((keep as f64 / total.max(1) as f64).min(1.0)) {
            written += 1;
            nev += evs.len();
            write_events(&mut w, &evs);
        }
        if samples.len() < 2 {
            samples.push(json!({"calls": calls, "ran": got}));
        }
    }
    w.flush().unwrap();
    println!(
        "{}",
        json!({"behaviours":total,"agree":agree,"disagree":disagree,"blocks_written":written,"events":nev,
               "probes_on_a_library_made_pool":defaults,"samples":samples})
    );
}
