//! parseq random ... : random Par/Seq trees built from the real nodes, gated dispatches -> ndjson trace
//! parseq replay ... : TLC behaviours (tree, finish order, run sets) of MCParSeq forced on the real tree
//! parseq build  ... : TLC-enumerated trees with access declarations -> real construction (Par::with outcomes, reads/writes)
//! parseq wide   ... : par nodes whose children mention 60..100 distinct resource ids, clash on a late id
//! parseq zoo    ... : trees that exist as compile-time types built with the real par!/seq! macros (gen/parseq_zoo.rs)
//! (compiled only with the harness features `parallel` + `x-parseq`)

#[cfg(not(all(feature = "x-parseq", feature = "parallel")))]
fn main() {
    eprintln!("parseq: the harness was built without the features parallel + x-parseq");
    std::process::exit(2)
}
#[cfg(all(feature = "x-parseq", feature = "parallel"))]
fn main() {
    shredh::run_main(imp::main)
}

#[cfg(all(feature = "x-parseq", feature = "parallel"))]
mod imp {
    use std::{
        fs::File,
        io::{BufRead, BufReader, BufWriter, Write},
        panic::{catch_unwind, AssertUnwindSafe},
        sync::Arc,
        time::Duration,
    };

    use rand::{rngs::StdRng, seq::SliceRandom, Rng, SeedableRng};
    use rayon::{ThreadPool, ThreadPoolBuilder};
    use serde_json::{json, Value};
    use shred::{ParSeq, World};
    use shredh::{
        parseqx::{
            assign_access, build_tree, dispatch_controlled, gen_shape, mk_leaf, Caller, DynNode, GenCfg, NodeSpec,
            PCtx, PLeaf, RunStats, Sched, Timing, TreeSpec, ZLeaf,
        },
        record::write_events,
        Args,
    };

    // compile-time trees: `pub const ZOO: &[(&str, fn(&mut dyn FnMut(usize) -> PLeaf) -> DynNode)]`
    include!(concat!(env!("CARGO_MANIFEST_DIR"), "/gen/parseq_zoo.rs"));

    pub fn main() {
        shredh::quiet_panics();
        let a = Args::from_env();
        match a.cmd() {
            "random" => random(&a),
            "replay" => replay(&a),
            "build" => build(&a),
            "zoo" => zoo(&a),
            "wide" => wide(&a),
            _ => {
                eprintln!("usage: parseq random|replay|build|zoo|wide ...");
                std::process::exit(2)
            }
        }
    }

    struct Pools {
        by_size: Vec<ThreadPool>, // index = threads - 1
        other: ThreadPool,
    }
    impl Pools {
        fn new() -> Self {
            Pools {
                by_size: (1..=8).map(|n| ThreadPoolBuilder::new().num_threads(n).build().unwrap()).collect(),
                other: ThreadPoolBuilder::new().num_threads(2).build().unwrap(),
            }
        }
        fn get(&self, threads: usize) -> &ThreadPool {
            &self.by_size[threads - 1]
        }
    }

    fn timing(a: &Args) -> Timing {
        Timing { stall: Duration::from_micros(a.num("stall-us", 30_000)), grace: Duration::from_micros(a.num("grace-us", 150)) }
    }

    fn replay_lines(path: &str) -> Vec<Value> {
        let rd = BufReader::new(File::open(path).unwrap());
        let mut out = Vec::new();
        for line in rd.lines() {
            let line = line.unwrap();
            if !line.starts_with("<<\"REPLAY\"") {
                continue;
            }
            let (Some(s), Some(e)) = (line.find("\"{"), line.rfind("}\"")) else { continue };
            let inner: String = match serde_json::from_str(&line[s..e + 2]) {
                Ok(x) => x,
                Err(_) => continue,
            };
            out.push(serde_json::from_str(&inner).unwrap());
        }
        out
    }

    #[derive(Default)]
    struct Totals {
        trees: usize,
        built: usize,
        with_panics: usize,
        dispatches: usize,
        stalls: usize,
        deviated: usize,
        max_overlap: usize,
        events: usize,
        by_caller: std::collections::BTreeMap<String, usize>,
        by_threads: std::collections::BTreeMap<usize, usize>,
    }
    impl Totals {
        fn add(&mut self, st: &RunStats, caller: Caller, threads: usize) {
            self.dispatches += 1;
            self.stalls += st.stalls;
            self.deviated += st.deviated as usize;
            self.max_overlap = self.max_overlap.max(st.max_overlap);
            *self.by_caller.entry(caller.name().into()).or_default() += 1;
            *self.by_threads.entry(threads).or_default() += 1;
        }
        fn json(&self) -> Value {
            json!({"trees":self.trees,"built":self.built,"with_panics":self.with_panics,"dispatches":self.dispatches,
                   "stalls":self.stalls,"deviated":self.deviated,"max_overlap":self.max_overlap,"events":self.events,
                   "by_caller":self.by_caller,"by_threads":self.by_threads})
        }
    }

    /// setup(s) and dispatches of an already built tree; events are appended to `evs`.
    #[allow(clippy::too_many_arguments)]
    fn drive(
        root: DynNode,
        spec: &TreeSpec,
        ctx: &Arc<PCtx>,
        pools: &Pools,
        threads: usize,
        caller: Caller,
        setups: usize,
        scheds: Vec<Sched>,
        tm: &Timing,
        evs: &mut Vec<Value>,
        tot: &mut Totals,
    ) -> Vec<RunStats> {
        let pool = pools.get(threads);
        let mut world = World::empty();
        let mut ps = ParSeq::new(root, pool);
        for _ in 0..setups {
            ctx.ev(json!({"ev":"setup_begin"}));
            let r = catch_unwind(AssertUnwindSafe(|| ps.setup(&mut world)));
            ctx.ev(json!({"ev":"setup_end","out": if r.is_ok() {"ok"} else {"panic"}}));
        }
        if setups == 0 {
            // resources must exist; insert them directly
            for r in spec.resources() {
                world.insert_by_id(shred::ResourceId::new_with_dynamic_id::<shredh::parseqx::PSlot>(r as u64), shredh::parseqx::PSlot(1000 + r));
            }
        }
        // the OPTIONAL static resources: nobody's setup inserts them; present only if the run says so
        let (has_a, has_b) = *ctx.opt_present.lock().unwrap();
        if has_a {
            world.insert(shredh::parseqx::OptA(5));
        }
        if has_b {
            world.insert(shredh::parseqx::OptB(6));
        }
        ctx.ev(json!({"ev":"world","opt_a":has_a,"opt_b":has_b}));
        let mut out = Vec::new();
        for s in scheds {
            let st = dispatch_controlled(&mut ps, &world, ctx, spec, pool, &pools.other, caller, s, tm);
            tot.add(&st, caller, threads);
            out.push(st);
        }
        evs.extend(ctx.take_log());
        out
    }

    /// run-time construction from the real nodes + the `built` event
    fn build_logged(spec: &TreeSpec, ctx: &Arc<PCtx>, evs: &mut Vec<Value>) -> Option<DynNode> {
        let root = build_tree(spec, 1, ctx, evs, true);
        // (which `with` failed, and how, is in the `with` events; `built` says whether a tree exists)
        evs.push(json!({"ev":"built","out": if root.is_some() {"ok"} else {"panic"}}));
        root
    }

    fn pick_caller(rng: &mut StdRng) -> Caller {
        *[Caller::Outside, Caller::Outside, Caller::Inside, Caller::Inside, Caller::Other].choose(rng).unwrap()
    }

    fn random(a: &Args) {
        let out = a.get("out").expect("--out");
        let seed: u64 = a.num("seed", 1);
        let count: usize = a.num("count", 50);
        let tm = timing(a);
        let mut rng = StdRng::seed_from_u64(seed);
        let pools = Pools::new();
        let mut w = BufWriter::new(File::create(out).unwrap());
        let mut tot = Totals::default();
        let mut samples = Vec::new();
        for run in 0..count {
            let cfg = GenCfg {
                max_depth: rng.gen_range(1..=a.num("depth", 5)),
                max_fan: rng.gen_range(2..=a.num("fan", 6)),
                max_leaves: rng.gen_range(1..=a.num("maxleaves", 24)),
                n_res: rng.gen_range(1..=8),
                p_conflict: a.num("pconflict", 0.25),
                p_opt: a.num("popt", 0.12),
                p_z: a.num("pz", 0.25),
            };
            let mut spec = gen_shape(&mut rng, &cfg);
            assign_access(&mut rng, &mut spec, &cfg);
            let ctx = PCtx::new();
            let mut evs = vec![json!({"ev":"reset","run":run + 1,"mode":"dyn","debug":cfg!(debug_assertions),"tree":spec})];
            tot.trees += 1;
            shredh::parseqx::zfill(&spec, Some(&ctx));
            let root = build_logged(&spec, &ctx, &mut evs);
            match root {
                None => tot.with_panics += 1,
                Some(root) => {
                    tot.built += 1;
                    let threads = rng.gen_range(1..=8);
                    let caller = pick_caller(&mut rng);
                    let setups = *[1usize, 1, 1, 2, 0].choose(&mut rng).unwrap();
                    *ctx.opt_present.lock().unwrap() = (rng.gen_bool(0.35), rng.gen_bool(0.35));
                    let k = rng.gen_range(1..=2);
                    let mut r2 = StdRng::seed_from_u64(rng.gen());
                    let mut r3 = StdRng::seed_from_u64(rng.gen());
                    let free = rng.gen_bool(0.15);
                    let mut scheds = Vec::new();
                    scheds.push(if free { Sched::Free } else { Sched::Random(&mut r2) });
                    if k == 2 {
                        scheds.push(Sched::Random(&mut r3));
                    }
                    drive(root, &spec, &ctx, &pools, threads, caller, setups, scheds, &tm, &mut evs, &mut tot);
                }
            }
            shredh::parseqx::zfill(&spec, None);
            if samples.len() < 2 && spec.0.len() <= 12 {
                samples.push(json!({"tree": spec, "events": evs.iter().skip(1).map(brief).collect::<Vec<_>>()}));
            }
            tot.events += evs.len();
            write_events(&mut w, &evs);
        }
        w.flush().unwrap();
        let mut j = tot.json();
        j["samples"] = json!(samples);
        println!("{}", j);
    }

    fn brief(e: &Value) -> Value {
        let ev = e["ev"].as_str().unwrap_or("");
        match ev {
            "fetch" => json!(format!("F{}", e["s"])),
            "finish" => json!(format!("E{}", e["s"])),
            "setup" => json!(format!("S{}", e["s"])),
            "with" => json!(format!("with({},{})={}", e["n"], e["i"], e["out"].as_str().unwrap_or(""))),
            "acc" => json!(format!("acc{}", e["n"])),
            "begin" => json!(format!("begin[{} {}t]", e["caller"].as_str().unwrap_or(""), e["threads"])),
            "end" => json!(format!("end:{}", e["res"].as_str().unwrap_or(""))),
            _ => json!(ev),
        }
    }

    /// TLC behaviours of MCParSeq (EmitRun): the finish order is forced; before every finish the
    /// set of leaves inside `run` is compared with the model's.
    fn replay(a: &Args) {
        let inp = a.get("in").expect("--in");
        let out = a.get("out").expect("--out");
        let seed: u64 = a.num("seed", 1);
        let max: usize = a.num("max", 1_000_000);
        let keep: usize = a.num("keep-matching", 300);
        let tm = timing(a);
        let mut rng = StdRng::seed_from_u64(seed);
        let pools = Pools::new();
        let mut w = BufWriter::new(File::create(out).unwrap());
        let mut all = replay_lines(inp);
        let total = all.len();
        if total > max {
            all.shuffle(&mut rng);
            all.truncate(max);
        }
        let p_keep = (keep as f64 / all.len().max(1) as f64).min(1.0);
        let mut tot = Totals::default();
        let (mut matched, mut deviated, mut written) = (0usize, 0usize, 0usize);
        let mut samples = Vec::new();
        let mut dev_samples = Vec::new();
        for (bi, b) in all.iter().enumerate() {
            let mut spec: TreeSpec = serde_json::from_value(b["tree"].clone()).expect("tree");
            // real borrows: every leaf writes a cell of its own and reads a common one
            let had_acc = spec.0.iter().any(|n| !n.r.is_empty() || !n.w.is_empty());
            if !had_acc {
                for l in spec.leaves() {
                    spec.0[l - 1].w = vec![l as u32];
                    spec.0[l - 1].r = vec![200];
                }
            }
            let hist: Vec<(usize, Vec<usize>)> = b["hist"]
                .as_array()
                .unwrap()
                .iter()
                .map(|h| (h["f"].as_u64().unwrap() as usize, h["run"].as_array().unwrap().iter().map(|x| x.as_u64().unwrap() as usize).collect()))
                .collect();
            let width = hist.iter().map(|h| h.1.len()).max().unwrap_or(1);
            // mostly pools that can realise the schedule, sometimes smaller ones (deviation expected)
            let threads = if rng.gen_bool(0.85) { rng.gen_range(width.min(8)..=8) } else { rng.gen_range(1..=8) };
            let caller = pick_caller(&mut rng);
            let ctx = PCtx::new();
            let mut evs = vec![json!({"ev":"reset","run":bi + 1,"mode":"dyn","debug":cfg!(debug_assertions),"tree":spec})];
            tot.trees += 1;
            let Some(root) = build_logged(&spec, &ctx, &mut evs) else {
                // cannot happen for conflict-free trees; the trace says what did
                tot.with_panics += 1;
                deviated += 1;
                write_events(&mut w, &evs);
                continue;
            };
            tot.built += 1;
            let st = drive(root, &spec, &ctx, &pools, threads, caller, 1, vec![Sched::Forced(hist.clone())], &tm, &mut evs, &mut tot);
            let st = &st[0];
            let finishes: Vec<usize> = evs.iter().filter(|e| e["ev"] == "finish").map(|e| e["s"].as_u64().unwrap() as usize).collect();
            let same_order = finishes == hist.iter().map(|h| h.0).collect::<Vec<_>>();
            let ok = st.result_ok && !st.deviated && st.runsets_equal && same_order;
            if ok {
                matched += 1;
                if samples.len() < 2 {
                    samples.push(json!({"tree": b["tree"], "forced_finish_order": finishes, "threads": threads, "caller": caller.name()}));
                }
                if written < keep && rng.gen_bool(p_keep) {
                    written += 1;
                    tot.events += evs.len();
                    write_events(&mut w, &evs);
                }
            } else {
                deviated += 1;
                if dev_samples.len() < 3 {
                    dev_samples.push(json!({"tree": b["tree"], "hist": b["hist"], "threads": threads, "caller": caller.name(),
                        "observed": evs.iter().filter(|e| e["ev"] == "fetch" || e["ev"] == "finish").map(brief).collect::<Vec<_>>()}));
                }
                tot.events += evs.len();
                write_events(&mut w, &evs);
            }
        }
        w.flush().unwrap();
        let mut j = tot.json();
        j["behaviours_emitted"] = json!(total);
        j["behaviours"] = json!(all.len());
        j["matched"] = json!(matched);
        j["not_followed"] = json!(deviated);
        j["validated_sample"] = json!(written);
        j["samples"] = json!(samples);
        j["deviation_samples"] = json!(dev_samples);
        println!("{}", j);
    }

    /// TLC-enumerated trees with access declarations (EmitBuild): construction outcome and the
    /// root's reads()/writes() compared with the model's.
    fn build(a: &Args) {
        let inp = a.get("in").expect("--in");
        let out = a.get("out").expect("--out");
        let seed: u64 = a.num("seed", 1);
        let keep: usize = a.num("keep-matching", 300);
        let mut rng = StdRng::seed_from_u64(seed);
        let mut w = BufWriter::new(File::create(out).unwrap());
        let all = replay_lines(inp);
        let p_keep = (keep as f64 / all.len().max(1) as f64).min(1.0);
        let (mut matched, mut mismatch, mut written, mut panics, mut events) = (0usize, 0usize, 0usize, 0usize, 0usize);
        let mut samples = Vec::new();
        let mut mis_samples = Vec::new();
        for (bi, b) in all.iter().enumerate() {
            let spec: TreeSpec = serde_json::from_value(b["tree"].clone()).expect("tree");
            let ctx = PCtx::new();
            let mut evs = vec![json!({"ev":"reset","run":bi + 1,"mode":"dyn","debug":cfg!(debug_assertions),"tree":spec})];
            let root = build_logged(&spec, &ctx, &mut evs);
            let model_ready = b["phase"] == "ready";
            let ok = match &root {
                None => {
                    panics += 1;
                    !model_ready
                }
                Some(r) => match shredh::parseqx::node_acc_checked(r) {
                    Some((rr, ww)) => model_ready && json!(rr) == b["reads"] && json!(ww) == b["writes"],
                    None => false,
                },
            };
            if ok {
                matched += 1;
                if samples.len() < 2 && root.is_none() {
                    samples.push(json!({"tree": b["tree"], "model": b["phase"], "real": evs.iter().skip(1).map(brief).collect::<Vec<_>>()}));
                }
                if written < keep && rng.gen_bool(p_keep) {
                    written += 1;
                    events += evs.len();
                    write_events(&mut w, &evs);
                }
            } else {
                mismatch += 1;
                if mis_samples.len() < 3 {
                    mis_samples.push(json!({"tree": b["tree"], "model": {"phase": b["phase"], "reads": b["reads"], "writes": b["writes"]},
                        "real": evs.iter().skip(1).collect::<Vec<_>>()}));
                }
                events += evs.len();
                write_events(&mut w, &evs);
            }
        }
        w.flush().unwrap();
        println!(
            "{}",
            json!({"behaviours": all.len(), "matched": matched, "mismatch": mismatch, "with_panics": panics,
                   "validated_sample": written, "events": events, "samples": samples, "mismatch_samples": mis_samples})
        );
    }

    /// Trees whose shape is a compile-time type built by the real `par!` / `seq!` macros.
    fn zoo(a: &Args) {
        let out = a.get("out").expect("--out");
        let seed: u64 = a.num("seed", 1);
        let variants: usize = a.num("variants", 2);
        let tm = timing(a);
        let mut rng = StdRng::seed_from_u64(seed);
        let pools = Pools::new();
        let mut w = BufWriter::new(File::create(out).unwrap());
        let mut tot = Totals::default();
        let mut samples = Vec::new();
        let mut run = 0usize;
        for (desc, ctor) in ZOO.iter() {
            let shape: Vec<NodeSpec> = serde_json::from_str(desc).expect("zoo description");
            for _ in 0..variants {
                run += 1;
                let mut spec = TreeSpec(shape.clone());
                let cfg = GenCfg { max_depth: 0, max_fan: 0, max_leaves: 0, n_res: rng.gen_range(1..=8), p_conflict: a.num("pconflict", 0.2), p_opt: 0.0, p_z: 0.0 };
                assign_access(&mut rng, &mut spec, &cfg);
                let ctx = PCtx::new();
                let mut evs = vec![json!({"ev":"reset","run":run,"mode":"zoo","debug":cfg!(debug_assertions),"tree":spec})];
                tot.trees += 1;
                shredh::parseqx::zfill(&spec, Some(&ctx));
                let mut made = Vec::new();
                let built = catch_unwind(AssertUnwindSafe(|| {
                    let mut mk = |n: usize| -> PLeaf {
                        made.push(n);
                        mk_leaf(&spec, n, &ctx)
                    };
                    ctor(&mut mk)
                }));
                match built {
                    Err(e) => {
                        tot.with_panics += 1;
                        evs.push(json!({"ev":"built","out":shredh::parseqx::panic_kind(&e),"made":made}));
                    }
                    Ok(root) => {
                        tot.built += 1;
                        evs.push(json!({"ev":"built","out":"ok","made":made}));
                        match shredh::parseqx::node_acc_checked(&root) {
                            Some((r, wv)) => evs.push(json!({"ev":"acc","n":1,"out":"ok","r":r,"w":wv})),
                            None => evs.push(json!({"ev":"acc","n":1,"out":"panic","r":[],"w":[]})),
                        }
                        let threads = rng.gen_range(1..=8);
                        let caller = pick_caller(&mut rng);
                        let mut r2 = StdRng::seed_from_u64(rng.gen());
                        drive(root, &spec, &ctx, &pools, threads, caller, 1, vec![Sched::Random(&mut r2)], &tm, &mut evs, &mut tot);
                    }
                }
                shredh::parseqx::zfill(&spec, None);
                if samples.len() < 2 && spec.0.len() <= 10 {
                    samples.push(json!({"macro_tree": spec, "events": evs.iter().skip(1).map(brief).collect::<Vec<_>>()}));
                }
                tot.events += evs.len();
                write_events(&mut w, &evs);
            }
        }
        w.flush().unwrap();
        let mut j = tot.json();
        j["zoo_types"] = json!(ZOO.len());
        j["samples"] = json!(samples);
        println!("{}", j);
    }
    /// Par nodes whose children together mention MANY distinct resource ids (around and well beyond
    /// 64), with the only clash (W/W, W/R, R/W) on the id that is collected last, next to wide nodes
    /// without any clash (which must be accepted and are dispatched).
    fn wide(a: &Args) {
        let out = a.get("out").expect("--out");
        let seed: u64 = a.num("seed", 1);
        let tm = timing(a);
        let mut rng = StdRng::seed_from_u64(seed);
        let pools = Pools::new();
        let mut w = BufWriter::new(File::create(out).unwrap());
        let mut tot = Totals::default();
        let leaf = |r: Vec<u32>, w: Vec<u32>| NodeSpec { kind: "leaf".into(), kids: vec![], r, w, opt: String::new(), z: None };
        let inner = |kind: &str, kids: Vec<usize>| NodeSpec { kind: kind.into(), kids, r: vec![], w: vec![], opt: String::new(), z: None };
        let mut sizes: Vec<u32> = vec![61, 62, 63, 64, 65, 66];
        sizes.push(rng.gen_range(67..=80));
        sizes.push(rng.gen_range(81..=98));
        let mut run = 0usize;
        let mut samples = Vec::new();
        for n in sizes {
            for clash in ["none", "ww", "wr", "rw"] {
                for shape in 0..3 {
                    run += 1;
                    let fill: Vec<u32> = (1..=n).collect();
                    let x = n + 1;
                    let y = n + 2;
                    // first: the fillers (read) and its part of the clash; last: the other part
                    let (first_r, first_w): (Vec<u32>, Vec<u32>) = match clash {
                        "rw" => (fill.iter().copied().chain([x]).collect(), vec![]),
                        _ => (fill.clone(), vec![x]),
                    };
                    let (last_r, last_w): (Vec<u32>, Vec<u32>) = match clash {
                        "none" => (fill.iter().copied().take(5).collect(), vec![y]),
                        "ww" => (vec![], vec![x]),
                        "wr" => (vec![x], vec![y]),
                        _ => (vec![], vec![x]),
                    };
                    let spec = match shape {
                        // par![first, last]
                        0 => TreeSpec(vec![inner("par", vec![2, 3]), leaf(first_r, first_w), leaf(last_r, last_w)]),
                        // par![a, b, last]: the ids of `first` are spread over two children
                        1 => {
                            let cut = rng.gen_range(1..first_r.len());
                            let (ra, rb) = first_r.split_at(cut);
                            TreeSpec(vec![
                                inner("par", vec![2, 3, 4]),
                                leaf(ra.to_vec(), vec![]),
                                leaf(rb.to_vec(), first_w),
                                leaf(last_r, last_w),
                            ])
                        }
                        // par![seq![a, b], par![last]]: subtrees on both sides
                        _ => {
                            let cut = rng.gen_range(1..first_r.len());
                            let (ra, rb) = first_r.split_at(cut);
                            TreeSpec(vec![
                                inner("par", vec![2, 5]),
                                inner("seq", vec![3, 4]),
                                leaf(ra.to_vec(), first_w),
                                leaf(rb.to_vec(), vec![]),
                                inner("par", vec![6]),
                                leaf(last_r, last_w),
                            ])
                        }
                    };
                    let ctx = PCtx::new();
                    let mut evs = vec![json!({"ev":"reset","run":run,"mode":"dyn","debug":cfg!(debug_assertions),"tree":spec,
                                              "wide":{"distinct_ids": spec.resources().len(), "clash": clash}})];
                    tot.trees += 1;
                    match build_logged(&spec, &ctx, &mut evs) {
                        None => tot.with_panics += 1,
                        Some(root) => {
                            tot.built += 1;
                            let mut r2 = StdRng::seed_from_u64(rng.gen());
                            let threads = rng.gen_range(2..=4);
                            drive(root, &spec, &ctx, &pools, threads, pick_caller(&mut rng), 1, vec![Sched::Random(&mut r2)], &tm, &mut evs, &mut tot);
                        }
                    }
                    if samples.len() < 2 && clash != "none" && n >= 64 {
                        samples.push(json!({"distinct_ids": spec.resources().len(), "clash": clash,
                                            "events": evs.iter().skip(1).filter(|e| e["ev"] == "with" || e["ev"] == "built").map(brief).collect::<Vec<_>>()}));
                    }
                    tot.events += evs.len();
                    write_events(&mut w, &evs);
                }
            }
        }
        w.flush().unwrap();
        let mut j = tot.json();
        j["samples"] = json!(samples);
        println!("{}", j);
    }

}
