fn main() {
    eprintln!("stub");
    std::process::exit(2);
}
