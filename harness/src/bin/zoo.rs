//! zoo --desc cases.json --out trace.ndjson --seed N
//!
//! Runs every generated system-data type (gen-out/zoo_cases.rs, produced by gen/zoo.py from
//! TLC-emitted and composed shape tables) through `shredh::zoo::run_case` and writes one trace
//! block per type (validated by spec/SysDataTrace.tla).  Where TLC emitted reference values for a
//! (shape, presence, held) state, the observation is also compared with them (spec -> impl).
#![allow(dead_code, unused_imports, non_camel_case_types, clippy::type_complexity)]
use std::{
    collections::HashMap,
    fmt::Debug,
    fs::File,
    io::{BufWriter, Write as IoWrite},
    marker::PhantomData,
};

use rand::{rngs::StdRng, seq::SliceRandom, SeedableRng};
use serde_json::json;
use shred::{DefaultProvider, PanicHandler, Read, ReadExpect, Resource, ResourceId, SystemData, World, Write, WriteExpect};
use shredh::{
    zoo::{self, *},
    Args,
};

include!(concat!(env!("CARGO_MANIFEST_DIR"), "/gen-out/", env!("CARGO_BIN_NAME"), "_cases.rs"));

fn main() {
    shredh::run_main(real_main)
}

fn real_main() {
    shredh::quiet_panics();
    let a = Args::from_env();
    if a.flag("hash") {
        println!("{}", json!({"hash": GEN_HASH, "types": CASES.len()}));
        return;
    }
    let desc_path = a.get("desc").expect("--desc");
    let out = a.get("out").expect("--out");
    let seed: u64 = a.num("seed", 1);
    let storm_ms: u64 = a.num("storm-ms", 30);
    let desc: DescFile = serde_json::from_reader(std::io::BufReader::new(File::open(desc_path).expect("desc file"))).expect("desc json");
    if desc.hash != GEN_HASH {
        eprintln!("descriptor {} does not belong to this binary (built from {})", desc.hash, GEN_HASH);
        std::process::exit(2);
    }
    let by_id: HashMap<u32, &CaseDesc> = desc.cases.iter().map(|c| (c.id, c)).collect();
    if by_id.len() != CASES.len() + 2 * TWINS.len() {
        eprintln!("descriptor has {} cases, binary {} + 2 x {} twins", by_id.len(), CASES.len(), TWINS.len());
        std::process::exit(2);
    }
    let desc_of = |id: u32| -> &CaseDesc {
        by_id.get(&id).copied().unwrap_or_else(|| {
            eprintln!("no descriptor for case {}", id);
            std::process::exit(2)
        })
    };
    // per-case generator: a case behaves the same wherever it stands in the list
    let rng_of = |id: u32| StdRng::seed_from_u64(seed.wrapping_mul(1_000_003).wrapping_add(id as u64));
    let mut w = BufWriter::new(File::create(out).unwrap());
    let mut st = Stats::default();
    let mut samples = Vec::new();
    for ops in CASES.iter() {
        let d = desc_of(ops.id);
        let mut ev = Vec::new();
        // last resort: the harness must not die from the behaviour of the code under test
        if std::panic::catch_unwind(std::panic::AssertUnwindSafe(|| zoo::run_case(ops, d, &mut rng_of(ops.id), &mut ev, &mut st, 1))).is_err() {
            ev.push(json!({"ev":"died","case":ops.id}));
        }
        if d.storm {
            // multi-threaded read-only storm on this (read-only) type, appended to its block
            let slots: Vec<&'static Slot> = d.conc.iter().filter_map(|n| zoo::slot_by_name(n)).collect();
            if slots.len() == d.nres {
                zoo::storm(ops, d, &slots, storm_ms, &mut ev, &mut st);
            }
        }
        if samples.len() < 2 && (ops.id as u64 + seed) % 97 == 0 {
            samples.push(json!({"ty": d.ty, "origin": d.origin, "events": ev.iter().skip(1).take(4).collect::<Vec<_>>()}));
        }
        zoo::write_zoo_events(&mut w, &ev);
    }
    // twins: the same generic type instantiated from two sibling blocks with same-named resource types
    for pass in [1u32, 2] {
        if pass == 2 {
            // second pass: declarations of every type again, in another order, after everything ran
            let mut order: Vec<usize> = (0..CASES.len()).collect();
            order.shuffle(&mut StdRng::seed_from_u64(seed ^ 0x5eed));
            for i in order {
                let ops = CASES[i];
                let mut ev = Vec::new();
                zoo::run_case(ops, desc_of(ops.id), &mut rng_of(ops.id), &mut ev, &mut st, 2);
                zoo::write_zoo_events(&mut w, &ev);
            }
        }
        for twin in TWINS.iter() {
            twin(&mut |ops: &Ops, slots: Vec<&'static Slot>| {
                let mut ev = Vec::new();
                zoo::run_case_with(ops, desc_of(ops.id), slots, &mut rng_of(ops.id), &mut ev, &mut st, pass);
                if pass == 1 {
                    st.twin_blocks += 1;
                }
                zoo::write_zoo_events(&mut w, &ev);
            });
        }
    }
    w.flush().unwrap();
    println!(
        "{}",
        json!({"hash": GEN_HASH, "cases": st.cases, "events": st.events, "fetch_runs": st.fetch_runs, "setup_runs": st.setup_runs, "exec_runs": st.exec_runs, "storm_blocks": st.storm_blocks, "storm_ops": st.storm_ops, "storm_fail": st.storm_fail, "setup_leaked": st.setup_leaked, "setup_panics": st.setup_panics, "fetch_normal": st.fetch_ctx[0], "fetch_dropped_by_unwinding": st.fetch_ctx[1], "fetch_in_drop_while_unwinding": st.fetch_ctx[2], "second_pass": st.second_pass, "twin_blocks": st.twin_blocks,
               "fetch_ok": st.fetch_ok, "fetch_missing": st.fetch_missing, "fetch_borrow": st.fetch_borrow,
               "fetch_other": st.fetch_other, "with_held": st.with_held, "model_runs": st.model_runs,
               "model_matched": st.model_matched, "model_mismatch": st.model_mismatch,
               "mismatch_samples": st.mismatch_samples, "samples": samples})
    );
}
