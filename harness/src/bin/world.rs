//! world replay  --in <TLC output> --out <ndjson> [--variants k] [--keep n] [--seed s]
//!     spec -> impl: every history emitted by MCWorld (`<<"REPLAY", json>>` lines) is
//!     executed on a real `shred::World`; outcome and projected state are compared
//!     with the model's after EVERY call.  Disagreeing histories (up to the first
//!     disagreement) and a sample of agreeing ones are written as event traces for
//!     WorldTrace.tla, which produces the verdict.
//! world random  --out <ndjson> --blocks n --len m --seed s
//!     impl -> spec: long random single-thread histories (4 types x 3 dynamic ids).
//! world threads --out <ndjson> --blocks n --rounds r --ops m --seed s
//!     impl -> spec: 2..8 threads on a shared &World, call/ret logged under one mutex,
//!     canaries, quiescent probes between rounds; validated for linearizability.
use std::{
    fs::File,
    io::{BufRead, BufReader, BufWriter, Write},
    sync::{
        atomic::{AtomicU32, Ordering},
        Mutex,
    },
};

use rand::{rngs::StdRng, seq::SliceRandom, Rng, SeedableRng};
use serde::Deserialize;
use serde_json::{json, Value};
use shredh::{
    worldx::{on_pool, panic_why, CallSpec, Driver, GEntry, SendEntry, ShapeM, NCONC},
    Args,
};

fn main() {
    shredh::run_main(real_main)
}

fn real_main() {
    if std::env::var("LOUD").is_err() {
        shredh::quiet_panics();
    }
    let a = Args::from_env();
    match a.cmd() {
        "replay" => replay(&a),
        "random" => random(&a),
        "threads" => threads(&a),
        _ => {
            eprintln!("usage: world replay|random|threads ...");
            std::process::exit(2)
        }
    }
}

fn write_block<W: Write>(w: &mut W, evs: &[Value]) {
    for e in evs {
        serde_json::to_writer(&mut *w, e).unwrap();
        w.write_all(b"\n").unwrap();
    }
}

/// Dynamic ids the abstract ids are mapped to: values that alias under truncation to 32 bits,
/// under `% 64`, in their low or high halves ... (the model keeps its small abstract ids).
const NASTY_DYN: [u64; 13] =
    [1, 64, 65, 128, 256, 1 << 16, (1 << 16) | 1, 1 << 32, (1 << 32) | 1, (2 << 32) | 1, u32::MAX as u64, u64::MAX, 1 << 63];

/// injective map abstract types -> concrete types, dynamic ids -> real dynamic ids.
/// `no_default`: abstract types (1-based) that occur as Read / Write members of a shape; they
/// cannot be mapped to `Box<dyn Resource>` (concrete type 4, no `Default`).
fn variant(rng: &mut StdRng, nt: usize, nd: usize, identity: bool, no_default: &[u32]) -> (Vec<usize>, Vec<u64>) {
    let mut tys: Vec<usize> = (0..NCONC).collect();
    if !identity {
        tys.shuffle(rng);
    }
    for &t in no_default {
        let k = t as usize - 1;
        if k < nt && tys[k] == 4 {
            // swap with a concrete type that is not used by this variant (there are NCONC > nt of them)
            // or with a type whose abstract partner may be the box
            let j = (0..NCONC).find(|&j| (j >= nt || !no_default.contains(&(j as u32 + 1))) && tys[j] != 4).expect("a free concrete type");
            tys.swap(k, j);
        }
    }
    tys.truncate(nt);
    let mut dyns: Vec<u64> = vec![0];
    while dyns.len() < nd {
        let d: u64 = if identity { dyns.len() as u64 } else { *NASTY_DYN.choose(rng).unwrap() };
        if !dyns.contains(&d) {
            dyns.push(d);
        }
    }
    (tys, dyns)
}

// ------------------------------------------------------------------ replay

#[derive(Deserialize)]
struct Step {
    call: CallSpec,
    out: Value,
    cells: Value,
    guards: Value,
    drops: Value,
}

fn replay(a: &Args) {
    let inp = a.get("in").expect("--in");
    let out = a.get("out").expect("--out");
    let seed: u64 = a.num("seed", 1);
    let variants: usize = a.num("variants", 1);
    let keep: usize = a.num("keep", 200);
    let max_bad: usize = a.num("max-bad", 200);
    let nt: usize = a.num("ntypes", 2);
    let nd: usize = a.num("ndyns", 2);
    let mut rng = StdRng::seed_from_u64(seed);
    let mut w = BufWriter::new(File::create(out).unwrap());
    let rd = BufReader::new(File::open(inp).unwrap());
    let (mut behaviours, mut runs, mut calls, mut agree, mut disagree, mut kept, mut blocks) = (0usize, 0usize, 0usize, 0usize, 0usize, 0usize, 0usize);
    let (mut pool_runs, mut unwinding_calls, mut closing) = (0usize, 0usize, 0usize);
    let contexts = !a.flag("plain");
    let mut samples: Vec<Value> = Vec::new();
    let mut bad_samples: Vec<Value> = Vec::new();
    let mut ops_seen = std::collections::BTreeMap::<String, usize>::new();
    for line in rd.lines() {
        let line = line.unwrap();
        if !line.starts_with("<<\"REPLAY\"") {
            continue;
        }
        let (Some(s), Some(e)) = (line.find(", \""), line.rfind("\">>")) else { continue };
        let inner: String = match serde_json::from_str(&line[s + 2..e + 1]) {
            Ok(x) => x,
            Err(_) => continue,
        };
        let hist: Vec<Step> = serde_json::from_str(&inner).expect("history JSON");
        behaviours += 1;
        for v in 0..variants {
            let mut nodef: Vec<u32> = Vec::new();
            for st in &hist {
                for m in &st.call.shape {
                    if (m.k == "read" || m.k == "write") && !nodef.contains(&m.t) {
                        nodef.push(m.t);
                    }
                }
            }
            let (tys, dyns) = variant(&mut rng, nt, nd, v == 0 && behaviours % 2 == 0, &nodef);
            // execution context (the spec does not know it: outcomes must not depend on it):
            // every other run on a rayon pool worker; a third of the &self calls from a
            // destructor that runs while the thread unwinds
            let pool = contexts && rng.gen_bool(0.5);
            let useed: u64 = rng.gen();
            let run = || {
                let mut urng = StdRng::seed_from_u64(useed);
                let mut d = Driver::new(tys.clone(), dyns.clone());
                d.seed_ctors(useed);
                let mut evs = vec![json!({"ev":"reset","src":"replay","nbeh":behaviours,"variant":v,"tymap":tys,"xdyn":dyns.iter().map(|x| x.to_string()).collect::<Vec<_>>(),"pool":pool})];
                let mut ok = true;
                let mut bad = None;
                for st in &hist {
                    let ev = d.do_call_in(&st.call, contexts && urng.gen_bool(0.33));
                    let same = ev["out"] == st.out
                        && ev["obs"]["cells"] == st.cells
                        && ev["obs"]["guards"] == st.guards
                        && ev["obs"]["drops"] == st.drops;
                    evs.push(ev);
                    if !same {
                        ok = false;
                        bad = Some(json!({"call": evs.last().unwrap(), "expected": {"out": st.out, "cells": st.cells, "guards": st.guards, "drops": st.drops}}));
                        break;
                    }
                    if d.abort.is_some() {
                        break;
                    }
                }
                if ok && d.abort.is_none() {
                    // closing releases (not in the TLC behaviour; judged by WorldTrace if they go wrong)
                    evs.extend(d.finish());
                }
                if let (true, Some(why)) = (ok, &d.abort) {
                    ok = false;
                    bad = Some(json!({"call": evs.last().unwrap(), "harness_stopped": why}));
                }
                (evs, ok, bad)
            };
            let (evs, ok, bad) = if pool { on_pool(run) } else { run() };
            runs += 1;
            if pool {
                pool_runs += 1;
            }
            for e in &evs[1..] {
                if e["closing"] == true {
                    closing += 1;
                    continue;
                }
                calls += 1;
                *ops_seen.entry(e["op"].as_str().unwrap().to_string()).or_default() += 1;
                if e["unwinding"] == true {
                    unwinding_calls += 1;
                }
            }
            if let Some(b) = bad {
                if bad_samples.len() < 3 {
                    bad_samples.push(b);
                }
            }
            if ok {
                agree += 1;
                if kept < keep && rng.gen_bool(0.02) {
                    kept += 1;
                    blocks += 1;
                    write_block(&mut w, &evs);
                }
                if samples.len() < 2 && hist.len() >= 4 && rng.gen_bool(0.01) {
                    samples.push(json!(hist.iter().map(|s| json!({"op": s.call.op, "targ": s.call.targ, "id": [s.call.ty, s.call.dy], "out": s.out["k"], "why": s.out["why"]})).collect::<Vec<_>>()));
                }
            } else {
                disagree += 1;
                if disagree <= max_bad {
                    blocks += 1;
                    write_block(&mut w, &evs);
                }
            }
        }
    }
    w.flush().unwrap();
    println!(
        "{}",
        json!({"behaviours":behaviours,"runs":runs,"calls":calls,"agree":agree,"disagree":disagree,"kept_agreeing":kept,
               "blocks_written":blocks,"runs_on_rayon_worker":pool_runs,"calls_issued_while_unwinding":unwinding_calls,"closing_releases":closing,"ops":ops_seen,"samples":samples,"disagree_samples":bad_samples})
    );
}

// ------------------------------------------------------------------ random single-thread histories

const FETCH_OPS: [&str; 6] = ["fetch", "try_fetch", "fetch_mut", "try_fetch_mut", "try_fetch_by_id", "try_fetch_mut_by_id"];
const KINDS: [&str; 4] = ["read", "write", "optread", "optwrite"];

fn rand_shape(rng: &mut StdRng, d: &Driver) -> Vec<ShapeM> {
    let n = if rng.gen_bool(0.25) { 1 } else { 2 };
    (0..n)
        .map(|_| {
            let t = rng.gen_range(1..=d.ntypes());
            // Box<dyn Resource> (no Default) only in the Option forms
            let k = if d.ci(t) == 4 { KINDS[rng.gen_range(2..4)] } else { *KINDS.choose(rng).unwrap() };
            ShapeM { k: k.to_string(), t }
        })
        .collect()
}

fn rand_call(rng: &mut StdRng, d: &Driver, mode: &mut u8) -> CallSpec {
    let nt = d.ntypes();
    let nd = d.ndyns();
    let ty = rng.gen_range(1..=nt);
    // by-id calls: mismatching type argument in a quarter of the cases
    let targ = if rng.gen_bool(0.25) { rng.gen_range(1..=nt) } else { ty };
    let dy = rng.gen_range(0..nd);
    let p = rng.gen_range(1..100);
    let mk = |op: &str, targ: u32, ty: u32, dy: u32, p: i64, gs: Vec<u32>, shape: Vec<ShapeM>| CallSpec { op: op.to_string(), targ, ty, dy, p, gs, shape };
    let live: Vec<u32> = d.table.keys().cloned().collect();
    // mode 0: building (mutating calls preferred while no guard lives), 1: borrowing
    // step-wise meta-table iteration: an iterator is an object of the history like a guard
    let its: Vec<u32> = d.iters.keys().cloned().collect();
    let meta_shape = |k: &str| -> Vec<ShapeM> { (1..=nt).map(|t| ShapeM { k: k.into(), t }).collect() };
    if !its.is_empty() && rng.gen_bool(0.4) {
        let it = *its.choose(rng).unwrap();
        return if rng.gen_bool(0.8) { mk("miter_next", 0, 0, 0, 0, vec![it], vec![]) } else { mk("miter_drop", 0, 0, 0, 0, vec![it], vec![]) };
    }
    if its.len() < 2 && live.len() < 6 && rng.gen_bool(if *mode == 1 { 0.05 } else { 0.02 }) {
        let it = (1..).find(|i| !its.contains(i)).unwrap();
        return if rng.gen_bool(0.5) {
            mk("miter_new", 0, 0, 0, 0, vec![it], meta_shape("optread"))
        } else {
            mk("miter_new_mut", 0, 0, 0, 0, vec![it], meta_shape("optwrite"))
        };
    }
    if live.is_empty() && its.is_empty() && (*mode == 0 || rng.gen_bool(0.15)) {
        if rng.gen_bool(0.12) {
            *mode = 1;
        }
        let sh = rand_shape(rng, d);
        return match rng.gen_range(0..100) {
            0..=17 => mk("insert", ty, ty, 0, p, vec![], vec![]),
            18..=37 => mk("insert_by_id", targ, ty, dy, p, vec![], vec![]),
            38..=43 => mk("remove", ty, ty, 0, 0, vec![], vec![]),
            44..=53 => mk("remove_by_id", targ, ty, dy, 0, vec![], vec![]),
            54..=59 => mk("or_insert", ty, ty, 0, p, vec![], vec![]),
            60..=65 => mk("or_insert_with", ty, ty, 0, p, vec![], vec![]),
            66..=70 => mk("get_mut", ty, ty, 0, if rng.gen_bool(0.5) { p } else { 0 }, vec![], vec![]),
            71..=77 => mk("get_mut_raw", ty, ty, dy, if rng.gen_bool(0.5) { p } else { 0 }, vec![], vec![]),
            78..=81 => mk("has_value", ty, ty, 0, 0, vec![], vec![]),
            82..=85 => mk("has_value_raw", ty, ty, dy, 0, vec![], vec![]),
            86..=90 => mk("setup", 0, 0, 0, 0, vec![], sh),
            91..=96 => mk("exec", 0, 0, 0, if rng.gen_bool(0.6) { p } else { 0 }, vec![], sh),
            _ => mk("exec_panic", 0, 0, 0, p, vec![], sh),
        };
    }
    if live.len() >= 7 || (!live.is_empty() && rng.gen_bool(if *mode == 1 { 0.3 } else { 0.7 })) {
        if rng.gen_bool(0.1) {
            *mode = 0;
        }
        let g = *live.choose(rng).unwrap();
        let e = &d.table[&g];
        return match rng.gen_range(0..100) {
            0..=44 => mk("drop", e.ty, e.ty, e.dy, 0, vec![g], vec![]),
            45..=59 if e.g.cloneable() => mk("clone", e.ty, e.ty, e.dy, 0, vec![g], vec![]),
            60..=74 if e.kind == 'w' => mk("write", e.ty, e.ty, e.dy, p, vec![g], vec![]),
            75..=89 => {
                let mut sel: Vec<u32> = live.iter().cloned().filter(|_| rng.gen_bool(0.5)).collect();
                if sel.is_empty() {
                    sel.push(g);
                }
                mk("unwind", 0, 0, 0, 0, sel, vec![])
            }
            _ => mk("drop", e.ty, e.ty, e.dy, 0, vec![g], vec![]),
        };
    }
    match rng.gen_range(0..100) {
        0..=69 => {
            let op = *FETCH_OPS.choose(rng).unwrap();
            if op.ends_with("by_id") {
                mk(op, targ, ty, dy, 0, vec![], vec![])
            } else {
                mk(op, ty, ty, 0, 0, vec![], vec![])
            }
        }
        70..=74 => mk("has_value", ty, ty, 0, 0, vec![], vec![]),
        75..=79 => mk("has_value_raw", ty, ty, dy, 0, vec![], vec![]),
        80..=91 => mk("system_data", 0, 0, 0, 0, vec![], rand_shape(rng, d)),
        92..=95 => mk("meta_iter", 0, 0, 0, 0, vec![], (1..=nt).map(|t| ShapeM { k: "optread".into(), t }).collect()),
        _ => mk("meta_iter_mut", 0, 0, 0, 0, vec![], (1..=nt).map(|t| ShapeM { k: "optwrite".into(), t }).collect()),
    }
}

fn random(a: &Args) {
    let out = a.get("out").expect("--out");
    let seed: u64 = a.num("seed", 1);
    let blocks: usize = a.num("blocks", 20);
    let len: usize = a.num("len", 300);
    let nt: usize = a.num("ntypes", 4);
    let nd: usize = a.num("ndyns", 3);
    let mut rng = StdRng::seed_from_u64(seed);
    let mut w = BufWriter::new(File::create(out).unwrap());
    let mut ops = std::collections::BTreeMap::<String, usize>::new();
    let mut outcomes = std::collections::BTreeMap::<String, usize>::new();
    let (mut calls, mut aborted, mut pool_blocks, mut unwinding_calls) = (0usize, 0usize, 0usize, 0usize);
    let contexts = !a.flag("plain");
    let mut samples = Vec::new();
    for b in 0..blocks {
        let (tys, dyns) = variant(&mut rng, nt, nd, b == 0, &[]);
        let pool = contexts && b % 2 == 1;
        let bseed: u64 = rng.gen();
        let run = || {
            let mut rng = StdRng::seed_from_u64(bseed);
            let mut d = Driver::new(tys.clone(), dyns.clone());
            d.seed_ctors(bseed);
            let mut evs = vec![json!({"ev":"reset","src":"random","nblock":b,"tymap":tys,"xdyn":dyns.iter().map(|x| x.to_string()).collect::<Vec<_>>(),"pool":pool})];
            let mut mode = 0u8;
            let mut follow: std::collections::VecDeque<CallSpec> = std::collections::VecDeque::new();
            for _ in 0..len {
                // after a removal: look at the siblings of the removed id (same type, other dynamic ids;
                // other types, same dynamic id) - they must be exactly as present as before
                let mut c = match follow.pop_front() {
                    Some(c) => c,
                    None => rand_call(&mut rng, &d, &mut mode),
                };
                if c.op.starts_with("miter_new") && rng.gen_bool(0.5) {
                    // directed: step the iterator while fetching resources it has not yielded yet
                    let it = c.gs[0];
                    let nxt = CallSpec { op: "miter_next".into(), gs: vec![it], ..Default::default() };
                    for _ in 0..rng.gen_range(1..=3) {
                        follow.push_back(nxt.clone());
                        let t = rng.gen_range(1..=nt as u32);
                        let op = *["try_fetch", "try_fetch_mut", "try_fetch_by_id", "fetch"].choose(&mut rng).unwrap();
                        follow.push_back(CallSpec { op: op.into(), targ: t, ty: t, dy: 0, ..Default::default() });
                    }
                    follow.push_back(nxt.clone());
                    follow.push_back(nxt);
                }
                if (c.op == "remove" || c.op == "remove_by_id") && c.targ == c.ty.max(if c.op == "remove" { c.targ } else { 0 }) {
                    let (ty, dy) = if c.op == "remove" { (c.targ, 0) } else { (c.ty, c.dy) };
                    let mut sib: Vec<(u32, u32)> = (0..nd as u32).filter(|&x| x != dy).map(|x| (ty, x)).collect();
                    sib.extend((1..=nt as u32).filter(|&t| t != ty).map(|t| (t, dy)));
                    sib.shuffle(&mut rng);
                    // every sibling's presence is asked for (a removal must not touch what a presence query says
                    // about ANY other slot), two of them are fetched as well
                    for &(t, x) in &sib {
                        follow.push_back(CallSpec { op: "has_value_raw".into(), targ: t, ty: t, dy: x, ..Default::default() });
                    }
                    for (t, x) in sib.into_iter().take(2) {
                        let op = *["try_fetch_by_id", "try_fetch_mut_by_id", "has_value_raw"].choose(&mut rng).unwrap();
                        follow.push_back(CallSpec { op: op.into(), targ: t, ty: t, dy: x, ..Default::default() });
                    }
                }
                if c.op.starts_with("meta_iter") {
                    // the table's registration order is the abstract type order
                    c.shape = (1..=nt as u32).map(|t| ShapeM { k: if c.op == "meta_iter" { "optread".into() } else { "optwrite".into() }, t }).collect();
                }
                let ev = d.do_call_in(&c, contexts && rng.gen_bool(0.3));
                evs.push(ev);
                if let Some(why) = &d.abort {
                    evs.push(json!({"ev":"abort","why":why}));
                    break;
                }
            }
            if d.abort.is_none() {
                evs.extend(d.finish());
                if let Some(why) = &d.abort {
                    evs.push(json!({"ev":"abort","why":why}));
                }
            }
            evs
        };
        let evs = if pool { on_pool(run) } else { run() };
        if pool {
            pool_blocks += 1;
        }
        for ev in &evs[1..] {
            if ev["ev"] == "abort" {
                aborted += 1;
                continue;
            }
            calls += 1;
            if ev["unwinding"] == true {
                unwinding_calls += 1;
            }
            *ops.entry(ev["op"].as_str().unwrap().to_string()).or_default() += 1;
            *outcomes.entry(format!("{}{}{}", ev["out"]["k"].as_str().unwrap(), if ev["out"]["why"] == "" { "" } else { ":" }, ev["out"]["why"].as_str().unwrap())).or_default() += 1;
            if samples.len() < 6 && b == 0 {
                samples.push(json!({"op": ev["op"], "targ": ev["targ"], "id": [ev["ty"], ev["dy"]], "out": ev["out"]["k"], "why": ev["out"]["why"], "unwinding": ev["unwinding"]}));
            }
        }
        write_block(&mut w, &evs);
    }
    w.flush().unwrap();
    println!("{}", json!({"blocks":blocks,"calls":calls,"aborted_blocks":aborted,"blocks_on_rayon_worker":pool_blocks,"calls_issued_while_unwinding":unwinding_calls,"ops":ops,"outcomes":outcomes,"samples":samples}));
}

// ------------------------------------------------------------------ multi-thread histories

/// Stall watchdog.  Every World operation is non-blocking (a few atomic instructions), so a
/// thread that stays inside ONE library call for `--stall-secs` (default 30 s, far beyond any
/// scheduling delay) is an operation that neither returns nor panics: the watchdog appends a
/// self-contained block with a `stall` event to the trace (WorldTrace: no action of World.tla
/// has such an outcome), prints the summary and ends the process - the stuck thread cannot be
/// joined.
#[repr(align(64))]
struct Slot {
    cur: std::sync::atomic::AtomicU8,
    prog: std::sync::atomic::AtomicU64,
}
#[allow(clippy::declare_interior_mutable_const)]
const SLOT0: Slot = Slot { cur: std::sync::atomic::AtomicU8::new(0), prog: std::sync::atomic::AtomicU64::new(0) };
static SLOTS: [Slot; 32] = [SLOT0; 32];
static ACTIVE: std::sync::atomic::AtomicBool = std::sync::atomic::AtomicBool::new(false);
const OPCODES: [&str; 14] = ["", "fetch", "try_fetch", "fetch_mut", "try_fetch_mut", "try_fetch_by_id", "try_fetch_mut_by_id", "sd_optread",
    "sd_optwrite", "sd_read", "drop", "clone", "meta_iter", "shared operation of a read storm"];
fn enter(t: usize, op: &str) {
    let code = OPCODES.iter().position(|x| *x == op).unwrap_or(13) as u8;
    SLOTS[t % 32].cur.store(code.max(1), Ordering::Relaxed);
}
fn leave(t: usize) {
    let s = &SLOTS[t % 32];
    s.cur.store(0, Ordering::Relaxed);
    s.prog.fetch_add(1, Ordering::Relaxed);
}
fn watched<R>(t: usize, op: &str, f: impl FnOnce() -> R) -> R {
    enter(t, op);
    let r = f();
    leave(t);
    r
}
fn watchdog(out: String, secs: u64) {
    let mut last: Vec<(u64, std::time::Instant)> = (0..32).map(|_| (0, std::time::Instant::now())).collect();
    loop {
        std::thread::sleep(std::time::Duration::from_millis(250));
        let active = ACTIVE.load(Ordering::SeqCst);
        let mut stalled = Vec::new();
        for (i, s) in SLOTS.iter().enumerate() {
            let (cur, prog) = (s.cur.load(Ordering::Relaxed), s.prog.load(Ordering::Relaxed));
            if !active || cur == 0 || prog != last[i].0 {
                last[i] = (prog, std::time::Instant::now());
            } else if last[i].1.elapsed().as_secs() >= secs {
                stalled.push(json!({"t": i, "op": OPCODES[(cur as usize).min(13)]}));
            }
        }
        if !stalled.is_empty() {
            use std::io::Write as _;
            if let Ok(mut f) = std::fs::OpenOptions::new().append(true).create(true).open(&out) {
                let _ = writeln!(f, "{}", json!({"ev":"reset","src":"stall"}));
                let _ = writeln!(f, "{}", json!({"ev":"stall","secs":secs,"pending":stalled}));
            }
            println!("{}", json!({"stalled": true, "secs": secs, "pending": stalled}));
            std::process::exit(0);
        }
    }
}

struct Log(Mutex<Vec<Value>>);
impl Log {
    fn push(&self, v: Value) {
        self.0.lock().unwrap().push(v);
    }
}

fn threads(a: &Args) {
    let out = a.get("out").expect("--out");
    let seed: u64 = a.num("seed", 1);
    let blocks: usize = a.num("blocks", 6);
    let rounds: usize = a.num("rounds", 6);
    let nops: usize = a.num("ops", 12);
    let nt: usize = a.num("ntypes", 2);
    let nd: usize = a.num("ndyns", 2);
    let maxthreads: usize = a.num("maxthreads", 8);
    let mut rng = StdRng::seed_from_u64(seed);
    let mut w = BufWriter::new(File::create(out).unwrap());
    {
        let (outp, secs) = (out.to_string(), a.num("stall-secs", 30u64));
        std::thread::spawn(move || watchdog(outp, secs));
    }
    let (mut tcalls, mut syncs, mut aborted, mut max_pending, mut overlapped) = (0usize, 0usize, 0usize, 0usize, 0usize);
    let mut rayon_rounds = 0usize;
    let mut outcomes = std::collections::BTreeMap::<String, usize>::new();
    let mut thread_counts = Vec::new();
    let mut samples = Vec::new();
    for b in 0..blocks {
        let (tys, dyns) = variant(&mut rng, nt, nd, b == 0, &[]);
        let mut d = Driver::new(tys.clone(), dyns.clone());
        let mut evs = vec![json!({"ev":"reset","src":"threads","nblock":b,"tymap":tys,"xdyn":dyns.iter().map(|x| x.to_string()).collect::<Vec<_>>()})];
        // populate (single-threaded, fully observed); one id stays absent so that None occurs
        let absent = (rng.gen_range(1..=nt as u32), rng.gen_range(0..nd as u32));
        for ty in 1..=nt as u32 {
            for dy in 0..nd as u32 {
                if (ty, dy) == absent {
                    continue;
                }
                evs.push(d.do_call(&CallSpec { op: "insert_by_id".into(), targ: ty, ty, dy, p: rng.gen_range(1..100), ..Default::default() }));
            }
        }
        let k = rng.gen_range(2..=maxthreads.max(2));
        thread_counts.push(k);
        let gid = AtomicU32::new(1000);
        'rounds: for _ in 0..rounds {
            // hand the live guards to the threads
            let mut held: Vec<Vec<(u32, SendEntry)>> = (0..k).map(|_| Vec::new()).collect();
            let live: Vec<u32> = d.table.keys().cloned().collect();
            for g in live {
                let e = d.table.remove(&g).unwrap();
                held[rng.gen_range(0..k)].push((g, SendEntry(e)));
            }
            let log = Log(Mutex::new(vec![json!({"ev":"par","threads":k})]));
            let world = d.w();
            let seeds: Vec<u64> = (0..k).map(|_| rng.gen()).collect();
            // ids through seed-chosen constructors (new / from_type_id ...): they all denote the same cells
            let rids: Vec<Vec<shred::ResourceId>> = (1..=nt as u32).map(|ty| (0..nd as u32).map(|dy| d.rid_any(ty, dy)).collect()).collect();
            let dref = &d;
            let start = std::sync::Barrier::new(k);
            let cis: Vec<usize> = (1..=nt as u32).map(|ty| dref.ci(ty)).collect();
            // every other block runs its "threads" as tasks on the workers of a rayon pool
            let on_rayon = cfg!(feature = "parallel") && b % 2 == 1;
            ACTIVE.store(true, Ordering::SeqCst);
            let back: Vec<Vec<(u32, SendEntry)>> = if on_rayon {
                run_on_rayon(k, held, &log, &gid, &seeds, &start, nops, world, &rids, &cis)
            } else {
                std::thread::scope(|s| {
                    let hs: Vec<_> = held
                        .into_iter()
                        .enumerate()
                        .map(|(t, mine)| {
                            let (log, gid, seed, start) = (&log, &gid, seeds[t], &start);
                            let (rids, cis) = (rids.clone(), cis.clone());
                            s.spawn(move || {
                                start.wait();
                                thread_body(t as u32 + 1, world, mine, log, gid, seed, nops, rids, cis)
                            })
                        })
                        .collect();
                    hs.into_iter().map(|h| h.join().expect("harness thread")).collect()
                })
            };
            ACTIVE.store(false, Ordering::SeqCst);
            if on_rayon {
                rayon_rounds += 1;
            }
            for v in back {
                for (g, e) in v {
                    d.table.insert(g, e.0);
                }
            }
            let mut l = log.0.into_inner().unwrap();
            let mut pend = 0usize;
            for e in &l {
                if e["ev"] == "tcall" {
                    pend += 1;
                    max_pending = max_pending.max(pend);
                    if pend > 1 {
                        overlapped += 1;
                    }
                }
                if e["ev"] == "tret" {
                    pend -= 1;
                    tcalls += 1;
                    *outcomes.entry(format!("{}{}{}", e["k"].as_str().unwrap(), if e["why"] == "" { "" } else { ":" }, e["why"].as_str().unwrap())).or_default() += 1;
                }
            }
            if samples.len() < 1 {
                samples.push(json!(l.iter().take(12).cloned().collect::<Vec<_>>()));
            }
            evs.append(&mut l);
            // quiescent: only this thread runs now
            evs.push(json!({"ev":"sync","obs": d.observe()}));
            syncs += 1;
            if let Some(why) = &d.abort {
                evs.push(json!({"ev":"abort","why":why}));
                aborted += 1;
                break 'rounds;
            }
            // between rounds the main thread sometimes releases guards itself
            let live: Vec<u32> = d.table.keys().cloned().collect();
            for g in live {
                if rng.gen_bool(0.3) {
                    let e = &d.table[&g];
                    let c = CallSpec { op: "drop".into(), targ: e.ty, ty: e.ty, dy: e.dy, gs: vec![g], ..Default::default() };
                    evs.push(d.do_call(&c));
                }
            }
        }
        write_block(&mut w, &evs);
        w.flush().unwrap();
    }
    // storm blocks: violators produce thousands of caught borrow violations on one resource
    // while bystanders do only legal fetches of DISJOINT resources
    let storms: usize = a.num("storms", 0);
    let viol: usize = a.num("viol", 30000);
    let keep: usize = a.num("keep", 30);
    let mut storm_stats = Vec::new();
    for b in 0..storms {
        let (evs, st) = storm_block(&mut rng, blocks + b, viol, keep);
        write_block(&mut w, &evs);
        w.flush().unwrap();
        storm_stats.push(st);
    }
    // read storms: several threads hammer ONLY shared operations on the same resources
    let rstorms: usize = a.num("rstorms", 0);
    let rstorm_ms: u64 = a.num("rstorm-ms", 30);
    let mut rstorm_stats = Vec::new();
    for b in 0..rstorms {
        let (evs, st) = read_storm_block(&mut rng, blocks + storms + b, rstorm_ms, maxthreads);
        write_block(&mut w, &evs);
        w.flush().unwrap();
        rstorm_stats.push(st);
    }
    w.flush().unwrap();
    println!(
        "{}",
        json!({"read_storm_blocks":rstorm_stats,"storm_blocks":storm_stats,"blocks":blocks,"thread_calls":tcalls,"syncs":syncs,"aborted_blocks":aborted,"threads_per_block":thread_counts,"max_pending_calls":max_pending,"rounds_on_rayon_workers":rayon_rounds,"calls_overlapping_another":overlapped,
               "outcomes":outcomes,"samples":samples})
    );
}

#[cfg(feature = "parallel")]
#[allow(clippy::too_many_arguments)]
fn run_on_rayon(
    k: usize,
    held: Vec<Vec<(u32, SendEntry)>>,
    log: &Log,
    gid: &AtomicU32,
    seeds: &[u64],
    start: &std::sync::Barrier,
    nops: usize,
    world: &'static shred::World,
    rids: &[Vec<shred::ResourceId>],
    cis: &[usize],
) -> Vec<Vec<(u32, SendEntry)>> {
    // k workers for k tasks that all wait at the start barrier
    let pool = rayon::ThreadPoolBuilder::new().num_threads(k).build().unwrap();
    let slots: Vec<Mutex<Option<Vec<(u32, SendEntry)>>>> = (0..k).map(|_| Mutex::new(None)).collect();
    pool.scope(|s| {
        for (t, mine) in held.into_iter().enumerate() {
            let slots = &slots;
            let (rids, cis, seed) = (rids.to_vec(), cis.to_vec(), seeds[t]);
            s.spawn(move |_| {
                start.wait();
                let r = thread_body(t as u32 + 1, world, mine, log, gid, seed, nops, rids, cis);
                *slots[t].lock().unwrap() = Some(r);
            });
        }
    });
    slots.into_iter().map(|m| m.into_inner().unwrap().expect("harness task")).collect()
}
#[cfg(not(feature = "parallel"))]
#[allow(clippy::too_many_arguments)]
fn run_on_rayon(
    _: usize,
    _: Vec<Vec<(u32, SendEntry)>>,
    _: &Log,
    _: &AtomicU32,
    _: &[u64],
    _: &std::sync::Barrier,
    _: usize,
    _: &'static shred::World,
    _: &[Vec<shred::ResourceId>],
    _: &[usize],
) -> Vec<Vec<(u32, SendEntry)>> {
    unreachable!()
}

#[allow(clippy::too_many_arguments)]
fn thread_body(
    t: u32,
    world: &'static shred::World,
    mut mine: Vec<(u32, SendEntry)>,
    log: &Log,
    gid: &AtomicU32,
    seed: u64,
    nops: usize,
    rids: Vec<Vec<shred::ResourceId>>,
    cis: Vec<usize>,
) -> Vec<(u32, SendEntry)> {
    use shredh::worldx::thread_fetch;
    let mut rng = StdRng::seed_from_u64(seed);
    let nt = rids.len() as u32;
    let nd = rids[0].len() as u32;
    for _ in 0..nops {
        let r = rng.gen_range(0..100);
        if !mine.is_empty() && (r < 35 || mine.len() >= 3) {
            // release one of this thread's guards
            let (g, e) = mine.swap_remove(rng.gen_range(0..mine.len()));
            log.push(json!({"ev":"tcall","t":t,"op":"drop","targ":e.0.ty,"ty":e.0.ty,"dy":e.0.dy,"g":g}));
            let r = watched(t as usize, "drop", || std::panic::catch_unwind(std::panic::AssertUnwindSafe(move || drop(e))));
            let (k, why) = match r {
                Ok(()) => ("unit", ""),
                Err(e) => ("panic", panic_why(&*e)),
            };
            log.push(json!({"ev":"tret","t":t,"k":k,"why":why,"g":0}));
        } else if !mine.is_empty() && r < 45 {
            // look at the canary through a held guard
            let (g, e) = &mine[rng.gen_range(0..mine.len())];
            let seen = e.0.g.canary();
            log.push(json!({"ev":"canary","t":t,"g":g,"seen":seen}));
        } else if !mine.is_empty() && r < 52 && mine.iter().any(|(_, e)| e.0.g.cloneable()) {
            let (g, e) = mine.iter().find(|(_, e)| e.0.g.cloneable()).unwrap();
            let (g, ty, dy) = (*g, e.0.ty, e.0.dy);
            log.push(json!({"ev":"tcall","t":t,"op":"clone","targ":ty,"ty":ty,"dy":dy,"g":g}));
            let r = watched(t as usize, "clone", || std::panic::catch_unwind(std::panic::AssertUnwindSafe(|| e.0.g.dup())));
            match r {
                Ok(Some(ng)) => {
                    let n = gid.fetch_add(1, Ordering::SeqCst);
                    let seen = ng.canary();
                    log.push(json!({"ev":"tret","t":t,"k":"guard","why":"","g":n,"cl":ng.cloneable()}));
                    log.push(json!({"ev":"canary","t":t,"g":n,"seen":seen}));
                    mine.push((n, SendEntry(GEntry { g: ng, ty, dy, kind: 'r' })));
                }
                Ok(None) => log.push(json!({"ev":"tret","t":t,"k":"none","why":"","g":0})),
                Err(e) => log.push(json!({"ev":"tret","t":t,"k":"panic","why":panic_why(&*e),"g":0})),
            }
        } else {
            let op = *FETCH_OPS.choose(&mut rng).unwrap();
            let ty = rng.gen_range(1..=nt);
            let dy = if op.ends_with("by_id") { rng.gen_range(0..nd) } else { 0 };
            let kind = if op.contains("mut") { 'w' } else { 'r' };
            // try_fetch / try_fetch_mut are issued half of the time as system_data::<Option<Read/Write<T>>>()
            let real = match op {
                "try_fetch" if rng.gen_bool(0.5) => "sd_optread",
                "try_fetch_mut" if rng.gen_bool(0.5) => "sd_optwrite",
                x => x,
            };
            log.push(json!({"ev":"tcall","t":t,"op":op,"targ":ty,"ty":ty,"dy":dy,"g":0,"via":real,"rayon_worker":shredh::worldx::on_rayon_worker()}));
            let id = rids[ty as usize - 1][dy as usize].clone();
            let r = watched(t as usize, real, || std::panic::catch_unwind(std::panic::AssertUnwindSafe(|| thread_fetch(world, real, cis[ty as usize - 1], id))));
            match r {
                Ok(Some(mut g)) => {
                    // canary protocol: an exclusive holder makes the counter odd while it "writes"
                    let seen = g.canary();
                    if kind == 'w' {
                        g.set_canary(seen.wrapping_add(1));
                        for _ in 0..rng.gen_range(0..3) {
                            std::thread::yield_now();
                        }
                        g.set_canary(seen.wrapping_add(2));
                    }
                    let n = gid.fetch_add(1, Ordering::SeqCst);
                    log.push(json!({"ev":"tret","t":t,"k":"guard","why":"","g":n,"cl":g.cloneable()}));
                    log.push(json!({"ev":"canary","t":t,"g":n,"seen":seen}));
                    mine.push((n, SendEntry(GEntry { g, ty, dy, kind })));
                }
                Ok(None) => log.push(json!({"ev":"tret","t":t,"k":"none","why":"","g":0})),
                Err(e) => log.push(json!({"ev":"tret","t":t,"k":"panic","why":panic_why(&*e),"g":0})),
            }
        }
        if rng.gen_bool(0.3) {
            std::thread::yield_now();
        }
    }
    mine
}

// ------------------------------------------------------------------ storm blocks

/// compact event of a storm thread; `seq` comes from one global SeqCst counter, taken BEFORE
/// the operation for a call and AFTER it for a return, so the order of sequence numbers is
/// consistent with real time exactly like a log mutex would be
#[derive(Clone)]
struct SEv {
    seq: u64,
    call: bool,
    op: &'static str,
    ty: u32,
    dy: u32,
    g: u32,
    k: &'static str,
    why: &'static str,
    cl: bool,
}

struct StormCtl {
    seq: std::sync::atomic::AtomicU64,
    done: std::sync::atomic::AtomicBool,
    anomalies: std::sync::atomic::AtomicUsize,
}

struct StormThread<'a> {
    t: u32,
    ctl: &'a StormCtl,
    world: &'static shred::World,
    rids: &'a [Vec<shred::ResourceId>],
    cis: &'a [usize],
    kept: Vec<SEv>,
    cycle: Vec<SEv>,
    next_g: u32,
    ops: usize,
}

impl StormThread<'_> {
    fn seq(&self) -> u64 {
        self.ctl.seq.fetch_add(1, Ordering::SeqCst)
    }
    /// one fetch: call logged before, return after; returns the guard (with its id) if granted
    fn fetch(&mut self, op: &'static str, real: &'static str, ty: u32, dy: u32) -> (Option<(u32, Box<dyn shredh::worldx::AnyGuard>)>, &'static str, &'static str) {
        let s0 = self.seq();
        self.cycle.push(SEv { seq: s0, call: true, op, ty, dy, g: 0, k: "", why: "", cl: false });
        let id = self.rids[ty as usize - 1][dy as usize].clone();
        let (world, ci) = (self.world, self.cis[ty as usize - 1]);
        let r = watched(self.t as usize, real, || std::panic::catch_unwind(std::panic::AssertUnwindSafe(|| shredh::worldx::thread_fetch(world, real, ci, id))));
        self.ops += 1;
        let s1 = self.seq();
        match r {
            Ok(Some(g)) => {
                self.next_g += 1;
                let gid = self.t * 1_000_000 + self.next_g;
                self.cycle.push(SEv { seq: s1, call: false, op, ty, dy, g: gid, k: "guard", why: "", cl: g.cloneable() });
                (Some((gid, g)), "guard", "")
            }
            Ok(None) => {
                self.cycle.push(SEv { seq: s1, call: false, op, ty, dy, g: 0, k: "none", why: "", cl: false });
                (None, "none", "")
            }
            Err(e) => {
                let why = panic_why(&*e);
                self.cycle.push(SEv { seq: s1, call: false, op, ty, dy, g: 0, k: "panic", why, cl: false });
                (None, "panic", why)
            }
        }
    }
    fn release(&mut self, gid: u32, g: Box<dyn shredh::worldx::AnyGuard>, ty: u32, dy: u32) {
        let s0 = self.seq();
        self.cycle.push(SEv { seq: s0, call: true, op: "drop", ty, dy, g: gid, k: "", why: "", cl: false });
        let r = watched(self.t as usize, "drop", || std::panic::catch_unwind(std::panic::AssertUnwindSafe(move || drop(g))));
        let s1 = self.seq();
        let (k, why) = match r {
            Ok(()) => ("unit", ""),
            Err(e) => ("panic", panic_why(&*e)),
        };
        self.cycle.push(SEv { seq: s1, call: false, op: "drop", ty, dy, g: 0, k, why, cl: false });
    }
    /// end of a cycle (all guards of the cycle released, or a pure failed attempt): keep or forget
    fn end_cycle(&mut self, keep: bool) {
        if keep {
            self.kept.append(&mut self.cycle);
        } else {
            self.cycle.clear();
        }
    }
}

/// One storm block.  Compression: only whole CYCLES are dropped from the log - a refused
/// attempt of a violator (no effect), or an acquire..release cycle of a bystander on resources
/// that no other thread uses incompatibly - so what remains is still a history of complete
/// operations whose outcomes do not depend on the omitted ones (on a correct World).  Every
/// cycle with an outcome other than the expected one is kept.
fn storm_block(rng: &mut StdRng, b: usize, viol: usize, keep: usize) -> (Vec<Value>, Value) {
    use std::sync::atomic::{AtomicBool, AtomicU64, AtomicUsize};
    let (nt, nd) = (2usize, 2usize);
    let (tys, dyns) = variant(rng, nt, nd, false, &[]);
    let mut d = Driver::new(tys.clone(), dyns.clone());
    let mut evs = vec![json!({"ev":"reset","src":"storm","nblock":b,"tymap":tys,"xdyn":dyns.iter().map(|x| x.to_string()).collect::<Vec<_>>()})];
    for ty in 1..=nt as u32 {
        for dy in 0..nd as u32 {
            evs.push(d.do_call(&CallSpec { op: "insert_by_id".into(), targ: ty, ty, dy, p: rng.gen_range(1..100), ..Default::default() }));
        }
    }
    // X = (1,0) is the hot resource; (2,0) is only ever borrowed shared; (1,1) and (2,1) are each
    // borrowed exclusively by ONE bystander only
    let excl_holder = rng.gen_bool(0.4); // one violator holding X exclusively, else 1-2 holding it shared
    let nviol = if excl_holder { 1 } else { rng.gen_range(1..=2usize) };
    let nby = rng.gen_range(3..=4usize);
    let on_rayon = cfg!(feature = "parallel") && rng.gen_bool(0.5);
    let ctl = StormCtl { seq: AtomicU64::new(0), done: AtomicBool::new(false), anomalies: AtomicUsize::new(0) };
    let rids: Vec<Vec<shred::ResourceId>> = (1..=nt as u32).map(|ty| (0..nd as u32).map(|dy| d.rid_any(ty, dy)).collect()).collect();
    let cis: Vec<usize> = (1..=nt as u32).map(|ty| d.ci(ty)).collect();
    let world = d.w();
    let k = nviol + nby;
    let start = std::sync::Barrier::new(k);
    let seeds: Vec<u64> = (0..k).map(|_| rng.gen()).collect();
    let t0 = std::time::Instant::now();
    let body = |t: usize| -> (Vec<SEv>, usize) {
        let mut me = StormThread { t: t as u32 + 1, ctl: &ctl, world, rids: &rids, cis: &cis, kept: Vec::new(), cycle: Vec::new(), next_g: 0, ops: 0 };
        let mut rng = StdRng::seed_from_u64(seeds[t]);
        if t < nviol {
            // ---- violator
            let hold = if excl_holder { "fetch_mut" } else { "fetch" };
            let (held, _, _) = me.fetch(hold, hold, 1, 0);
            me.end_cycle(true);
            start.wait();
            let attempts: &[&'static str] = if excl_holder { &["fetch", "try_fetch", "fetch_mut", "try_fetch_mut"] } else { &["fetch_mut", "try_fetch_mut"] };
            for i in 0..viol {
                // bounded in time as well: a refused fetch normally takes well under a microsecond
                if ctl.anomalies.load(Ordering::Relaxed) >= 8 || (i % 64 == 0 && t0.elapsed().as_millis() > 1500) {
                    break;
                }
                let op = attempts[rng.gen_range(0..attempts.len())];
                let real = match op {
                    "try_fetch" if i % 2 == 1 => "sd_optread",
                    "try_fetch_mut" if i % 2 == 1 => "sd_optwrite",
                    x => x,
                };
                let (g, k, why) = me.fetch(op, real, 1, 0);
                let expected = held.is_none() || (k == "panic" && why == "borrow");
                if let Some((gid, g)) = g {
                    me.release(gid, g, 1, 0);
                }
                if !expected {
                    ctl.anomalies.fetch_add(1, Ordering::Relaxed);
                }
                me.end_cycle(!expected || i < keep);
            }
            if t == 0 {
                ctl.done.store(true, Ordering::SeqCst);
            }
            if let Some((gid, g)) = held {
                me.release(gid, g, 1, 0);
                me.end_cycle(true);
            }
        } else {
            // ---- bystander: only fetches that conflict with nothing any thread ever holds
            let mine: Option<(u32, u32)> = match t - nviol {
                0 => Some((1, 1)),
                1 => Some((2, 1)),
                _ => None,
            };
            start.wait();
            let mut i = 0usize;
            while !ctl.done.load(Ordering::SeqCst) {
                let mut ok = true;
                let mut got: Vec<(u32, Box<dyn shredh::worldx::AnyGuard>, u32, u32)> = Vec::new();
                let shared_ops: [(&'static str, &'static str, u32); 4] =
                    [("fetch", "fetch", 0), ("try_fetch", "try_fetch", 0), ("try_fetch", "sd_optread", 0), ("try_fetch_by_id", "try_fetch_by_id", 0)];
                for _ in 0..2 {
                    let (op, real, dy) = shared_ops[rng.gen_range(0..4)];
                    let (g, k, _) = me.fetch(op, real, 2, dy);
                    ok &= k == "guard";
                    if let Some((gid, g)) = g {
                        got.push((gid, g, 2, dy));
                    }
                }
                if let Some((ty, dy)) = mine {
                    let (g, k, _) = me.fetch("try_fetch_mut_by_id", "try_fetch_mut_by_id", ty, dy);
                    ok &= k == "guard";
                    if let Some((gid, g)) = g {
                        got.push((gid, g, ty, dy));
                    }
                }
                while let Some((gid, g, ty, dy)) = got.pop() {
                    me.release(gid, g, ty, dy);
                }
                if !ok {
                    ctl.anomalies.fetch_add(1, Ordering::Relaxed);
                }
                me.end_cycle(!ok || i < keep);
                i += 1;
            }
        }
        (me.kept, me.ops)
    };
    ACTIVE.store(true, Ordering::SeqCst);
    let results: Vec<(Vec<SEv>, usize)> = if on_rayon {
        storm_on_rayon(k, &body)
    } else {
        std::thread::scope(|s| {
            let hs: Vec<_> = (0..k).map(|t| { let body = &body; s.spawn(move || body(t)) }).collect();
            hs.into_iter().map(|h| h.join().expect("storm thread")).collect()
        })
    };
    ACTIVE.store(false, Ordering::SeqCst);
    let wall = t0.elapsed().as_secs_f64();
    let mut all: Vec<(u32, SEv)> = Vec::new();
    let mut ops = 0usize;
    for (t, (kept, n)) in results.into_iter().enumerate() {
        ops += n;
        all.extend(kept.into_iter().map(|e| (t as u32 + 1, e)));
    }
    all.sort_by_key(|(_, e)| e.seq);
    evs.push(json!({"ev":"par","threads":k}));
    let logged = all.len();
    for (t, e) in all {
        if e.call {
            evs.push(json!({"ev":"tcall","t":t,"op":e.op,"targ":e.ty,"ty":e.ty,"dy":e.dy,"g":e.g}));
        } else {
            evs.push(json!({"ev":"tret","t":t,"k":e.k,"why":e.why,"g":e.g,"cl":e.cl}));
        }
    }
    evs.push(json!({"ev":"sync","obs": d.observe()}));
    if let Some(why) = &d.abort {
        evs.push(json!({"ev":"abort","why":why}));
    }
    let st = json!({"violators":nviol,"violator_holds":if excl_holder {"exclusive"} else {"shared"},"bystanders":nby,"rayon":on_rayon,
                    "operations":ops,"events_logged":logged,"unexpected_outcomes":ctl.anomalies.load(Ordering::Relaxed),"wall_s":wall});
    (evs, st)
}

#[cfg(feature = "parallel")]
fn storm_on_rayon(k: usize, body: &(dyn Fn(usize) -> (Vec<SEv>, usize) + Sync)) -> Vec<(Vec<SEv>, usize)> {
    let pool = rayon::ThreadPoolBuilder::new().num_threads(k).build().unwrap();
    let slots: Vec<Mutex<Option<(Vec<SEv>, usize)>>> = (0..k).map(|_| Mutex::new(None)).collect();
    pool.scope(|s| {
        for t in 0..k {
            let slots = &slots;
            s.spawn(move |_| {
                *slots[t].lock().unwrap() = Some(body(t));
            });
        }
    });
    slots.into_iter().map(|m| m.into_inner().unwrap().expect("storm task")).collect()
}
#[cfg(not(feature = "parallel"))]
fn storm_on_rayon(_: usize, _: &(dyn Fn(usize) -> (Vec<SEv>, usize) + Sync)) -> Vec<(Vec<SEv>, usize)> {
    unreachable!()
}

// ------------------------------------------------------------------ read storms

const READ_KINDS: [&str; 8] = ["fetch", "try_fetch", "try_fetch_by_id", "read", "opt_read", "clone", "meta_iter", "drop"];

/// One read-storm block: `k` threads issue only SHARED operations (typed and by-id fetches, `Read`
/// and `Option<Read>` system data, `Fetch::clone`, `MetaTable::iter`) on the same two resources
/// for a few tens of milliseconds; on resource A every thread keeps up to three guards alive
/// across its calls, resource B is fetched and released at once (so that it is idle again and
/// again).  No exclusive guard exists anywhere, both resources are present: the model grants
/// every one of these operations whatever the interleaving, so the block is logged as ONE
/// `rstorm` event with the number of operations and of failures (panic / None) per kind.
fn read_storm_block(rng: &mut StdRng, b: usize, ms: u64, maxthreads: usize) -> (Vec<Value>, Value) {
    use std::sync::atomic::AtomicBool;
    let (nt, nd) = (2usize, 2usize);
    // Read<T> needs T: Default: no Box<dyn Resource> here
    let (tys, dyns) = variant(rng, nt, nd, false, &[1, 2]);
    let mut d = Driver::new(tys.clone(), dyns.clone());
    d.seed_ctors(rng.gen());
    let mut evs = vec![json!({"ev":"reset","src":"read-storm","nblock":b,"tymap":tys,"xdyn":dyns.iter().map(|x| x.to_string()).collect::<Vec<_>>()})];
    for ty in 1..=nt as u32 {
        for dy in 0..nd as u32 {
            evs.push(d.do_call(&CallSpec { op: "insert_by_id".into(), targ: ty, ty, dy, p: rng.gen_range(1..100), ..Default::default() }));
        }
    }
    let k = rng.gen_range(4..=maxthreads.clamp(4, 8));
    let on_rayon = cfg!(feature = "parallel") && rng.gen_bool(0.5);
    // resource A = (1,0): guards are held across calls; resource B = (2,0): fetched and released at once
    let rid_a: Vec<shred::ResourceId> = (0..k).map(|_| d.rid_any(1, 0)).collect();
    let rid_b: Vec<shred::ResourceId> = (0..k).map(|_| d.rid_any(2, 0)).collect();
    let (ci_a, ci_b) = (d.ci(1), d.ci(2));
    let (world, meta) = (d.w(), d.meta());
    let stop = AtomicBool::new(false);
    let start = std::sync::Barrier::new(k + 1);
    let seeds: Vec<u64> = (0..k).map(|_| rng.gen()).collect();
    let body = |t: usize| -> (Vec<u64>, Vec<u64>) {
        let mut rng = StdRng::seed_from_u64(seeds[t]);
        let (mut ops, mut fail) = (vec![0u64; READ_KINDS.len()], vec![0u64; READ_KINDS.len()]);
        let mut held: std::collections::VecDeque<Box<dyn shredh::worldx::AnyGuard>> = std::collections::VecDeque::new();
        start.wait();
        while !stop.load(Ordering::Relaxed) {
            for _ in 0..64 {
                let on_a = rng.gen_bool(0.5);
                let (ci, id) = if on_a { (ci_a, rid_a[t].clone()) } else { (ci_b, rid_b[t].clone()) };
                let kind = rng.gen_range(0..7usize);
                ops[kind] += 1;
                enter(t, "shared operation of a read storm");
                let r: Result<Option<Box<dyn shredh::worldx::AnyGuard>>, ()> = match kind {
                    0 => std::panic::catch_unwind(std::panic::AssertUnwindSafe(|| shredh::worldx::thread_fetch(world, "fetch", ci, id))).map_err(|_| ()),
                    1 => std::panic::catch_unwind(std::panic::AssertUnwindSafe(|| shredh::worldx::thread_fetch(world, "try_fetch", ci, id))).map_err(|_| ()),
                    2 => std::panic::catch_unwind(std::panic::AssertUnwindSafe(|| shredh::worldx::thread_fetch(world, "try_fetch_by_id", ci, id))).map_err(|_| ()),
                    3 => std::panic::catch_unwind(std::panic::AssertUnwindSafe(|| shredh::worldx::thread_fetch(world, "sd_read", ci, id))).map_err(|_| ()),
                    4 => std::panic::catch_unwind(std::panic::AssertUnwindSafe(|| shredh::worldx::thread_fetch(world, "sd_optread", ci, id))).map_err(|_| ()),
                    5 => match held.iter().find(|g| g.cloneable()) {
                        Some(g) => std::panic::catch_unwind(std::panic::AssertUnwindSafe(|| g.dup())).map_err(|_| ()),
                        None => {
                            ops[kind] -= 1;
                            leave(t);
                            continue;
                        }
                    },
                    _ => {
                        // MetaTable::iter over the registered types: both (t, 0) are present, so it yields two items
                        let r = std::panic::catch_unwind(std::panic::AssertUnwindSafe(|| meta.iter(world).count()));
                        match r {
                            Ok(2) => {}
                            _ => fail[kind] += 1,
                        }
                        leave(t);
                        continue;
                    }
                };
                match r {
                    Ok(Some(g)) => {
                        // a guard obtained through the by-id / typed paths on A may stay for a while
                        if on_a || kind == 5 {
                            held.push_back(g);
                        } else {
                            ops[7] += 1;
                            if std::panic::catch_unwind(std::panic::AssertUnwindSafe(move || drop(g))).is_err() {
                                fail[7] += 1;
                            }
                        }
                    }
                    _ => fail[kind] += 1,
                }
                while held.len() > 3 || (!held.is_empty() && rng.gen_bool(0.3)) {
                    let g = held.pop_front().unwrap();
                    ops[7] += 1;
                    if std::panic::catch_unwind(std::panic::AssertUnwindSafe(move || drop(g))).is_err() {
                        fail[7] += 1;
                    }
                }
                leave(t);
            }
        }
        while let Some(g) = held.pop_front() {
            ops[7] += 1;
            if std::panic::catch_unwind(std::panic::AssertUnwindSafe(move || drop(g))).is_err() {
                fail[7] += 1;
            }
        }
        (ops, fail)
    };
    let t0 = std::time::Instant::now();
    let timer = || {
        start.wait();
        std::thread::sleep(std::time::Duration::from_millis(ms));
        stop.store(true, Ordering::SeqCst);
    };
    ACTIVE.store(true, Ordering::SeqCst);
    let results: Vec<(Vec<u64>, Vec<u64>)> = if on_rayon {
        read_storm_on_rayon(k, &body, &timer)
    } else {
        std::thread::scope(|s| {
            let hs: Vec<_> = (0..k).map(|t| { let body = &body; s.spawn(move || body(t)) }).collect();
            timer();
            hs.into_iter().map(|h| h.join().expect("read storm thread")).collect()
        })
    };
    ACTIVE.store(false, Ordering::SeqCst);
    let wall = t0.elapsed().as_secs_f64();
    let (mut ops, mut fail) = (vec![0u64; READ_KINDS.len()], vec![0u64; READ_KINDS.len()]);
    for (o, f) in &results {
        for i in 0..READ_KINDS.len() {
            ops[i] += o[i];
            fail[i] += f[i];
        }
    }
    let per = |v: &Vec<u64>| -> Value { Value::Object(READ_KINDS.iter().zip(v.iter()).map(|(k, n)| (k.to_string(), json!(n.min(&2_000_000_000)))).collect()) };
    let failures: u64 = fail.iter().sum();
    evs.push(json!({"ev":"rstorm","threads":k,"rayon":on_rayon,"ids":[[1,0],[2,0]],"ops":per(&ops),"fail":per(&fail),
                    "operations":ops.iter().sum::<u64>().min(2_000_000_000),"failures":failures.min(2_000_000_000),"obs":d.observe()}));
    if let Some(why) = &d.abort {
        evs.push(json!({"ev":"abort","why":why}));
    }
    let st = json!({"threads":k,"rayon":on_rayon,"operations":ops.iter().sum::<u64>(),"failures":failures,"fail":per(&fail),"wall_s":wall});
    (evs, st)
}

#[cfg(feature = "parallel")]
fn read_storm_on_rayon(k: usize, body: &(dyn Fn(usize) -> (Vec<u64>, Vec<u64>) + Sync), timer: &(dyn Fn() + Sync)) -> Vec<(Vec<u64>, Vec<u64>)> {
    let pool = rayon::ThreadPoolBuilder::new().num_threads(k).build().unwrap();
    let slots: Vec<Mutex<Option<(Vec<u64>, Vec<u64>)>>> = (0..k).map(|_| Mutex::new(None)).collect();
    std::thread::scope(|ts| {
        ts.spawn(|| timer());
        pool.scope(|s| {
            for t in 0..k {
                let slots = &slots;
                s.spawn(move |_| {
                    *slots[t].lock().unwrap() = Some(body(t));
                });
            }
        });
    });
    slots.into_iter().map(|m| m.into_inner().unwrap().expect("read storm task")).collect()
}
#[cfg(not(feature = "parallel"))]
fn read_storm_on_rayon(_: usize, _: &(dyn Fn(usize) -> (Vec<u64>, Vec<u64>) + Sync), _: &(dyn Fn() + Sync)) -> Vec<(Vec<u64>, Vec<u64>)> {
    unreachable!()
}
