//! planner random ...   : random registration programs -> ndjson trace
//! planner replay ...   : TLC-emitted terminal states of MCPlanner -> real builder,
//!                        layouts compared with the model's prediction
use std::{
    collections::BTreeMap,
    fs::File,
    io::{BufRead, BufReader, BufWriter, Write},
};

use rand::{rngs::StdRng, Rng, SeedableRng};
use serde_json::{json, Value};
use shredh::{
    prog::{gen_prog, prog_of_state, GenCfg, Variant},
    record::{record_registration, write_events},
    Args,
};

fn placements(evs: &[Value]) -> Vec<Value> {
    evs.iter()
        .filter(|e| e["ev"] == "add" || e["ev"] == "batch")
        .map(|e| e["place"].clone())
        .collect()
}

fn main() {
    shredh::run_main(real_main)
}

fn real_main() {
    shredh::quiet_panics();
    let a = Args::from_env();
    match a.cmd() {
        "random" => random(&a),
        "replay" => replay(&a),
        "sendable" => sendable(&a),
        _ => {
            eprintln!("usage: planner random|replay ...");
            std::process::exit(2)
        }
    }
}

fn gencfg(a: &Args) -> GenCfg {
    let mut c = GenCfg::basic(a.num("nmin", 5), a.num("nmax", 40), a.num("nres", 8));
    c.p_tl = a.num("ptl", 0.04);
    c.p_batch = a.num("pbatch", 0.08);
    c.max_depth = a.num("depth", 2);
    c.p_ill = a.num("pill", 0.0);
    c.p_barrier = a.num("pbarrier", 0.08);
    c.p_dep = a.num("pdep", 0.3);
    c.inner_tl = a.flag("innertl");
    c.p_stat = a.num("pstat", 0.05);
    c
}

fn random(a: &Args) {
    let seed: u64 = a.num("seed", 1);
    let count: usize = a.num("count", 20);
    let variants: usize = a.num("variants", 1);
    let out = a.get("out").expect("--out");
    let mut w = BufWriter::new(File::create(out).unwrap());
    let mut rng = StdRng::seed_from_u64(seed);
    let base = gencfg(a);
    let mut nsys = 0usize;
    let mut nev = 0usize;
    let mut samples = Vec::new();
    let funnel: usize = a.num("funnel", 0);
    let chain: usize = a.num("chain", 0);
    let nb = if a.flag("boundary") { (0..).take_while(|i| shredh::prog::gen_boundary(*i, &mut StdRng::seed_from_u64(0)).is_some()).count() } else { 0 };
    for k in 0..count + funnel + chain + nb {
        shredh::unwind::set(rng.gen_bool(a.num("punwind", 0.1)));
        shredh::record::set_early_pool(rng.gen_bool(0.3));
        shredh::build::set_zst(if rng.gen_bool(0.25) { 0.5 } else { 0.0 });
        shredh::build::set_noise(if rng.gen_bool(0.2) { 0.06 } else { 0.0 });
        if k >= count {
            let prog = if k >= count + funnel + chain {
                shredh::prog::gen_boundary(k - count - funnel - chain, &mut rng).unwrap()
            } else if k >= count + funnel {
                shredh::prog::gen_chain(&mut rng)
            } else {
                shredh::prog::gen_funnel(&mut rng)
            };
            let mut res = Vec::new();
            prog.resources(&mut res);
            let r = record_registration(&prog, Variant::identity(&res), k + 1, 0, false);
            nev += r.rec.events.len();
            write_events(&mut w, &r.rec.events);
            nsys += prog.count_systems();
            continue;
        }
        let mut cfg = base.clone();
        // vary size and resource count so that dense and sparse plans both occur
        cfg.n_res = rng.gen_range(2..=base.n_res.max(2));
        if rng.gen_bool(0.3) {
            cfg.times = vec![*[1u8, 3, 5].get(rng.gen_range(0..3)).unwrap()];
        }
        if rng.gen_bool(0.2) {
            // funnel: many short conflicting systems
            cfg.p_write = 0.5;
            cfg.n_res = 2;
        }
        shredh::record::set_build_async(rng.gen_bool(0.15));
        let degenerate = rng.gen_bool(a.num("pdegenerate", 0.06));
        shredh::record::set_no_pool(rng.gen_bool(if degenerate { 0.5 } else { 0.02 }));
        let special = rng.gen_range(0..100);
        let prog = if degenerate {
            shredh::prog::gen_degenerate(&mut rng, a.flag("innertl"))
        } else if special < 4 {
            shredh::prog::gen_wide_stage(&mut rng)
        } else if special < 8 {
            shredh::prog::gen_many_res(&mut rng)
        } else if rng.gen_bool(a.num("pfunnel", 0.12)) {
            shredh::prog::gen_funnel(&mut rng)
        } else {
            gen_prog(&mut rng, &cfg, 0, "")
        };
        let mut res = Vec::new();
        prog.resources(&mut res);
        for v in 0..variants {
            let variant = if v == 0 { Variant::identity(&res) } else { Variant::random(&res, &mut rng) };
            let r = record_registration(&prog, variant, k + 1, v, a.flag("printevery"));
            nev += r.rec.events.len();
            write_events(&mut w, &r.rec.events);
        }
        nsys += prog.count_systems();
        if samples.len() < 3 {
            samples.push(serde_json::to_value(&prog).unwrap());
        }
    }
    w.flush().unwrap();
    println!(
        "{}",
        json!({"programs":count + funnel + chain + nb,"variants":variants,"systems":nsys,"events":nev,"samples":samples})
    );
}

#[derive(Default)]
struct ReplayAcc {
    behaviours: usize,
    insts: usize,
    matched: usize,
    drift: usize,
    drift_behaviours: usize,
    written: usize,
    out: Vec<u8>,
    samples: Vec<Value>,
    drift_samples: Vec<Value>,
    shapes: BTreeMap<String, usize>,
}

/// One chunk of REPLAY lines on one thread (own RNG, own output buffer).
fn replay_chunk(lines: &[String], first_no: usize, seed: u64, variants: usize, keep: usize, max_drift: usize) -> ReplayAcc {
    let mut rng = StdRng::seed_from_u64(seed);
    let mut acc = ReplayAcc::default();
    for (k, line) in lines.iter().enumerate() {
        let (Some(s), Some(e)) = (line.find("\"{"), line.rfind("}\"")) else { continue };
        let inner: String = match serde_json::from_str(&line[s..e + 2]) {
            Ok(x) => x,
            Err(_) => continue,
        };
        let st: Value = serde_json::from_str(&inner).unwrap();
        let (prog, ids) = prog_of_state(&st);
        acc.behaviours += 1;
        *acc.shapes.entry(serde_json::to_string(&ids).unwrap()).or_default() += 1;
        let mut res = Vec::new();
        prog.resources(&mut res);
        // all variants of one behaviour are kept or dropped together (variant 0 is the
        // reference of the C19 comparison in ShredTrace)
        let sample_this = acc.written < keep && rng.gen_bool(0.01);
        shredh::unwind::set(rng.gen_bool(0.02));
        shredh::record::set_early_pool(rng.gen_bool(0.3));
        shredh::build::set_zst(if rng.gen_bool(0.25) { 0.5 } else { 0.0 });
        shredh::build::set_noise(if rng.gen_bool(0.2) { 0.06 } else { 0.0 });
        let mut buf: Vec<Value> = Vec::new();
        let mut any_drift = false;
        for v in 0..variants {
            let variant = if v == 0 { Variant::identity(&res) } else { Variant::random(&res, &mut rng) };
            let r = record_registration(&prog, variant, first_no + k, v, false);
            acc.insts += 1;
            let built = r.rec.events.last().unwrap();
            let real: Vec<Vec<Vec<u64>>> = serde_json::from_value(built["lay"].clone()).unwrap_or_default();
            let ok = real == ids && r.rec.events.iter().all(|e| e["out"].is_null() || e["out"] == "ok");
            if ok {
                acc.matched += 1;
                if acc.samples.len() < 3 {
                    acc.samples.push(json!({"prog": prog, "layout": ids}));
                }
            } else {
                acc.drift += 1;
                any_drift = true;
                if acc.drift_samples.len() < 5 {
                    acc.drift_samples.push(json!({"prog": prog, "model": ids, "real": real, "placements": placements(&r.rec.events)}));
                }
            }
            let mut r = r;
            buf.extend(std::mem::take(&mut r.rec.events));
        }
        if any_drift {
            acc.drift_behaviours += 1;
            if acc.drift_behaviours <= max_drift {
                write_events(&mut acc.out, &buf);
            }
        } else if sample_this {
            write_events(&mut acc.out, &buf);
            acc.written += 1;
        }
    }
    acc
}

fn replay(a: &Args) {
    let inp = a.get("in").expect("--in");
    let out = a.get("out").expect("--out");
    let seed: u64 = a.num("seed", 1);
    let variants: usize = a.num("variants", 2);
    let keep: usize = a.num("keep-matching", 200);
    let max_drift: usize = a.num("max-drift", 300);
    let threads: usize = a.num("threads", 8);
    let mut w = BufWriter::new(File::create(out).unwrap());
    let rd = BufReader::new(File::open(inp).unwrap());
    let lines: Vec<String> = rd.lines().map(|l| l.unwrap()).filter(|l| l.starts_with("<<\"REPLAY\"")).collect();
    let chunk = (lines.len() + threads - 1) / threads.max(1);
    let accs: Vec<ReplayAcc> = std::thread::scope(|sc| {
        let hs: Vec<_> = lines
            .chunks(chunk.max(1))
            .enumerate()
            .map(|(i, c)| sc.spawn(move || {
                shredh::quiet_panics();
                replay_chunk(c, 1 + i * chunk, seed.wrapping_mul(1000).wrapping_add(i as u64), variants, keep / threads + 1, max_drift / threads + 1)
            }))
            .collect();
        hs.into_iter().map(|h| h.join().unwrap()).collect()
    });
    let mut t = ReplayAcc::default();
    for acc in accs {
        t.behaviours += acc.behaviours;
        t.insts += acc.insts;
        t.matched += acc.matched;
        t.drift += acc.drift;
        t.written += acc.written;
        w.write_all(&acc.out).unwrap();
        for x in acc.samples {
            if t.samples.len() < 3 {
                t.samples.push(x);
            }
        }
        for x in acc.drift_samples {
            if t.drift_samples.len() < 5 {
                t.drift_samples.push(x);
            }
        }
        for (k, v) in acc.shapes {
            *t.shapes.entry(k).or_default() += v;
        }
    }
    w.flush().unwrap();
    println!(
        "{}",
        json!({"behaviours":t.behaviours,"instantiations":t.insts,"matched":t.matched,"drift":t.drift,
               "distinct_layouts":t.shapes.len(),"validated_sample":t.written,"samples":t.samples,"drift_samples":t.drift_samples})
    );
}

/// planner sendable ... : random programs with and without thread-local systems;
/// Dispatcher::try_into_sendable and the plan of whatever it returns
fn sendable(a: &Args) {
    let seed: u64 = a.num("seed", 1);
    let count: usize = a.num("count", 100);
    let out = a.get("out").expect("--out");
    let mut w = BufWriter::new(File::create(out).unwrap());
    let mut rng = StdRng::seed_from_u64(seed);
    let mut base = GenCfg::basic(1, 25, 6);
    base.p_batch = 0.08;
    base.max_depth = 2;
    let (mut with_tl, mut nev) = (0usize, 0usize);
    for k in 0..count {
        shredh::unwind::set(rng.gen_bool(0.1));
        shredh::record::set_early_pool(rng.gen_bool(0.3));
        shredh::build::set_zst(if rng.gen_bool(0.25) { 0.5 } else { 0.0 });
        shredh::build::set_noise(if rng.gen_bool(0.2) { 0.06 } else { 0.0 });
        let mut cfg = base.clone();
        cfg.p_tl = *[0.0, 0.0, 0.05, 0.3].get(rng.gen_range(0..4)).unwrap();
        let prog = gen_prog(&mut rng, &cfg, 0, "");
        let mut res = Vec::new();
        prog.resources(&mut res);
        let mut r = record_registration(&prog, Variant::identity(&res), k + 1, 0, false);
        if let Some(d) = r.dispatcher.take() {
            let top = r.top;
            match d.try_into_sendable() {
                Ok(sd) => {
                    let (lay, tl) = r.rec.layout_gids(&sd.verif_layout());
                    r.rec.events.push(json!({"ev":"sendable","b":top,"ok":true,"lay":lay,"tl":tl}));
                }
                Err(d) => {
                    with_tl += 1;
                    let (lay, tl) = r.rec.layout_gids(&d.verif_layout());
                    r.rec.events.push(json!({"ev":"sendable","b":top,"ok":false,"lay":lay,"tl":tl}));
                }
            }
        }
        nev += r.rec.events.len();
        write_events(&mut w, &r.rec.events);
    }
    w.flush().unwrap();
    println!("{}", json!({"programs":count,"with_thread_local":with_tl,"events":nev}));
}
