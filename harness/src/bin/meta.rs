//! meta replay ... : TLC-emitted histories of MCMeta -> real MetaTable/World, outcome and
//!                    borrow table compared with the model's after every call
//! meta random ... : long random histories on the real MetaTable/World -> ndjson trace
//! (compiled only with the harness feature `x-meta`)

#[cfg(not(feature = "x-meta"))]
fn main() {
    eprintln!("meta: the harness was built without the feature x-meta");
    std::process::exit(2)
}
#[cfg(feature = "x-meta")]
fn main() {
    shredh::run_main(imp::main)
}

#[cfg(feature = "x-meta")]
mod imp {
    use std::{
        fs::File,
        io::{BufRead, BufReader, BufWriter, Write},
    };

    use rand::{rngs::StdRng, seq::SliceRandom, Rng, SeedableRng};
    use serde_json::{json, Value};
    use shredh::{metax::Machine, record::write_events, Args};

    pub fn main() {
        shredh::quiet_panics();
        let a = Args::from_env();
        match a.cmd() {
            "random" => random(&a),
            "replay" => replay(&a),
            "many" => many(&a),
            _ => {
                eprintln!("usage: meta random|replay|many ...");
                std::process::exit(2)
            }
        }
    }

    fn list(a: &Args, key: &str) -> Vec<usize> {
        a.get(key)
            .unwrap_or("")
            .split(',')
            .filter(|s| !s.is_empty())
            .map(|s| s.parse().expect("number list"))
            .collect()
    }

    fn u(v: &Value) -> u64 {
        v.as_u64().unwrap_or(0)
    }

    /// Does the observation `e` of the real call agree with what the model says (`m`)?
    fn agrees(mach: &mut Machine, m: &Value, e: &Value) -> bool {
        let op = m["op"].as_str().unwrap();
        if m["b"] != e["b"] {
            return false;
        }
        let mo = &m["out"];
        match op {
            "reg" | "iter" => e["out"] == "ok",
            "ins" | "rem" | "drop" | "idrop" => true,
            "fetch" => mo["o"] == e["out"] && u(&m["g"]) == u(&e["g"]),
            "get" | "getmut" => {
                if mo["o"] != e["out"] {
                    return false;
                }
                if mo["o"] == "some" {
                    let want = mach.cell_addr(u(&mo["obj"][0]) as usize, u(&mo["obj"][1]));
                    mo["tag"] == e["tag"] && e["ain"] == e["aout"] && want == e["aout"].as_u64()
                } else {
                    true
                }
            }
            "walk" => {
                let (mi, ei) = (m["items"].as_array().unwrap(), e["items"].as_array().unwrap());
                if m["end"] != e["end"] || mi.len() != ei.len() {
                    return false;
                }
                if m["how"] == "count" && m["end"] == "none" && u(&m["cnt"]) != u(&e["cnt"]) {
                    return false;
                }
                mi.iter().zip(ei).enumerate().all(|(i, (a, b))| {
                    let want = mach.cell_addr(u(&a["obj"][0]) as usize, u(&a["obj"][1]));
                    a["tag"] == b["tag"] && want == b["aout"].as_u64() && u(&m["ids"][i]) == u(&b["g"])
                })
            }
            "next" => {
                if mo["o"] != e["out"] || u(&m["g"]) != u(&e["g"]) {
                    return false;
                }
                if mo["o"] == "some" {
                    let want = mach.cell_addr(u(&mo["obj"][0]) as usize, u(&mo["obj"][1]));
                    mo["tag"] == e["tag"] && want == e["aout"].as_u64()
                } else {
                    true
                }
            }
            _ => false,
        }
    }

    fn replay(a: &Args) {
        let inp = a.get("in").expect("--in");
        let out = a.get("out").expect("--out");
        let seed: u64 = a.num("seed", 1);
        let nt: usize = a.num("nt", 4);
        let bad = list(a, "bad");
        let keep: usize = a.num("keep-matching", 300);
        let p_keep: f64 = a.num("p-keep", 0.02);
        let max_mis: usize = a.num("max-mismatch", 200);
        let dedupe = a.flag("dedupe");
        let p_unw: f64 = a.num("p-unwinding", 0.5);
        let mut unwinding = 0usize;
        let mut seen: std::collections::HashSet<u64> = Default::default();
        let mut rng = StdRng::seed_from_u64(seed);
        let mut w = BufWriter::new(File::create(out).unwrap());
        let rd = BufReader::new(File::open(inp).unwrap());
        let (mut behaviours, mut calls, mut matched, mut mismatch, mut written, mut events) = (0usize, 0usize, 0usize, 0usize, 0usize, 0usize);
        let mut samples: Vec<Value> = Vec::new();
        let mut mis_samples: Vec<Value> = Vec::new();
        for line in rd.lines() {
            let line = line.unwrap();
            if !line.starts_with("<<\"REPLAY\"") {
                continue;
            }
            let (Some(s), Some(e)) = (line.find("\"{"), line.rfind("}\"")) else { continue };
            let inner: String = match serde_json::from_str(&line[s..e + 2]) {
                Ok(x) => x,
                Err(_) => continue,
            };
            let st: Value = serde_json::from_str(&inner).unwrap();
            let hist = st["hist"].as_array().cloned().unwrap_or_default();
            if dedupe && hist.len() > 1 {
                // TLC's simulator evaluates the emitting pseudo-invariant on EVERY successor of the
                // last-but-one state: keep one history per prefix
                use std::hash::{Hash, Hasher};
                let mut hs = std::collections::hash_map::DefaultHasher::new();
                serde_json::to_string(&hist[..hist.len() - 1]).unwrap().hash(&mut hs);
                if !seen.insert(hs.finish()) {
                    continue;
                }
            }
            behaviours += 1;
            // a share of the histories runs from a destructor while this thread is unwinding
            // (std::thread::panicking() is true): the table must answer exactly the same
            let unw = rng.gen_bool(p_unw);
            unwinding += unw as usize;
            let (evs, ok, first_bad, ncalls) = shredh::unwind::maybe_unwinding(unw, || {
            let (mut mach, reset) = Machine::new(nt, &bad, rng.gen_range(0..1000), 16, 8, json!({"run": behaviours, "unw": unw}));
            let mut evs = vec![reset];
            let mut ok = true;
            let mut first_bad = Value::Null;
            let mut calls = 0usize;
            for m in &hist {
                let op = m["op"].as_str().unwrap();
                let (t, d, g, h) = (u(&m["t"]) as usize, u(&m["d"]), u(&m["g"]), u(&m["h"]));
                let k = m["k"].as_str().unwrap_or("");
                // a guard id the model would have created (only used when the real call yields something)
                let e = match op {
                    "reg" => mach.reg(t),
                    "ins" => mach.ins(t, d, rng.gen_range(0..1000)),
                    "rem" => mach.rem(t, d),
                    "fetch" => mach.fetch(t, d, k, if g != 0 { g } else { mach.free_guard().unwrap() }),
                    "drop" => mach.drop_guard(g),
                    "get" | "getmut" => {
                        if d == 2 {
                            mach.get_loose(t, op == "getmut")
                        } else {
                            mach.get_via(g, op == "getmut")
                        }
                    }
                    "iter" => mach.iter(k, h),
                    "next" => mach.next(h, if g != 0 { g } else { mach.free_guard().unwrap() }),
                    "idrop" => mach.idrop(h),
                    "walk" => mach.walk(h, m["how"].as_str().unwrap(), u(&m["n"]) as usize, u(&m["m"]) as usize),
                    _ => panic!("HARNESS: unknown op {}", op),
                };
                calls += 1;
                let agree = agrees(&mut mach, m, &e);
                evs.push(e);
                if !agree {
                    if ok {
                        first_bad = json!({"call": m, "observed": evs.last().unwrap()});
                    }
                    ok = false;
                    // the real state may now differ from the model's: stop following the model's
                    // history (its guard / iterator ids may not exist); the trace so far is judged by TLC
                    break;
                }
            }
            drop(mach);
            (evs, ok, first_bad, calls)
            });
            calls += ncalls;
            if ok {
                matched += 1;
                if samples.len() < 3 {
                    samples.push(json!({"history": hist.iter().map(|m| brief(m)).collect::<Vec<_>>()}));
                }
                if written < keep && rng.gen_bool(p_keep) {
                    events += evs.len();
                    write_events(&mut w, &evs);
                    written += 1;
                }
            } else {
                mismatch += 1;
                if mismatch <= max_mis {
                    events += evs.len();
                    write_events(&mut w, &evs);
                }
                if mis_samples.len() < 5 {
                    mis_samples.push(first_bad);
                }
            }
        }
        w.flush().unwrap();
        println!(
            "{}",
            json!({"behaviours":behaviours,"in_unwinding_context":unwinding,"calls":calls,"matched":matched,"mismatch":mismatch,
                   "validated_sample":written,"events":events,"samples":samples,"mismatch_samples":mis_samples})
        );
    }

    fn brief(m: &Value) -> Value {
        let op = m["op"].as_str().unwrap_or("");
        match op {
            "reg" => json!(format!("reg {}", m["t"])),
            "ins" | "rem" => json!(format!("{} {}@{}", op, m["t"], m["d"])),
            "fetch" => json!(format!("fetch{} {}@{} -> {}", m["k"].as_str().unwrap_or(""), m["t"], m["d"], m["out"]["o"].as_str().unwrap_or(""))),
            "drop" => json!(format!("drop g{}", m["g"])),
            "get" | "getmut" => json!(format!("{} {}@{} -> {} tag {}", op, m["t"], m["d"], m["out"]["o"].as_str().unwrap_or(""), m["out"]["tag"])),
            "iter" => json!(format!("iter{} h{}", m["k"].as_str().unwrap_or(""), m["h"])),
            "next" => json!(format!("next h{} -> {} tag {}", m["h"], m["out"]["o"].as_str().unwrap_or(""), m["out"]["tag"])),
            "idrop" => json!(format!("idrop h{}", m["h"])),
            "walk" => json!(format!("{}({},{}) h{} -> {} items, {}", m["how"].as_str().unwrap_or(""), m["n"], m["m"], m["h"],
                m["items"].as_array().map(|x| x.len()).unwrap_or(0), m["end"].as_str().unwrap_or(""))),
            _ => m.clone(),
        }
    }

    fn random(a: &Args) {
        let out = a.get("out").expect("--out");
        let seed: u64 = a.num("seed", 1);
        let count: usize = a.num("count", 20);
        let len: usize = a.num("len", 200);
        let nt: usize = a.num("nt", 8);
        let bad = list(a, "bad");
        let max_g: usize = a.num("maxg", 6);
        let max_i: usize = a.num("maxi", 3);
        let mut rng = StdRng::seed_from_u64(seed);
        let mut w = BufWriter::new(File::create(out).unwrap());
        let mut events = 0usize;
        let mut outcomes: std::collections::BTreeMap<String, usize> = Default::default();
        let p_unw: f64 = a.num("p-unwinding", 0.5);
        let mut unwinding = 0usize;
        let mut samples: Vec<Value> = Vec::new();
        for run in 0..count {
            let unw = rng.gen_bool(p_unw);
            unwinding += unw as usize;
            let evs = shredh::unwind::maybe_unwinding(unw, || {
            let (mut m, reset) = Machine::new(nt, &bad, rng.gen_range(0..1000), max_g, max_i, json!({"run": run + 1, "unw": unw}));
            let mut evs = vec![reset];
            // different flavours of history: register-heavy, iteration-heavy, sparse worlds
            let p_reg = *[0.04, 0.10, 0.2].choose(&mut rng).unwrap();
            let p_ins = *[0.05, 0.12].choose(&mut rng).unwrap();
            // prelude: a few registrations (with repeats) and insertions
            for _ in 0..rng.gen_range(0..=nt) {
                evs.push(m.reg(rng.gen_range(1..=nt)));
            }
            for _ in 0..rng.gen_range(0..=nt) {
                evs.push(m.ins(rng.gen_range(1..=nt), if rng.gen_bool(0.2) { 1 } else { 0 }, rng.gen_range(0..1000)));
            }
            let mut steps = 0;
            while steps < len {
                steps += 1;
                let x: f64 = rng.gen();
                let mut t = rng.gen_range(1..=nt);
                let mut d = if rng.gen_bool(0.25) { 1 } else { 0 };
                if x >= p_reg + p_ins && rng.gen_bool(0.8) {
                    // fetch / remove mostly what is there
                    if let Some(c) = m.present_cells().choose(&mut rng) {
                        t = c.0;
                        d = c.1;
                    }
                }
                let needs_quiet = x < p_reg + p_ins + 0.04;
                if x < p_reg {
                    // register needs &mut MetaTable: no iterator may be alive
                    if m.n_iters() > 0 {
                        if !rng.gen_bool(0.35) {
                            continue;
                        }
                        for h in m.iter_ids() {
                            evs.push(m.idrop(h));
                        }
                    }
                } else if needs_quiet && !m.quiet() {
                    // world mutation needs &mut World: sometimes wind everything down
                    if !rng.gen_bool(0.35) {
                        continue;
                    }
                    for g in m.guard_ids() {
                        evs.push(m.drop_guard(g));
                    }
                    for h in m.iter_ids() {
                        evs.push(m.idrop(h));
                    }
                }
                let e = if x < p_reg {
                    m.reg(t)
                } else if x < p_reg + p_ins {
                    m.ins(t, d, rng.gen_range(0..1000))
                } else if x < p_reg + p_ins + 0.04 {
                    m.rem(t, d)
                } else if x < 0.40 {
                    match m.free_guard() {
                        Some(g) => m.fetch(t, d, if rng.gen_bool(0.4) { "w" } else { "r" }, g),
                        None => continue,
                    }
                } else if x < 0.52 {
                    match m.guard_ids().choose(&mut rng) {
                        Some(g) => m.drop_guard(*g),
                        None => continue,
                    }
                } else if x < 0.60 {
                    let mutable = rng.gen_bool(0.5);
                    match m.typed_guard_ids(mutable).choose(&mut rng) {
                        Some(g) => m.get_via(*g, mutable),
                        None => continue,
                    }
                } else if x < 0.68 {
                    m.get_loose(t, rng.gen_bool(0.5))
                } else if x < 0.73 {
                    match m.free_iter() {
                        Some(h) => m.iter(if rng.gen_bool(0.5) { "w" } else { "r" }, h),
                        None => continue,
                    }
                } else if x < 0.86 {
                    match (m.iter_ids().choose(&mut rng), m.free_guard()) {
                        (Some(h), Some(g)) => m.next(*h, g),
                        _ => continue,
                    }
                } else if x < 0.93 {
                    // the iterator consumed through a std adapter (by_ref: mixes with plain next)
                    let free = max_g - m.n_guards();
                    match m.iter_ids().choose(&mut rng) {
                        Some(h) if free >= 1 => {
                            let how = *["nth", "nth", "skip", "skip", "step", "take", "last", "count"].choose(&mut rng).unwrap();
                            let n = if how == "step" { rng.gen_range(1..=3) } else { rng.gen_range(0..=3) };
                            let mm = rng.gen_range(1..=free.min(3));
                            m.walk(*h, how, n, mm)
                        }
                        _ => continue,
                    }
                } else if x < 0.95 {
                    match m.iter_ids().choose(&mut rng) {
                        Some(h) => m.hint(*h),
                        None => continue,
                    }
                } else {
                    match m.iter_ids().choose(&mut rng) {
                        Some(h) => m.idrop(*h),
                        None => continue,
                    }
                };
                let key = format!("{}:{}", e["ev"].as_str().unwrap_or(""), e["out"].as_str().or(e["how"].as_str()).unwrap_or("-"));
                *outcomes.entry(key).or_default() += 1;
                evs.push(e);
            }
            drop(m);
            evs
            });
            events += evs.len();
            if samples.len() < 2 {
                samples.push(json!(evs.iter().take(25).map(|e| format!("{} {}", e["ev"].as_str().unwrap_or(""), e["out"].as_str().unwrap_or(""))).collect::<Vec<_>>()));
            }
            write_events(&mut w, &evs);
        }
        w.flush().unwrap();
        println!("{}", json!({"histories":count,"in_unwinding_context":unwinding,"events":events,"outcomes":outcomes,"samples":samples}));
    }
    /// One table with MORE THAN 256 registered types (the const-generic family R<9>..R<308> next to
    /// the eight hand-written ones), some registered twice, a sample present in the world; then
    /// get / get_mut on one object of every type and a complete iter() and iter_mut().  Recorded
    /// without the probed borrow table (projection); validated by MetaTrace with NT = 308.
    fn many(a: &Args) {
        let out = a.get("out").expect("--out");
        let seed: u64 = a.num("seed", 1);
        let count: usize = a.num("count", 1);
        let nt: usize = a.num("nt", 308);
        let bad = list(a, "bad");
        let mut rng = StdRng::seed_from_u64(seed);
        let mut w = BufWriter::new(File::create(out).unwrap());
        let (mut events, mut somes, mut regs, mut present) = (0usize, 0usize, 0usize, 0usize);
        for run in 0..count {
            let unw = run % 2 == 1;
            let evs = shredh::unwind::maybe_unwinding(unw, || {
                let (mut m, reset) = Machine::new(nt, &bad, rng.gen_range(0..1000), nt + 8, 4, json!({"run": run + 1, "unw": unw, "many": true}));
                m.probe_on = false;
                let mut evs = vec![reset];
                // every type once, in a random order (so that any type can end up in a late slot) ...
                let mut order: Vec<usize> = (1..=nt).collect();
                order.shuffle(&mut rng);
                let unregistered: Vec<usize> = order.split_off(nt - 6);
                for (i, t) in order.iter().enumerate() {
                    evs.push(m.reg(*t));
                    // ... some of them again right away or much later
                    if rng.gen_bool(0.03) {
                        evs.push(m.reg(*t));
                    }
                    if i > 0 && rng.gen_bool(0.06) {
                        evs.push(m.reg(order[rng.gen_range(0..i)]));
                    }
                }
                for _ in 0..12 {
                    evs.push(m.reg(order[rng.gen_range(order.len() - 60..order.len())]));
                }
                // a sample of early, late and unregistered types is present
                let mut pres: Vec<usize> = Vec::new();
                for (i, t) in order.iter().enumerate() {
                    let p = if i < 20 || i + 70 > order.len() { 0.5 } else { 0.08 };
                    if rng.gen_bool(p) {
                        pres.push(*t);
                    }
                }
                pres.push(unregistered[0]);
                pres.shuffle(&mut rng);
                for t in &pres {
                    evs.push(m.ins(*t, 0, rng.gen_range(0..1000)));
                }
                // get / get_mut on the loose object of every type
                for t in 1..=nt {
                    evs.push(m.get_loose(t, t % 2 == 0));
                }
                // the same through typed guards of some present ones
                for t in pres.iter().take(25) {
                    let g = m.free_guard().unwrap();
                    let e = m.fetch(*t, 0, "w", g);
                    let okf = e["out"] == "ok";
                    evs.push(e);
                    if okf {
                        evs.push(m.get_via(g, true));
                        evs.push(m.get_via(g, false));
                        evs.push(m.drop_guard(g));
                    }
                }
                // complete iter() and iter_mut(), items kept alive until the iterator is exhausted
                for k in ["r", "w"] {
                    evs.push(m.iter(k, 1));
                    for _ in 0..nt + 2 {
                        let g = m.free_guard().unwrap();
                        let e = m.next(1, g);
                        let stop = e["out"] == "none";
                        evs.push(e);
                        if stop {
                            break;
                        }
                    }
                    for g in m.guard_ids() {
                        evs.push(m.drop_guard(g));
                    }
                    evs.push(m.idrop(1));
                }
                // the same iterators consumed through std adapters (most registered types are absent:
                // whatever an adapter skips has to be counted in ITEMS, not in table entries)
                for k in ["r", "w"] {
                    evs.push(m.iter(k, 1));
                    evs.push(m.hint(1));
                    for (how, n, mm) in [("nth", 2, 1), ("skip", 3, 2), ("next", 0, 0), ("step", 2, 3), ("take", 0, 2), ("nth", 0, 1), ("count", 0, 0)] {
                        if how == "next" {
                            let g = m.free_guard().unwrap();
                            evs.push(m.next(1, g));
                        } else {
                            evs.push(m.walk(1, how, n, mm));
                        }
                        evs.push(m.hint(1));
                    }
                    for g in m.guard_ids() {
                        evs.push(m.drop_guard(g));
                    }
                    evs.push(m.idrop(1));
                    evs.push(m.iter(k, 1));
                    evs.push(m.walk(1, "skip", 5, 1));
                    evs.push(m.walk(1, "last", 0, 0));
                    for g in m.guard_ids() {
                        evs.push(m.drop_guard(g));
                    }
                    evs.push(m.idrop(1));
                }
                drop(m);
                evs
            });
            for mut e in evs {
                if let Some(o) = e.as_object_mut() {
                    o.remove("b");
                }
                events += 1;
                somes += (e["out"] == "some") as usize;
                regs += (e["ev"] == "reg") as usize;
                present += (e["ev"] == "ins") as usize;
                write_events(&mut w, &[e]);
            }
        }
        w.flush().unwrap();
        println!("{}", json!({"histories":count,"types":nt,"events":events,"register_calls":regs,"present":present,"some_outcomes":somes}));
    }

}
