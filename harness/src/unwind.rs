//! "Unwinding context": run a closure from the `Drop` of a guard while a harness panic unwinds
//! through it, so that `std::thread::panicking()` is true for everything the closure does on
//! this thread.  Library code must behave the same there (clean-up code that builds, runs or
//! tears down a dispatcher from a destructor is ordinary Rust).  Every call of the closure
//! that may panic has to be caught inside it (the harness does that anyway): a panic that
//! escaped the destructor would abort the process.
use std::panic::{catch_unwind, AssertUnwindSafe};

pub struct Marker;

struct Guard<'a, R> {
    f: Option<Box<dyn FnOnce() -> R + 'a>>,
    out: &'a mut Option<R>,
}

impl<'a, R> Drop for Guard<'a, R> {
    fn drop(&mut self) {
        if let Some(f) = self.f.take() {
            *self.out = Some(f());
        }
    }
}

/// Runs `f` while this thread is unwinding; returns its result.
pub fn while_unwinding<'a, R>(f: impl FnOnce() -> R + 'a) -> R {
    let mut out = None;
    {
        let out_ref = &mut out;
        let r = catch_unwind(AssertUnwindSafe(move || {
            let _g = Guard { f: Some(Box::new(f)), out: out_ref };
            std::panic::resume_unwind(Box::new(Marker));
        }));
        assert!(r.is_err());
    }
    out.expect("closure ran in the destructor")
}

/// `f` directly or inside an unwinding context.
pub fn maybe_unwinding<'a, R>(unwinding: bool, f: impl FnOnce() -> R + 'a) -> R {
    if unwinding {
        while_unwinding(f)
    } else {
        f()
    }
}

thread_local! {
    static ACTIVE: std::cell::Cell<bool> = std::cell::Cell::new(false);
}

/// Switches the unwinding context on or off for the library calls this thread makes for the following program.
pub fn set(on: bool) {
    ACTIVE.with(|a| a.set(on));
}

pub fn active() -> bool {
    ACTIVE.with(|a| a.get())
}

/// `f` in the context chosen with `set`.
pub fn ctx<'a, R>(f: impl FnOnce() -> R + 'a) -> R {
    maybe_unwinding(active(), f)
}

#[cfg(test)]
mod tests {
    #[test]
    fn panicking_is_true_inside() {
        assert!(!std::thread::panicking());
        let v = super::while_unwinding(|| {
            let inner = std::panic::catch_unwind(|| panic!("caught inside"));
            (std::thread::panicking(), inner.is_err())
        });
        assert_eq!(v, (true, true));
        assert!(!std::thread::panicking());
    }
}
