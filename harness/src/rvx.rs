//! C11: rendezvous systems - every system of a stage waits inside `run` until all its
//! siblings have started.  Resource-less on purpose (S5): nothing but the dispatcher's own
//! parallelism is exercised.

use std::{
    sync::{Arc, Condvar, Mutex},
    time::Duration,
};

use serde_json::{json, Value};
use shred::{BatchController, Dispatcher, DispatcherBuilder, RunningTime, System, World};

use crate::sys::rt;

pub struct Rv {
    pub width: usize,
    pub entered: Mutex<usize>,
    pub cv: Condvar,
    pub timeout: Duration,
    pub log: Mutex<Vec<Value>>,
}

impl Rv {
    pub fn new(width: usize, timeout: Duration) -> Arc<Self> {
        Arc::new(Rv { width, entered: Mutex::new(0), cv: Condvar::new(), timeout, log: Mutex::new(Vec::new()) })
    }
    pub fn reset(&self) {
        *self.entered.lock().unwrap() = 0;
    }
}

pub struct RvSys {
    pub id: usize,
    pub t: u8,
    pub rv: Arc<Rv>,
}

impl<'a> System<'a> for RvSys {
    type SystemData = ();

    fn run(&mut self, _: ()) {
        let rv = &self.rv;
        // the log mutex orders the events; `entered` is bumped under it so that the logged
        // order of rvin events is the order of arrival
        {
            let mut l = rv.log.lock().unwrap();
            if *rv.entered.lock().unwrap() >= rv.width {
                // a further frame of the same dispatcher (async_repeat): the rendezvous is over
                return;
            }
            l.push(json!({"ev":"rvin","s":self.id}));
            *rv.entered.lock().unwrap() += 1;
            rv.cv.notify_all();
        }
        let g = rv.entered.lock().unwrap();
        let (g, res) = rv.cv.wait_timeout_while(g, rv.timeout, |n| *n < rv.width).unwrap();
        drop(g);
        rv.log.lock().unwrap().push(json!({"ev":"rvout","s":self.id,"timedout":res.timed_out()}));
    }

    fn running_time(&self) -> RunningTime {
        rt(self.t)
    }
}

pub fn rv_builder(rv: &Arc<Rv>, times: &[u8]) -> DispatcherBuilder<'static, 'static> {
    // (every other width: a builder obtained through `Default`)
    let mut b = if rv.width % 2 == 1 { DispatcherBuilder::default() } else { DispatcherBuilder::new() };
    for i in 0..rv.width {
        b.add(RvSys { id: i + 1, t: times[i % times.len()], rv: rv.clone() }, &format!("rv{}", i), &[]);
    }
    b
}

/// batch controller that dispatches its inner dispatcher once
pub struct RvCtl;
impl<'a, 'b, 'c> BatchController<'a, 'b, 'c> for RvCtl {
    type BatchSystemData = ();
    fn run(&mut self, world: &'c World, dispatcher: &mut Dispatcher<'a, 'b>) {
        dispatcher.dispatch(world);
    }
}

/// a system that does nothing (fills a narrow batch)
pub struct Noop;
impl<'a> System<'a> for Noop {
    type SystemData = ();
    fn run(&mut self, _: ()) {}
}

/// a system that stays inside `run` until it is released (or 30 s have passed): a busy neighbour
pub struct Blocker {
    pub started: Arc<std::sync::atomic::AtomicBool>,
    pub release: Arc<std::sync::atomic::AtomicBool>,
}
impl<'a> System<'a> for Blocker {
    type SystemData = ();
    fn run(&mut self, _: ()) {
        use std::sync::atomic::Ordering;
        self.started.store(true, Ordering::SeqCst);
        let t0 = std::time::Instant::now();
        while !self.release.load(Ordering::SeqCst) && t0.elapsed() < Duration::from_secs(30) {
            std::thread::sleep(Duration::from_millis(1));
        }
    }
}
