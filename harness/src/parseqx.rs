//! C16: Par/Seq trees assembled AT RUN TIME from the real `Par` / `Seq` nodes.
//!
//! * `DynNode` erases the type of a subtree (a boxing adapter that implements
//!   `RunWithPool` by delegation); every node is built exactly like `par!` / `seq!`
//!   build it (`Par::new(k1).with(k2)...`), with each `with` under `catch_unwind`.
//! * Leaves (`PLeaf`) are self-identifying systems with REAL borrows on the world
//!   (dynamic accessor over `PSlot` cells).  `fetch` is logged while the leaf holds
//!   all its guards, `finish` before it releases them, both under the one mutex of
//!   `PCtx` (S1): order in the log = order of linearisation points.
//! * `dispatch_controlled` holds every started leaf inside `run`, so that all leaves
//!   that CAN overlap DO overlap, and releases them one at a time in a random or
//!   TLC-dictated order.  Waiting periods and timeouts only influence which
//!   behaviours are provoked (completeness), never how a trace is judged.
#![cfg(feature = "parallel")]

use std::{
    collections::{HashMap, HashSet},
    panic::{catch_unwind, AssertUnwindSafe},
    sync::{Arc, Condvar, Mutex},
    time::{Duration, Instant},
};

use rand::{rngs::StdRng, seq::SliceRandom, Rng};
use rayon::ThreadPool;
use serde::{Deserialize, Serialize};
use serde_json::{json, Value};
use shred::{
    Accessor, AccessorCow, DynamicSystemData, Fetch, FetchMut, Par, ParSeq, ResourceId, RunWithPool, Seq, System, World,
};

pub const M: u64 = 1_000_003;

// ---------------------------------------------------------------- tree description

#[derive(Clone, Debug, Serialize, Deserialize)]
pub struct NodeSpec {
    pub kind: String, // "par" | "seq" | "leaf"
    pub kids: Vec<usize>,
    #[serde(default)]
    pub r: Vec<u32>,
    #[serde(default)]
    pub w: Vec<u32>,
    /// "" : dynamic leaf (PLeaf); "r": static leaf with `Option<Read<OptA>>`; "w": `Option<Write<OptB>>`
    #[serde(default)]
    pub opt: String,
    /// Some(K): the leaf is the ZERO-SIZED system `ZLeaf<K>` (identity in slot K of the table)
    #[serde(default, skip_serializing_if = "Option::is_none")]
    pub z: Option<usize>,
}

/// Table of nodes, ids 1.. in preorder, root = 1 (index = id - 1): the `node` of ParSeq.tla.
#[derive(Clone, Debug, Serialize, Deserialize)]
pub struct TreeSpec(pub Vec<NodeSpec>);

impl TreeSpec {
    pub fn node(&self, n: usize) -> &NodeSpec {
        &self.0[n - 1]
    }
    pub fn leaves(&self) -> Vec<usize> {
        (1..=self.0.len()).filter(|n| self.node(*n).kind == "leaf").collect()
    }
    pub fn leaves_of(&self, n: usize, out: &mut Vec<usize>) {
        if self.node(n).kind == "leaf" {
            out.push(n);
        } else {
            for k in &self.node(n).kids {
                self.leaves_of(*k, out);
            }
        }
    }
    pub fn resources(&self) -> Vec<u32> {
        let mut v: Vec<u32> = self.0.iter().flat_map(|n| n.r.iter().chain(n.w.iter()).copied()).collect();
        v.sort();
        v.dedup();
        v
    }
    /// SCHEDULING HEURISTIC ONLY (never part of a verdict): for every leaf the leaves that
    /// have to be finished before it is expected to arrive.
    pub fn prerequisites(&self) -> HashMap<usize, Vec<usize>> {
        let mut pre: HashMap<usize, Vec<usize>> = self.leaves().into_iter().map(|l| (l, Vec::new())).collect();
        for n in 1..=self.0.len() {
            let nd = self.node(n);
            if nd.kind != "seq" {
                continue;
            }
            let mut earlier: Vec<usize> = Vec::new();
            for k in &nd.kids {
                let mut mine = Vec::new();
                self.leaves_of(*k, &mut mine);
                for l in &mine {
                    pre.get_mut(l).unwrap().extend(earlier.iter().copied());
                }
                earlier.extend(mine);
            }
        }
        pre
    }
}

// ---------------------------------------------------------------- shared context

#[derive(Default)]
pub struct PInner {
    pub log: Vec<Value>,
    pub gated: bool,
    pub waiting: Vec<usize>,
    pub released: HashSet<usize>,
    pub finished: HashSet<usize>,
    pub done: bool,
}

pub struct PCtx {
    pub m: Mutex<PInner>,
    pub cv: Condvar,
    /// are the OPTIONAL static resources (OptA, OptB) in the world of the next dispatches?
    pub opt_present: Mutex<(bool, bool)>,
}

impl PCtx {
    pub fn new() -> Arc<Self> {
        Arc::new(PCtx { m: Mutex::new(PInner::default()), cv: Condvar::new(), opt_present: Mutex::new((false, false)) })
    }
    pub fn ev(&self, v: Value) {
        self.m.lock().unwrap().log.push(v);
    }
    pub fn take_log(&self) -> Vec<Value> {
        std::mem::take(&mut self.m.lock().unwrap().log)
    }
}

// ---------------------------------------------------------------- leaves

#[derive(Default, Debug)]
pub struct PSlot(pub u32);

fn rid(res: u32) -> ResourceId {
    ResourceId::new_with_dynamic_id::<PSlot>(res as u64)
}

#[derive(Clone, Debug)]
pub struct PAcc {
    /// the lists handed to the library exactly as declared (order, duplicates)
    pub decl_r: Vec<ResourceId>,
    pub decl_w: Vec<ResourceId>,
    /// what is really borrowed: writes (dedup'd) exclusively, reads minus writes shared
    pub rd: Vec<u32>,
    pub wr: Vec<u32>,
}

impl PAcc {
    pub fn new(r: &[u32], w: &[u32]) -> Self {
        let mut wr: Vec<u32> = w.to_vec();
        wr.sort();
        wr.dedup();
        let mut rd: Vec<u32> = r.iter().copied().filter(|x| !wr.contains(x)).collect();
        rd.sort();
        rd.dedup();
        PAcc { decl_r: r.iter().map(|x| rid(*x)).collect(), decl_w: w.iter().map(|x| rid(*x)).collect(), rd, wr }
    }
}

impl Accessor for PAcc {
    fn try_new() -> Option<Self> {
        None
    }
    fn reads(&self) -> Vec<ResourceId> {
        self.decl_r.clone()
    }
    fn writes(&self) -> Vec<ResourceId> {
        self.decl_w.clone()
    }
}

pub struct PData<'a> {
    pub r: Vec<Fetch<'a, PSlot>>,
    pub w: Vec<FetchMut<'a, PSlot>>,
}

impl<'a> DynamicSystemData<'a> for PData<'a> {
    type Accessor = PAcc;

    fn setup(acc: &PAcc, world: &mut World) {
        for res in acc.rd.iter().chain(acc.wr.iter()) {
            if !world.has_value_raw(rid(*res)) {
                world.insert_by_id(rid(*res), PSlot(1000 + *res));
            }
        }
    }

    fn fetch(acc: &PAcc, world: &'a World) -> Self {
        // really borrow what was declared: the library's run-time backstop is live
        let r = acc
            .rd
            .iter()
            .map(|res| world.try_fetch_by_id(rid(*res)).unwrap_or_else(|| panic!("HARNESS: resource {} missing", res)))
            .collect();
        let w = acc
            .wr
            .iter()
            .map(|res| world.try_fetch_mut_by_id(rid(*res)).unwrap_or_else(|| panic!("HARNESS: resource {} missing", res)))
            .collect();
        PData { r, w }
    }
}

/// The body of every harness leaf: `fetch` is logged while the leaf holds all its guards, then the
/// gate, then `work` (which returns the `finish` event), logged before the guards are released.
pub fn gate_run(ctx: &Arc<PCtx>, id: usize, work: impl FnOnce() -> Value) {
    let mut g = ctx.m.lock().unwrap();
    // linearisation point: every guard is held
    g.log.push(json!({"ev":"fetch","s":id}));
    if g.gated {
        g.waiting.push(id);
        ctx.cv.notify_all();
        while !g.released.remove(&id) {
            g = ctx.cv.wait(g).unwrap();
        }
        g.waiting.retain(|x| *x != id);
    }
    let fin = work();
    // still holding every guard
    g.log.push(fin);
    g.finished.insert(id);
    ctx.cv.notify_all();
}

pub struct PLeaf {
    pub id: usize,
    pub acc: PAcc,
    pub ctx: Arc<PCtx>,
}

impl<'a> System<'a> for PLeaf {
    type SystemData = PData<'a>;

    fn run(&mut self, mut data: PData<'a>) {
        gate_run(&self.ctx.clone(), self.id, || {
            let mut sum: u64 = 0;
            for (i, f) in data.r.iter().enumerate() {
                sum += (i as u64 + 1) * f.0 as u64;
            }
            let mut nv = Vec::with_capacity(data.w.len());
            for f in data.w.iter_mut() {
                f.0 = ((31 * f.0 as u64 + 7 * self.id as u64 + sum + 1) % M) as u32;
                nv.push(f.0);
            }
            json!({"ev":"finish","s":self.id,"nv":nv})
        });
    }

    fn accessor<'b>(&'b self) -> AccessorCow<'a, 'b, Self> {
        AccessorCow::Ref(&self.acc)
    }

    fn setup(&mut self, world: &mut World) {
        self.ctx.ev(json!({"ev":"setup","s":self.id}));
        <PData as DynamicSystemData>::setup(&self.acc, world)
    }
}

// ---------------------------------------------------------------- static leaves with OPTIONAL data

/// Abstract resource numbers of the two static resource types below (in `r` / `w` of a NodeSpec).
pub const RES_OPT_A: u32 = 201;
pub const RES_OPT_B: u32 = 202;
#[derive(Default, Debug)]
pub struct OptA(pub u32);
#[derive(Default, Debug)]
pub struct OptB(pub u32);

/// `Option<Read<OptA>>`: declares OptA as read, tolerates its absence, `setup` inserts nothing.
pub struct OLeafR {
    pub id: usize,
    pub ctx: Arc<PCtx>,
}
impl<'a> System<'a> for OLeafR {
    type SystemData = Option<shred::Read<'a, OptA>>;
    fn run(&mut self, data: Self::SystemData) {
        gate_run(&self.ctx.clone(), self.id, || json!({"ev":"finish","s":self.id,"nv":[],"seen": if data.is_some() {"some"} else {"none"}}));
    }
    fn setup(&mut self, world: &mut World) {
        self.ctx.ev(json!({"ev":"setup","s":self.id}));
        <Self::SystemData as shred::SystemData>::setup(world)
    }
}
/// `Option<Write<OptB>>`
pub struct OLeafW {
    pub id: usize,
    pub ctx: Arc<PCtx>,
}
impl<'a> System<'a> for OLeafW {
    type SystemData = Option<shred::Write<'a, OptB>>;
    fn run(&mut self, mut data: Self::SystemData) {
        gate_run(&self.ctx.clone(), self.id, || {
            let seen = match data.as_mut() {
                Some(b) => {
                    b.0 = (31 * b.0 + 7 * self.id as u32 + 1) % 1_000_003;
                    "some"
                }
                None => "none",
            };
            json!({"ev":"finish","s":self.id,"nv":[],"seen":seen})
        });
    }
    fn setup(&mut self, world: &mut World) {
        self.ctx.ev(json!({"ev":"setup","s":self.id}));
        <Self::SystemData as shred::SystemData>::setup(world)
    }
}

// ---------------------------------------------------------------- zero-sized leaves

/// Unit structs are what most users put into `par!` / `seq!`.  A zero-sized leaf cannot carry its id,
/// accessor or context: `ZLeaf<K>` finds them in slot K of a process-wide table.
pub const NZ: usize = 16;

pub struct ZEntry {
    pub id: usize,
    pub acc: PAcc,
    pub ctx: Arc<PCtx>,
}

fn ztab() -> &'static Vec<std::sync::RwLock<Option<Arc<ZEntry>>>> {
    static T: std::sync::OnceLock<Vec<std::sync::RwLock<Option<Arc<ZEntry>>>>> = std::sync::OnceLock::new();
    T.get_or_init(|| (0..NZ).map(|_| std::sync::RwLock::new(None)).collect())
}
pub fn zset(k: usize, e: Option<ZEntry>) {
    *ztab()[k].write().unwrap_or_else(|p| p.into_inner()) = e.map(Arc::new);
}
fn zget(k: usize) -> Arc<ZEntry> {
    ztab()[k].read().unwrap_or_else(|p| p.into_inner()).clone().expect("HARNESS: zero-sized leaf without a table entry")
}
/// Fills (clears) the slots of all zero-sized leaves of a tree.
pub fn zfill(spec: &TreeSpec, ctx: Option<&Arc<PCtx>>) {
    for n in spec.leaves() {
        if let Some(k) = spec.node(n).z {
            zset(k, ctx.map(|c| ZEntry { id: n, acc: PAcc::new(&spec.node(n).r, &spec.node(n).w), ctx: c.clone() }));
        }
    }
}

pub struct ZLeaf<const K: usize>;

impl<'a, const K: usize> System<'a> for ZLeaf<K> {
    type SystemData = PData<'a>;

    fn run(&mut self, mut data: PData<'a>) {
        let e = zget(K);
        gate_run(&e.ctx, e.id, || {
            let mut nv = Vec::with_capacity(data.w.len());
            for f in data.w.iter_mut() {
                f.0 = ((31 * f.0 as u64 + 7 * e.id as u64 + 1) % M) as u32;
                nv.push(f.0);
            }
            json!({"ev":"finish","s":e.id,"nv":nv,"zst":K})
        });
    }

    fn accessor<'b>(&'b self) -> AccessorCow<'a, 'b, Self> {
        AccessorCow::Owned(zget(K).acc.clone())
    }

    fn setup(&mut self, world: &mut World) {
        let e = zget(K);
        e.ctx.ev(json!({"ev":"setup","s":e.id}));
        <PData as DynamicSystemData>::setup(&e.acc, world)
    }
}

/// `$body` with `$z` bound to `ZLeaf::<k>` for a run-time k below NZ.
macro_rules! with_zleaf {
    ($k:expr, |$z:ident| $body:expr) => {
        with_zleaf!(@arms $k, $z, $body, 0 1 2 3 4 5 6 7 8 9 10 11 12 13 14 15)
    };
    (@arms $k:expr, $z:ident, $body:expr, $($n:literal)*) => {
        match $k {
            $( $n => { let $z = ZLeaf::<$n>; $body } )*
            _ => panic!("HARNESS: zero-sized slot out of range"),
        }
    };
}

// ---------------------------------------------------------------- the boxing adapter

pub struct DynNode(pub Box<dyn for<'a> RunWithPool<'a> + Send>);

impl<'a> RunWithPool<'a> for DynNode {
    fn setup(&mut self, world: &mut World) {
        self.0.setup(world)
    }
    fn run(&mut self, world: &'a World, pool: &ThreadPool) {
        self.0.run(world, pool)
    }
    fn reads(&self, reads: &mut Vec<ResourceId>) {
        self.0.reads(reads)
    }
    fn writes(&self, writes: &mut Vec<ResourceId>) {
        self.0.writes(writes)
    }
}

/// "panic": the debug check of `Par::with`; "panic_other": anything else (never expected).
pub fn panic_kind(p: &Box<dyn std::any::Any + Send>) -> &'static str {
    let s = if let Some(s) = p.downcast_ref::<&str>() {
        s.to_string()
    } else if let Some(s) = p.downcast_ref::<String>() {
        s.clone()
    } else {
        String::new()
    };
    if s.contains("conflicting reads / writes") {
        "panic"
    } else {
        "panic_other"
    }
}

/// reads()/writes() of a node as abstract resource numbers (0: an id no leaf declared);
/// `None`: the call itself panicked.
pub fn node_acc_checked(n: &DynNode) -> Option<(Vec<u32>, Vec<u32>)> {
    catch_unwind(AssertUnwindSafe(|| node_acc(n))).ok()
}

pub fn node_acc(n: &DynNode) -> (Vec<u32>, Vec<u32>) {
    let mut r = Vec::new();
    let mut w = Vec::new();
    <DynNode as RunWithPool<'_>>::reads(n, &mut r);
    <DynNode as RunWithPool<'_>>::writes(n, &mut w);
    // ResourceId -> abstract resource number (the dynamic id of the PSlot cell)
    let back = |v: Vec<ResourceId>| -> Vec<u32> {
        v.into_iter()
            .map(|id| {
                if id == ResourceId::new::<OptA>() {
                    RES_OPT_A
                } else if id == ResourceId::new::<OptB>() {
                    RES_OPT_B
                } else {
                    (1..=200u32).find(|x| rid(*x) == id).unwrap_or(0)
                }
            })
            .collect()
    };
    (back(r), back(w))
}

/// `$new(k1).with(k2)...` exactly as `par!` / `seq!` expand, each `with` observed.
macro_rules! chain {
    ($ctor:ident, $n:expr, $evs:expr, $k1:expr $(, $k:expr)*) => {{
        let k1 = $k1;
        let p = match catch_unwind(AssertUnwindSafe(move || $ctor::new(k1))) {
            Ok(p) => p,
            Err(e) => {
                // `new` has no modelled way to fail
                $evs.push(json!({"ev":"with","n":$n,"i":1,"out":format!("{}_in_new", panic_kind(&e))}));
                return None;
            }
        };
        #[allow(unused_mut, unused_variables)]
        let mut i = 1usize;
        $(
            i += 1;
            let k = $k;
            let p = match catch_unwind(AssertUnwindSafe(move || p.with(k))) {
                Ok(p) => {
                    $evs.push(json!({"ev":"with","n":$n,"i":i,"out":"ok"}));
                    p
                }
                Err(e) => {
                    $evs.push(json!({"ev":"with","n":$n,"i":i,"out":panic_kind(&e)}));
                    return None;
                }
            };
        )*
        Some(DynNode(Box::new(p)))
    }};
}

/// Like `chain!`, but the LAST child is the un-erased zero-sized `$z` (so that the innermost
/// `Par<H, T>` / `Seq<H, T>` of the node has a zero-sized `T`, as with unit-struct systems in `par!`).
macro_rules! chain_z {
    ($ctor:ident, $n:expr, $evs:expr, $z:expr, $k1:expr $(, $k:expr)*) => {{
        let k1 = $k1;
        let p = match catch_unwind(AssertUnwindSafe(move || $ctor::new(k1))) {
            Ok(p) => p,
            Err(e) => {
                $evs.push(json!({"ev":"with","n":$n,"i":1,"out":format!("{}_in_new", panic_kind(&e))}));
                return None;
            }
        };
        #[allow(unused_mut)]
        let mut i = 1usize;
        $(
            i += 1;
            let k = $k;
            let p = match catch_unwind(AssertUnwindSafe(move || p.with(k))) {
                Ok(p) => {
                    $evs.push(json!({"ev":"with","n":$n,"i":i,"out":"ok"}));
                    p
                }
                Err(e) => {
                    $evs.push(json!({"ev":"with","n":$n,"i":i,"out":panic_kind(&e)}));
                    return None;
                }
            };
        )*
        i += 1;
        let z = $z;
        match catch_unwind(AssertUnwindSafe(move || p.with(z))) {
            Ok(p) => {
                $evs.push(json!({"ev":"with","n":$n,"i":i,"out":"ok"}));
                Some(DynNode(Box::new(p)))
            }
            Err(e) => {
                $evs.push(json!({"ev":"with","n":$n,"i":i,"out":panic_kind(&e)}));
                None
            }
        }
    }};
}

/// `kids` (erased) followed by the un-erased zero-sized leaf of slot `zk` as the last child.
fn build_inner_z(kind: &str, n: usize, kids: Vec<DynNode>, zk: usize, evs: &mut Vec<Value>) -> Option<DynNode> {
    let m = kids.len();
    let mut it = kids.into_iter();
    let mut nx = || it.next().unwrap();
    macro_rules! arity {
        ($ctor:ident) => {
            with_zleaf!(zk, |z| match m {
                1 => chain_z!($ctor, n, evs, z, nx()),
                2 => chain_z!($ctor, n, evs, z, nx(), nx()),
                3 => chain_z!($ctor, n, evs, z, nx(), nx(), nx()),
                4 => chain_z!($ctor, n, evs, z, nx(), nx(), nx(), nx()),
                5 => chain_z!($ctor, n, evs, z, nx(), nx(), nx(), nx(), nx()),
                _ => panic!("HARNESS: fan-out {} not supported", m + 1),
            })
        };
    }
    if kind == "par" {
        arity!(Par)
    } else {
        arity!(Seq)
    }
}

fn build_inner(kind: &str, n: usize, kids: Vec<DynNode>, evs: &mut Vec<Value>) -> Option<DynNode> {
    let m = kids.len();
    let mut it = kids.into_iter();
    let mut nx = || it.next().unwrap();
    macro_rules! arity {
        ($ctor:ident) => {
            match m {
                1 => chain!($ctor, n, evs, nx()),
                2 => chain!($ctor, n, evs, nx(), nx()),
                3 => chain!($ctor, n, evs, nx(), nx(), nx()),
                4 => chain!($ctor, n, evs, nx(), nx(), nx(), nx()),
                5 => chain!($ctor, n, evs, nx(), nx(), nx(), nx(), nx()),
                6 => chain!($ctor, n, evs, nx(), nx(), nx(), nx(), nx(), nx()),
                _ => panic!("HARNESS: fan-out {} not supported", m),
            }
        };
    }
    if kind == "par" {
        arity!(Par)
    } else {
        arity!(Seq)
    }
}

pub fn mk_leaf(spec: &TreeSpec, n: usize, ctx: &Arc<PCtx>) -> PLeaf {
    let nd = spec.node(n);
    PLeaf { id: n, acc: PAcc::new(&nd.r, &nd.w), ctx: ctx.clone() }
}

/// Post-order construction of the subtree `n` from the real nodes.  `None`: a `with`
/// panicked (the partial tree is gone, as in real code).
pub fn build_tree(spec: &TreeSpec, n: usize, ctx: &Arc<PCtx>, evs: &mut Vec<Value>, log_acc: bool) -> Option<DynNode> {
    let nd = spec.node(n);
    let node = if nd.kind == "leaf" {
        match (nd.z, nd.opt.as_str()) {
            // a zero-sized leaf that is not the last child of its node: boxed
            (Some(k), _) => with_zleaf!(k, |z| DynNode(Box::new(z))),
            (None, "r") => DynNode(Box::new(OLeafR { id: n, ctx: ctx.clone() })),
            (None, "w") => DynNode(Box::new(OLeafW { id: n, ctx: ctx.clone() })),
            _ => DynNode(Box::new(mk_leaf(spec, n, ctx))),
        }
    } else {
        // `par![a, b]` evaluates a, Par::new(a), then b, .with(b): children left to right
        // (building all children first does not change which `with` calls happen or their arguments)
        // a zero-sized leaf as the last of at least two children stays un-erased
        let last = *nd.kids.last().unwrap();
        let zlast = if nd.kids.len() >= 2 && spec.node(last).kind == "leaf" { spec.node(last).z } else { None };
        let mut kids = Vec::new();
        for k in &nd.kids {
            if zlast.is_some() && *k == last {
                if log_acc {
                    // what the zero-sized leaf itself reports (asked through a throw-away boxed copy)
                    let probe = with_zleaf!(zlast.unwrap(), |z| DynNode(Box::new(z)));
                    match node_acc_checked(&probe) {
                        Some((r, w)) => evs.push(json!({"ev":"acc","n":last,"out":"ok","r":r,"w":w})),
                        None => evs.push(json!({"ev":"acc","n":last,"out":"panic","r":[],"w":[]})),
                    }
                }
                continue;
            }
            kids.push(build_tree(spec, *k, ctx, evs, log_acc)?);
        }
        match zlast {
            Some(zk) => build_inner_z(&nd.kind, n, kids, zk, evs)?,
            None => build_inner(&nd.kind, n, kids, evs)?,
        }
    };
    if log_acc {
        match node_acc_checked(&node) {
            Some((r, w)) => evs.push(json!({"ev":"acc","n":n,"out":"ok","r":r,"w":w})),
            None => evs.push(json!({"ev":"acc","n":n,"out":"panic","r":[],"w":[]})),
        }
    }
    Some(node)
}

// ---------------------------------------------------------------- controlled dispatch

#[derive(Clone, Copy, Debug, PartialEq, Eq)]
pub enum Caller {
    /// `dispatch` called from a thread that belongs to no pool
    Outside,
    /// from inside the pool: `pool.install(|| dispatch)`
    Inside,
    /// from a worker of a different pool
    Other,
}
impl Caller {
    pub fn name(&self) -> &'static str {
        match self {
            Caller::Outside => "outside",
            Caller::Inside => "inside",
            Caller::Other => "other",
        }
    }
}

pub struct Timing {
    pub stall: Duration,
    pub grace: Duration,
}

#[derive(Default, Debug)]
pub struct RunStats {
    pub stalls: usize,
    pub deviated: bool,
    /// forced schedules: the set of leaves inside `run` equalled the model's before every finish
    pub runsets_equal: bool,
    pub max_overlap: usize,
    pub result_ok: bool,
}

pub enum Sched<'s> {
    Random(&'s mut StdRng),
    /// (leaf to finish next, leaves the model has in `run` just before)
    Forced(Vec<(usize, Vec<usize>)>),
    /// no gating at all
    Free,
}

/// One `dispatch` of the real tree with every started leaf held inside `run`.
pub fn dispatch_controlled(
    ps: &mut ParSeq<&ThreadPool, DynNode>,
    world: &World,
    ctx: &Arc<PCtx>,
    spec: &TreeSpec,
    pool: &ThreadPool,
    other: &ThreadPool,
    caller: Caller,
    mut sched: Sched,
    tm: &Timing,
) -> RunStats {
    let threads = pool.current_num_threads();
    {
        let mut g = ctx.m.lock().unwrap();
        g.gated = !matches!(sched, Sched::Free);
        g.waiting.clear();
        g.released.clear();
        g.finished.clear();
        g.done = false;
        let gated = g.gated;
        g.log.push(json!({"ev":"begin","caller":caller.name(),"threads":threads,"gated":gated}));
    }
    let pre = spec.prerequisites();
    let leaves = spec.leaves();
    let mut st = RunStats { runsets_equal: true, ..Default::default() };
    let ok = std::thread::scope(|s| {
        let h = s.spawn(|| {
            let r = catch_unwind(AssertUnwindSafe(|| match caller {
                Caller::Outside => ps.dispatch(world),
                Caller::Inside => pool.install(|| ps.dispatch(world)),
                Caller::Other => other.install(|| ps.dispatch(world)),
            }));
            let mut g = ctx.m.lock().unwrap();
            g.done = true;
            ctx.cv.notify_all();
            r.is_ok()
        });
        // ---- the controller
        let mut step = 0usize;
        let mut g = ctx.m.lock().unwrap();
        let hard = Instant::now() + Duration::from_secs(120);
        while !g.done && g.gated {
            assert!(Instant::now() < hard, "HARNESS: controlled dispatch did not terminate");
            // 1. wait for the leaves that are expected to arrive
            let want: Option<Vec<usize>> = match &sched {
                Sched::Forced(h) => h.get(step).map(|x| x.1.clone()),
                _ => None,
            };
            let deadline = Instant::now() + tm.stall;
            loop {
                // heuristic: as many leaves as can be inside `run` at once are there
                let enabled = leaves
                    .iter()
                    .filter(|l| !g.finished.contains(l) && pre[l].iter().all(|p| g.finished.contains(p)))
                    .count();
                let full = g.waiting.len() >= enabled.min(threads);
                let ready = match &want {
                    Some(run) => run.iter().all(|l| g.waiting.contains(l)) || (full && threads < run.len()),
                    None => full,
                };
                if (ready && !g.waiting.is_empty()) || g.done {
                    break;
                }
                let now = Instant::now();
                if now >= deadline {
                    if !g.waiting.is_empty() {
                        st.stalls += 1;
                        break;
                    }
                    // nothing to release yet: keep waiting (bounded by `hard`)
                    let (ng, _) = ctx.cv.wait_timeout(g, Duration::from_millis(50)).unwrap();
                    g = ng;
                    if Instant::now() >= hard {
                        break;
                    }
                    continue;
                }
                let (ng, _) = ctx.cv.wait_timeout(g, deadline - now).unwrap();
                g = ng;
            }
            if g.done {
                break;
            }
            // 2. grace period for arrivals that should NOT happen
            let t_end = Instant::now() + tm.grace;
            loop {
                let now = Instant::now();
                if now >= t_end {
                    break;
                }
                let (ng, _) = ctx.cv.wait_timeout(g, t_end - now).unwrap();
                g = ng;
            }
            if g.waiting.is_empty() {
                continue;
            }
            st.max_overlap = st.max_overlap.max(g.waiting.len());
            // 3. release exactly one
            let pick = match &mut sched {
                Sched::Forced(h) => match h.get(step) {
                    Some((f, run)) => {
                        let mut a = run.clone();
                        let mut b = g.waiting.clone();
                        a.sort();
                        b.sort();
                        if a != b {
                            st.runsets_equal = false;
                        }
                        if g.waiting.contains(f) {
                            *f
                        } else {
                            // unrealisable at this point (work stealing on a blocked stack, small pool): deviation
                            st.deviated = true;
                            g.waiting[0]
                        }
                    }
                    None => {
                        st.deviated = true;
                        g.waiting[0]
                    }
                },
                Sched::Random(rng) => *g.waiting.choose(*rng).unwrap(),
                Sched::Free => unreachable!(),
            };
            step += 1;
            g.released.insert(pick);
            ctx.cv.notify_all();
            while !g.finished.contains(&pick) && !g.done {
                let (ng, _) = ctx.cv.wait_timeout(g, Duration::from_millis(200)).unwrap();
                g = ng;
                assert!(Instant::now() < hard, "HARNESS: a released leaf did not finish");
            }
        }
        drop(g);
        h.join().expect("HARNESS: dispatch thread")
    });
    st.result_ok = ok;
    ctx.ev(json!({"ev":"end","res": if ok {"ok"} else {"panic"}}));
    st
}

// ---------------------------------------------------------------- random trees

pub struct GenCfg {
    pub max_depth: usize,
    pub max_fan: usize,
    pub max_leaves: usize,
    pub n_res: u32,
    pub p_conflict: f64,
    /// probability that a leaf becomes a static leaf with Option<Read<OptA>> data
    pub p_opt: f64,
    /// probability that a (dynamic) leaf is the zero-sized `ZLeaf<K>`; sometimes ALL leaves are
    pub p_z: f64,
}

/// Random shape (preorder table) with at most `max_leaves` leaves.
pub fn gen_shape(rng: &mut StdRng, cfg: &GenCfg) -> TreeSpec {
    fn go(rng: &mut StdRng, cfg: &GenCfg, depth: usize, budget: &mut usize, out: &mut Vec<NodeSpec>) -> usize {
        let id = out.len() + 1;
        let leaf = depth == cfg.max_depth || *budget <= 1 || rng.gen_bool(if depth == 0 { 0.03 } else { 0.3 });
        if leaf {
            *budget = budget.saturating_sub(1);
            out.push(NodeSpec { kind: "leaf".into(), kids: vec![], r: vec![], w: vec![], opt: String::new(), z: None });
            return id;
        }
        let kind = if rng.gen_bool(0.55) { "par" } else { "seq" };
        out.push(NodeSpec { kind: kind.into(), kids: vec![], r: vec![], w: vec![], opt: String::new(), z: None });
        let fan = if rng.gen_bool(0.08) { 1 } else { rng.gen_range(2..=cfg.max_fan) };
        let mut kids = Vec::new();
        for i in 0..fan {
            if *budget == 0 && i > 0 {
                break;
            }
            kids.push(go(rng, cfg, depth + 1, budget, out));
        }
        out[id - 1].kids = kids;
        id
    }
    let mut out = Vec::new();
    let mut budget = cfg.max_leaves;
    go(rng, cfg, 0, &mut budget, &mut out);
    TreeSpec(out)
}

/// Leaf access declarations such that children of a par node never conflict (writable
/// resources are partitioned among them), optionally spoilt by one random extra access.
pub fn assign_access(rng: &mut StdRng, spec: &mut TreeSpec, cfg: &GenCfg) {
    fn go(rng: &mut StdRng, spec: &mut TreeSpec, n: usize, w: Vec<u32>, r: Vec<u32>) {
        let nd = spec.node(n).clone();
        match nd.kind.as_str() {
            "leaf" => {
                let mut ws: Vec<u32> = w.iter().copied().filter(|_| rng.gen_bool(0.4)).collect();
                let mut rs: Vec<u32> = w.iter().chain(r.iter()).copied().filter(|x| !ws.contains(x) && rng.gen_bool(0.4)).collect();
                if rng.gen_bool(0.15) && !rs.is_empty() {
                    let d = rs[0];
                    rs.push(d); // declared twice
                }
                if rng.gen_bool(0.1) && !ws.is_empty() {
                    // the same resource declared as read and as write by one leaf
                    rs.push(ws[0]);
                }
                ws.shuffle(rng);
                rs.shuffle(rng);
                spec.0[n - 1].r = rs;
                spec.0[n - 1].w = ws;
            }
            "seq" => {
                for k in nd.kids {
                    go(rng, spec, k, w.clone(), r.clone());
                }
            }
            _ => {
                // par: some writable resources become shared read-only, the rest is partitioned
                let mut r2 = r.clone();
                let mut parts: Vec<Vec<u32>> = vec![Vec::new(); nd.kids.len()];
                for x in w {
                    if rng.gen_bool(0.3) {
                        r2.push(x);
                    } else {
                        let i = rng.gen_range(0..parts.len());
                        parts[i].push(x);
                    }
                }
                for (i, k) in nd.kids.iter().enumerate() {
                    go(rng, spec, *k, parts[i].clone(), r2.clone());
                }
            }
        }
    }
    let all: Vec<u32> = (1..=cfg.n_res).collect();
    go(rng, spec, 1, all, vec![]);
    if cfg.p_opt > 0.0 {
        let ls = spec.leaves();
        for l in &ls {
            if rng.gen_bool(cfg.p_opt) {
                spec.0[l - 1].opt = "r".into();
                spec.0[l - 1].r = vec![RES_OPT_A];
                spec.0[l - 1].w = vec![];
            }
        }
        // Option<Write<OptB>>: mostly one per tree (two under a par node conflict -- which is modelled)
        for _ in 0..(if rng.gen_bool(0.15) { 2 } else { 1 }) {
            if rng.gen_bool(cfg.p_opt * 2.0) {
                let l = *ls.choose(rng).unwrap();
                spec.0[l - 1].opt = "w".into();
                spec.0[l - 1].r = vec![];
                spec.0[l - 1].w = vec![RES_OPT_B];
            }
        }
    }
    if cfg.p_z > 0.0 {
        let all = rng.gen_bool(0.12);
        let mut k = 0usize;
        for l in spec.leaves() {
            if k < NZ && spec.node(l).opt.is_empty() && (all || rng.gen_bool(cfg.p_z)) {
                spec.0[l - 1].z = Some(k);
                k += 1;
            }
        }
    }
    if rng.gen_bool(cfg.p_conflict) {
        // (only dynamic leaves can be given an extra declaration)
        let ls: Vec<usize> = spec.leaves().into_iter().filter(|l| spec.node(*l).opt.is_empty()).collect();
        let Some(&l) = ls.choose(rng) else { return };
        let x = rng.gen_range(1..=cfg.n_res);
        if rng.gen_bool(0.6) {
            spec.0[l - 1].w.push(x);
        } else {
            spec.0[l - 1].r.push(x);
        }
    }
}
