//! C17: the real `MetaTable<dyn Obj>` / `World` driven call by call.
//!
//! Implementing types of different sizes and alignments report, THROUGH THE
//! TRAIT OBJECT, their type tag, their own address and their value; every
//! type has its own `bump`.  Each model type `t` exists in two flavours:
//! `G<t>` with a correct `CastFrom` and `B<t>` whose `CastFrom` moves the
//! address (16 bytes into the object, so that a library that forgot to check
//! would still only touch memory of the object itself).
//!
//! `Machine` executes one call at a time and returns the observation as a
//! JSON event (the format `spec/MetaTrace.tla` reads).  Addresses are
//! renumbered densely.  Borrow states are probed through
//! `try_fetch_internal` on the only thread there is (S3).

use std::{
    collections::{BTreeMap, HashMap},
    panic::{catch_unwind, AssertUnwindSafe},
};

use serde_json::{json, Value};
use shred::{
    cell::{AtomicRef, AtomicRefMut},
    CastFrom, Fetch, FetchMut, MetaIter, MetaIterMut, MetaTable, Resource, ResourceId, World,
};

/// model types 1..8: the hand-written universe; 9..=308: the const-generic family `R<N>`
pub const MAXT: usize = 308;
pub const MODV: u32 = 1009;

pub trait Obj {
    fn tag(&self) -> u32;
    fn addr(&self) -> usize;
    fn val(&self) -> u32;
    fn bump(&mut self) -> u32;
}

pub trait Mk: Obj + Resource + Sized {
    fn mk(v: u32) -> Self;
}

macro_rules! objty {
    ($name:ident, $tag:expr, $pre:ty, $post:ty, $good:expr) => {
        pub struct $name {
            pub pre: $pre,
            pub v: u32,
            pub post: $post,
        }
        impl Obj for $name {
            fn tag(&self) -> u32 {
                $tag
            }
            fn addr(&self) -> usize {
                self as *const Self as usize
            }
            fn val(&self) -> u32 {
                self.v
            }
            fn bump(&mut self) -> u32 {
                self.v = (3 * self.v + $tag) % MODV;
                self.v
            }
        }
        impl Mk for $name {
            fn mk(v: u32) -> Self {
                $name { pre: Default::default(), v, post: Default::default() }
            }
        }
        unsafe impl CastFrom<$name> for dyn Obj {
            fn cast(t: *mut $name) -> *mut Self {
                if $good {
                    t
                } else {
                    // deliberately wrong: a different address (inside the object)
                    (t as *mut u8).wrapping_add(16) as *mut $name
                }
            }
        }
    };
}

#[derive(Default)]
#[repr(align(16))]
pub struct A16(pub [u8; 16]);
#[derive(Default)]
#[repr(align(32))]
pub struct A32(pub [u8; 32]);

/// The object a bad cast of a ZERO-SIZED type redirects to (never written: the harness does not
/// write through a trait object that reports a foreign tag / address).
pub struct Fallback {
    pub pad: [u64; 4],
    pub v: u32,
}
impl Obj for Fallback {
    fn tag(&self) -> u32 {
        99
    }
    fn addr(&self) -> usize {
        self as *const Self as usize
    }
    fn val(&self) -> u32 {
        self.v
    }
    fn bump(&mut self) -> u32 {
        self.v
    }
}
pub static FALLBACK: Fallback = Fallback { pad: [0; 4], v: 0 };

/// The value a zero-sized type of tag `t` "holds": the fixed point of its bump v -> (3v+t) mod 1009
/// (a ZST has no storage, so its value can never change; 505 = 1/2 mod 1009).
pub const fn zst_val(t: u32) -> u32 {
    ((MODV - t) * 505) % MODV
}

/// Zero-sized implementing types (a `Box` of one is a dangling, aligned address).
macro_rules! zstty {
    ($name:ident, $tag:expr, $good:expr $(, $attr:meta)?) => {
        $(#[$attr])?
        pub struct $name;
        impl Obj for $name {
            fn tag(&self) -> u32 {
                $tag
            }
            fn addr(&self) -> usize {
                self as *const Self as usize
            }
            fn val(&self) -> u32 {
                zst_val($tag)
            }
            fn bump(&mut self) -> u32 {
                (3 * zst_val($tag) + $tag) % MODV
            }
        }
        impl Mk for $name {
            fn mk(_v: u32) -> Self {
                $name
            }
        }
        unsafe impl CastFrom<$name> for dyn Obj {
            fn cast(t: *mut $name) -> *mut Self {
                if $good {
                    t
                } else {
                    // deliberately wrong: another object altogether
                    (&FALLBACK as *const Fallback).cast_mut()
                }
            }
        }
    };
}

// good flavours: sizes 0 .. 200 bytes, alignments 1 .. 32 (types 2, 4, 8 are ZERO-SIZED)
objty!(G1, 1, (), (), true);
zstty!(G2, 2, true);
/// Type 3 (good flavour): the resource type is EXACTLY `Box<dyn Resource>` -- a legal resource type of
/// its own.  Its "object" is the box (the fat pointer stored in the world cell); the value lives in
/// the `BoxInner` it points to, at a different address.
pub type G3 = Box<dyn Resource>;
pub struct BoxInner {
    pub pad: [u64; 3],
    pub v: u32,
}
impl Obj for Box<dyn Resource> {
    fn tag(&self) -> u32 {
        3
    }
    fn addr(&self) -> usize {
        self as *const Self as usize
    }
    fn val(&self) -> u32 {
        let inner: &dyn Resource = &**self;
        inner.downcast_ref::<BoxInner>().map(|i| i.v).unwrap_or(0)
    }
    fn bump(&mut self) -> u32 {
        let inner: &mut dyn Resource = &mut **self;
        match inner.downcast_mut::<BoxInner>() {
            Some(i) => {
                i.v = (3 * i.v + 3) % MODV;
                i.v
            }
            None => 0,
        }
    }
}
impl Mk for Box<dyn Resource> {
    fn mk(v: u32) -> Self {
        Box::new(BoxInner { pad: [0; 3], v })
    }
}
unsafe impl CastFrom<Box<dyn Resource>> for dyn Obj {
    fn cast(t: *mut Box<dyn Resource>) -> *mut Self {
        t
    }
}

/// A family of 300 more implementing types (model types 9..=308), for tables with more entries
/// than any small integer type can number.
pub struct R<const N: usize> {
    pub v: u32,
    pub pad: u16,
}
impl<const N: usize> Obj for R<N> {
    fn tag(&self) -> u32 {
        N as u32
    }
    fn addr(&self) -> usize {
        self as *const Self as usize
    }
    fn val(&self) -> u32 {
        self.v
    }
    fn bump(&mut self) -> u32 {
        self.v = (3 * self.v + N as u32) % MODV;
        self.v
    }
}
impl<const N: usize> Mk for R<N> {
    fn mk(v: u32) -> Self {
        R { v, pad: N as u16 }
    }
}
unsafe impl<const N: usize> CastFrom<R<N>> for dyn Obj {
    fn cast(t: *mut R<N>) -> *mut Self {
        t
    }
}

zstty!(G4, 4, true, repr(align(8)));
objty!(G5, 5, A16, u64, true);
objty!(G6, 6, [u64; 12], [u64; 12], true);
objty!(G7, 7, A32, (), true);
zstty!(G8, 8, true);
// bad flavours: at least 48 bytes in front of and 32 bytes behind the value; 2, 4, 8 zero-sized
objty!(B1, 1, [u64; 6], [u64; 4], false);
zstty!(B2, 2, false);
objty!(B3, 3, [u64; 8], [u64; 5], false);
zstty!(B4, 4, false);
objty!(B5, 5, [u64; 6], [u64; 6], false);
objty!(B6, 6, [u64; 10], [u64; 4], false);
objty!(B7, 7, [u64; 6], [u64; 7], false);
zstty!(B8, 8, false, repr(align(16)));

/// `f::<R<n>> args` for n in 9..=308 (the argument list is passed as one token tree)
macro_rules! many_arms {
    ($n:expr, $f:ident, $args:tt) => {
        many_list!($n, $f, $args; 9 10 11 12 13 14 15 16 17 18 19 20 21 22 23 24 25 26 27 28 29 30 31 32 33 34 35 36 37 38 39 40 41 42 43 44 45 46 47 48 49 50 51 52 53 54 55 56 57 58 59 60 61 62 63 64 65 66 67 68 69 70 71 72 73 74 75 76 77 78 79 80 81 82 83 84 85 86 87 88 89 90 91 92 93 94 95 96 97 98 99 100 101 102 103 104 105 106 107 108 109 110 111 112 113 114 115 116 117 118 119 120 121 122 123 124 125 126 127 128 129 130 131 132 133 134 135 136 137 138 139 140 141 142 143 144 145 146 147 148 149 150 151 152 153 154 155 156 157 158 159 160 161 162 163 164 165 166 167 168 169 170 171 172 173 174 175 176 177 178 179 180 181 182 183 184 185 186 187 188 189 190 191 192 193 194 195 196 197 198 199 200 201 202 203 204 205 206 207 208 209 210 211 212 213 214 215 216 217 218 219 220 221 222 223 224 225 226 227 228 229 230 231 232 233 234 235 236 237 238 239 240 241 242 243 244 245 246 247 248 249 250 251 252 253 254 255 256 257 258 259 260 261 262 263 264 265 266 267 268 269 270 271 272 273 274 275 276 277 278 279 280 281 282 283 284 285 286 287 288 289 290 291 292 293 294 295 296 297 298 299 300 301 302 303 304 305 306 307 308)
    };
}
macro_rules! many_list {
    ($n:expr, $f:ident, $args:tt; $($k:literal)*) => {
        match $n {
            $( $k => $f::<R<$k>> $args, )*
            _ => panic!("HARNESS: no such type"),
        }
    };
}

/// `by_type!(t, bad, f(args))` calls `f::<X>(args)` for the Rust type of model type `t`.
macro_rules! by_type {
    ($t:expr, $bad:expr, $f:ident ( $($a:expr),* )) => {
        match ($t, $bad) {
            (1, false) => $f::<G1>($($a),*),
            (2, false) => $f::<G2>($($a),*),
            (3, false) => $f::<G3>($($a),*),
            (4, false) => $f::<G4>($($a),*),
            (5, false) => $f::<G5>($($a),*),
            (6, false) => $f::<G6>($($a),*),
            (7, false) => $f::<G7>($($a),*),
            (8, false) => $f::<G8>($($a),*),
            (1, true) => $f::<B1>($($a),*),
            (2, true) => $f::<B2>($($a),*),
            (3, true) => $f::<B3>($($a),*),
            (4, true) => $f::<B4>($($a),*),
            (5, true) => $f::<B5>($($a),*),
            (6, true) => $f::<B6>($($a),*),
            (7, true) => $f::<B7>($($a),*),
            (8, true) => $f::<B8>($($a),*),
            (n, false) if n > 8 => many_arms!(n, $f, ($($a),*)),
            _ => panic!("HARNESS: no such type"),
        }
    };
}

// ---------------------------------------------------------------- type-erased helpers

pub trait TypedGuard {
    fn res(&self) -> &dyn Resource;
    fn res_mut(&mut self) -> Option<&mut dyn Resource>;
    fn addr(&self) -> usize;
    fn val(&self) -> u32;
}
impl<T: Obj + Resource> TypedGuard for Fetch<'static, T> {
    fn res(&self) -> &dyn Resource {
        let r: &T = self;
        r
    }
    fn res_mut(&mut self) -> Option<&mut dyn Resource> {
        None
    }
    fn addr(&self) -> usize {
        let r: &T = self;
        r as *const T as usize
    }
    fn val(&self) -> u32 {
        Obj::val(&**self)
    }
}
impl<T: Obj + Resource> TypedGuard for FetchMut<'static, T> {
    fn res(&self) -> &dyn Resource {
        let r: &T = self;
        r
    }
    fn res_mut(&mut self) -> Option<&mut dyn Resource> {
        let r: &mut T = self;
        Some(r)
    }
    fn addr(&self) -> usize {
        let r: &T = self;
        r as *const T as usize
    }
    fn val(&self) -> u32 {
        Obj::val(&**self)
    }
}

pub trait LooseObj {
    fn res(&self) -> &dyn Resource;
    fn res_mut(&mut self) -> &mut dyn Resource;
    fn addr(&self) -> usize;
    fn val(&self) -> u32;
}
impl<T: Obj + Resource> LooseObj for T {
    fn res(&self) -> &dyn Resource {
        self
    }
    fn res_mut(&mut self) -> &mut dyn Resource {
        self
    }
    fn addr(&self) -> usize {
        self as *const T as usize
    }
    fn val(&self) -> u32 {
        Obj::val(self)
    }
}

fn rid<T: Resource>(d: u64) -> ResourceId {
    ResourceId::new_with_dynamic_id::<T>(d)
}
fn do_insert<T: Mk>(w: &mut World, d: u64, v: u32) -> (usize, u32) {
    w.insert_by_id(rid::<T>(d), T::mk(v));
    let g = w.try_fetch_by_id::<T>(rid::<T>(d)).expect("HARNESS: just inserted");
    // the value is read back through the concrete type (a zero-sized type has a fixed one)
    (Obj::addr(&*g), Obj::val(&*g))
}
fn do_remove<T: Mk>(w: &mut World, d: u64) -> bool {
    w.remove_by_id::<T>(rid::<T>(d)).is_some()
}
fn do_fetch<T: Mk>(w: &'static World, d: u64, write: bool) -> Option<Box<dyn TypedGuard>> {
    if write {
        w.try_fetch_mut_by_id::<T>(rid::<T>(d)).map(|g| Box::new(g) as Box<dyn TypedGuard>)
    } else {
        w.try_fetch_by_id::<T>(rid::<T>(d)).map(|g| Box::new(g) as Box<dyn TypedGuard>)
    }
}
fn do_register<T: Mk>(t: &mut MetaTable<dyn Obj>)
where
    dyn Obj: CastFrom<T>,
{
    t.register::<T>();
}
fn do_loose<T: Mk>(v: u32) -> Box<dyn LooseObj> {
    Box::new(T::mk(v))
}

fn panic_kind(p: Box<dyn std::any::Any + Send>) -> &'static str {
    let s = if let Some(s) = p.downcast_ref::<&str>() {
        s.to_string()
    } else if let Some(s) = p.downcast_ref::<String>() {
        s.clone()
    } else {
        String::new()
    };
    if s.contains("CastFrom") {
        "panic_cast"
    } else if s.contains("borrowed") {
        "panic_borrow"
    } else {
        "panic_other"
    }
}

enum Guard {
    Typed(Box<dyn TypedGuard>),
    ItemR(AtomicRef<'static, dyn Obj>),
    ItemW(AtomicRefMut<'static, dyn Obj>),
}
enum Iter {
    R(MetaIter<'static, dyn Obj>),
    W(MetaIterMut<'static, dyn Obj>),
}

/// What the harness does with an item an iterator (or an adapter over it) handed out.
trait Item: Sized {
    /// (tag, address, value) as reported through the trait object; iter_mut items are bumped
    fn observe(&mut self, genuine: &dyn Fn(u32, usize) -> bool) -> (u32, usize, u32);
    fn into_guard(self) -> Guard;
}
impl Item for AtomicRef<'static, dyn Obj> {
    fn observe(&mut self, genuine: &dyn Fn(u32, usize) -> bool) -> (u32, usize, u32) {
        let v = if genuine(self.tag(), self.addr()) { self.val() } else { 0 };
        (self.tag(), self.addr(), v)
    }
    fn into_guard(self) -> Guard {
        Guard::ItemR(self)
    }
}
impl Item for AtomicRefMut<'static, dyn Obj> {
    fn observe(&mut self, genuine: &dyn Fn(u32, usize) -> bool) -> (u32, usize, u32) {
        let v = if genuine(self.tag(), self.addr()) { self.bump() } else { 0 };
        (self.tag(), self.addr(), v)
    }
    fn into_guard(self) -> Guard {
        Guard::ItemW(self)
    }
}

/// The iterator consumed through a std adapter; returns (items handed out, end, count).
/// Every call into the adapter is under `catch_unwind`.
fn walk_iter<I: Iterator>(it: &mut I, how: &str, n: usize, m: usize) -> (Vec<I::Item>, String, usize) {
    let mut out = Vec::new();
    let pk = |p: Box<dyn std::any::Any + Send>| panic_kind(p).to_string();
    match how {
        "nth" => match catch_unwind(AssertUnwindSafe(|| it.nth(n))) {
            Ok(Some(x)) => {
                out.push(x);
                (out, "done".into(), 0)
            }
            Ok(None) => (out, "none".into(), 0),
            Err(p) => (out, pk(p), 0),
        },
        "last" => match catch_unwind(AssertUnwindSafe(|| it.by_ref().last())) {
            Ok(Some(x)) => {
                out.push(x);
                (out, "none".into(), 0)
            }
            Ok(None) => (out, "none".into(), 0),
            Err(p) => (out, pk(p), 0),
        },
        "count" => match catch_unwind(AssertUnwindSafe(|| it.by_ref().count())) {
            Ok(c) => (out, "none".into(), c),
            Err(p) => (out, pk(p), 0),
        },
        _ => {
            let mut ad: Box<dyn Iterator<Item = I::Item> + '_> = match how {
                "skip" => Box::new(it.by_ref().skip(n).take(m)),
                "step" => Box::new(it.by_ref().step_by(n).take(m)),
                "take" => Box::new(it.by_ref().take(m)),
                _ => panic!("HARNESS: unknown adapter {}", how),
            };
            loop {
                if out.len() == m {
                    return (out, "done".into(), 0);
                }
                match catch_unwind(AssertUnwindSafe(|| ad.next())) {
                    Ok(Some(x)) => out.push(x),
                    Ok(None) => return (out, "none".into(), 0),
                    Err(p) => return (out, pk(p), 0),
                }
            }
        }
    }
}

/// One world + one meta table + the live guards / iterators of one history.
pub struct Machine {
    world: *mut World,
    table: *mut MetaTable<dyn Obj>,
    guards: BTreeMap<u64, Guard>,
    iters: BTreeMap<u64, Iter>,
    loose: Vec<Box<dyn LooseObj>>,
    addrs: HashMap<usize, u64>,
    gmeta: HashMap<u64, (usize, u64, bool)>,
    cells: HashMap<(usize, u64), u64>,
    cell_raw: HashMap<(usize, u64), usize>,
    pub nt: usize,
    pub bad: Vec<bool>, // index t (1-based; [0] unused)
    pub max_g: usize,
    pub max_i: usize,
    /// probe the borrow table after every call (off for histories over hundreds of types)
    pub probe_on: bool,
}

impl Drop for Machine {
    fn drop(&mut self) {
        self.guards.clear();
        self.iters.clear();
        // SAFETY: nothing borrows them any more
        unsafe {
            drop(Box::from_raw(self.table));
            drop(Box::from_raw(self.world));
        }
    }
}

impl Machine {
    /// Returns the machine and its `reset` event.
    pub fn new(nt: usize, bad_types: &[usize], seed_val: u32, max_g: usize, max_i: usize, extra: Value) -> (Self, Value) {
        assert!(nt <= MAXT);
        let mut bad = vec![false; nt + 1];
        for b in bad_types {
            bad[*b] = true;
        }
        let mut m = Machine {
            world: Box::into_raw(Box::new(World::empty())),
            table: Box::into_raw(Box::new(MetaTable::<dyn Obj>::new())),
            guards: BTreeMap::new(),
            iters: BTreeMap::new(),
            loose: Vec::new(),
            addrs: HashMap::new(),
            gmeta: HashMap::new(),
            cells: HashMap::new(),
            cell_raw: HashMap::new(),
            nt,
            bad,
            max_g,
            max_i,
            probe_on: true,
        };
        let mut la = Vec::new();
        let mut lv = Vec::new();
        for t in 1..=nt {
            let v = (seed_val + 17 * t as u32) % MODV;
            let b = m.bad[t];
            let o = by_type!(t, b, do_loose(v));
            la.push(m.aid(o.addr()));
            lv.push(o.val());
            m.loose.push(o);
        }
        let mut ev = json!({"ev":"reset","nt":nt,"bad":bad_types,"loose":la,"lv":lv});
        if let (Some(o), Some(e)) = (ev.as_object_mut(), extra.as_object()) {
            for (k, v) in e {
                o.insert(k.clone(), v.clone());
            }
        }
        (m, ev)
    }

    fn aid(&mut self, a: usize) -> u64 {
        let n = self.addrs.len() as u64 + 1;
        *self.addrs.entry(a).or_insert(n)
    }
    fn w(&self) -> &'static World {
        // SAFETY: `&mut World` is only formed while no guard / iterator exists (asserted)
        unsafe { &*self.world }
    }
    fn tab(&self) -> &'static MetaTable<dyn Obj> {
        // SAFETY: `&mut MetaTable` is only formed while no iterator exists (asserted)
        unsafe { &*self.table }
    }
    pub fn quiet(&self) -> bool {
        self.guards.is_empty() && self.iters.is_empty()
    }
    pub fn n_guards(&self) -> usize {
        self.guards.len()
    }
    pub fn n_iters(&self) -> usize {
        self.iters.len()
    }
    pub fn guard_ids(&self) -> Vec<u64> {
        self.guards.keys().copied().collect()
    }
    pub fn typed_guard_ids(&self, need_mut: bool) -> Vec<u64> {
        self.guards
            .iter()
            .filter(|(_, g)| match g {
                Guard::Typed(_) => true,
                _ => false,
            })
            .filter(|(id, _)| !need_mut || self.gmeta.get(id).map(|m| m.2).unwrap_or(false))
            .map(|(id, _)| *id)
            .collect()
    }
    pub fn iter_ids(&self) -> Vec<u64> {
        self.iters.keys().copied().collect()
    }
    pub fn present_cells(&self) -> Vec<(usize, u64)> {
        let mut v: Vec<_> = self.cells.keys().copied().collect();
        v.sort();
        v
    }
    pub fn free_guard(&self) -> Option<u64> {
        (1..=self.max_g as u64).find(|i| !self.guards.contains_key(i))
    }
    pub fn free_iter(&self) -> Option<u64> {
        (1..=self.max_i as u64).find(|i| !self.iters.contains_key(i))
    }

    /// Borrow table as probed on the real cells: index 2(t-1)+d.
    pub fn probe(&self) -> Vec<&'static str> {
        if !self.probe_on {
            return Vec::new();
        }
        let mut out = Vec::with_capacity(2 * self.nt);
        for t in 1..=self.nt {
            for d in 0..2u64 {
                let b = self.bad[t];
                let id = by_type!(t, b, rid(d));
                // SAFETY: the Box is not replaced
                let s = match unsafe { self.w().try_fetch_internal(id) } {
                    None => "-",
                    Some(c) => {
                        if c.try_borrow_mut().is_ok() {
                            "0"
                        } else if c.try_borrow().is_ok() {
                            "r"
                        } else {
                            "w"
                        }
                    }
                };
                out.push(s);
            }
        }
        out
    }

    pub fn reg(&mut self, t: usize) -> Value {
        assert!(self.iters.is_empty(), "HARNESS: register while an iterator is alive");
        let b = self.bad[t];
        // SAFETY: no iterator borrows the table
        let tab = unsafe { &mut *self.table };
        let r = catch_unwind(AssertUnwindSafe(|| by_type!(t, b, do_register(tab))));
        json!({"ev":"reg","t":t,"out": if r.is_ok() {"ok"} else {"panic_other"},"b":self.probe()})
    }

    pub fn ins(&mut self, t: usize, d: u64, v: u32) -> Value {
        assert!(self.quiet(), "HARNESS: world mutation while borrowed");
        let b = self.bad[t];
        // SAFETY: nothing borrows the world
        let w = unsafe { &mut *self.world };
        let (a, v) = by_type!(t, b, do_insert(w, d, v));
        self.cell_raw.insert((t, d), a);
        let a = self.aid(a);
        self.cells.insert((t, d), a);
        json!({"ev":"ins","t":t,"d":d,"a":a,"v":v,"b":self.probe()})
    }

    pub fn rem(&mut self, t: usize, d: u64) -> Value {
        assert!(self.quiet(), "HARNESS: world mutation while borrowed");
        let b = self.bad[t];
        // SAFETY: nothing borrows the world
        let w = unsafe { &mut *self.world };
        let was = by_type!(t, b, do_remove(w, d));
        self.cells.remove(&(t, d));
        self.cell_raw.remove(&(t, d));
        json!({"ev":"rem","t":t,"d":d,"out": if was {"some"} else {"none"},"b":self.probe()})
    }

    pub fn fetch(&mut self, t: usize, d: u64, k: &str, g: u64) -> Value {
        let b = self.bad[t];
        let w = self.w();
        let write = k == "w";
        let r = catch_unwind(AssertUnwindSafe(|| by_type!(t, b, do_fetch(w, d, write))));
        match r {
            Ok(Some(gd)) => {
                let v = gd.val();
                assert!(!self.guards.contains_key(&g), "HARNESS: guard id in use");
                self.guards.insert(g, Guard::Typed(gd));
                self.gmeta.insert(g, (t, d, write));
                json!({"ev":"fetch","t":t,"d":d,"k":k,"g":g,"out":"ok","v":v,"b":self.probe()})
            }
            Ok(None) => json!({"ev":"fetch","t":t,"d":d,"k":k,"g":0,"out":"none","v":0,"b":self.probe()}),
            Err(p) => json!({"ev":"fetch","t":t,"d":d,"k":k,"g":0,"out":panic_kind(p),"v":0,"b":self.probe()}),
        }
    }

    pub fn drop_guard(&mut self, g: u64) -> Value {
        self.guards.remove(&g).expect("HARNESS: no such guard");
        self.gmeta.remove(&g);
        json!({"ev":"drop","g":g,"b":self.probe()})
    }

    fn obs(&mut self, ev: &str, t: usize, d: u64, g: u64, ain: usize, r: std::thread::Result<Option<(u32, usize, u32)>>) -> Value {
        let ain = self.aid(ain);
        match r {
            Ok(Some((tag, a, v))) => {
                let aout = self.aid(a);
                json!({"ev":ev,"t":t,"d":d,"g":g,"out":"some","tag":tag,"ain":ain,"aout":aout,"v":v,"b":self.probe()})
            }
            Ok(None) => json!({"ev":ev,"t":t,"d":d,"g":g,"out":"none","tag":0,"ain":ain,"aout":0,"v":0,"b":self.probe()}),
            Err(p) => json!({"ev":ev,"t":t,"d":d,"g":g,"out":panic_kind(p),"tag":0,"ain":ain,"aout":0,"v":0,"b":self.probe()}),
        }
    }

    /// `table.get(&*guard)` / `table.get_mut(&mut *guard)` on a typed guard.
    pub fn get_via(&mut self, g: u64, mutable: bool) -> Value {
        let (t, d, _) = *self.gmeta.get(&g).expect("HARNESS: no such typed guard");
        let tab = self.tab();
        let Some(Guard::Typed(gd)) = self.guards.get_mut(&g) else { panic!("HARNESS: not a typed guard") };
        let ain = gd.addr();
        let r = if mutable {
            let res = gd.res_mut().expect("HARNESS: get_mut needs an exclusive guard");
            catch_unwind(AssertUnwindSafe(|| {
                tab.get_mut(res).map(|o| {
                    // safety net of the harness: never WRITE through a trait object that claims
                    // to be something else than what was passed in (the observation is recorded as is)
                    if o.tag() as usize != t || o.addr() != ain {
                        return (o.tag(), o.addr(), 0);
                    }
                    let v = o.bump();
                    (o.tag(), o.addr(), v)
                })
            }))
        } else {
            let res = gd.res();
            catch_unwind(AssertUnwindSafe(|| {
                tab.get(res).map(|o| if o.tag() as usize != t || o.addr() != ain { (o.tag(), o.addr(), 0) } else { (o.tag(), o.addr(), o.val()) })
            }))
        };
        self.obs(if mutable { "getmut" } else { "get" }, t, d, g, ain, r)
    }

    /// The same on the object of type `t` that lives outside the world.
    pub fn get_loose(&mut self, t: usize, mutable: bool) -> Value {
        let tab = self.tab();
        let o = &mut self.loose[t - 1];
        let ain = o.addr();
        let r = if mutable {
            let res = o.res_mut();
            catch_unwind(AssertUnwindSafe(|| {
                tab.get_mut(res).map(|o| {
                    // safety net of the harness: never WRITE through a trait object that claims
                    // to be something else than what was passed in (the observation is recorded as is)
                    if o.tag() as usize != t || o.addr() != ain {
                        return (o.tag(), o.addr(), 0);
                    }
                    let v = o.bump();
                    (o.tag(), o.addr(), v)
                })
            }))
        } else {
            let res = o.res();
            catch_unwind(AssertUnwindSafe(|| {
                tab.get(res).map(|o| if o.tag() as usize != t || o.addr() != ain { (o.tag(), o.addr(), 0) } else { (o.tag(), o.addr(), o.val()) })
            }))
        };
        self.obs(if mutable { "getmut" } else { "get" }, t, 2, 0, ain, r)
    }

    pub fn iter(&mut self, k: &str, h: u64) -> Value {
        assert!(!self.iters.contains_key(&h), "HARNESS: iterator id in use");
        let (tab, w) = (self.tab(), self.w());
        let it = catch_unwind(AssertUnwindSafe(|| if k == "w" { Iter::W(tab.iter_mut(w)) } else { Iter::R(tab.iter(w)) }));
        match it {
            Ok(it) => {
                self.iters.insert(h, it);
                json!({"ev":"iter","k":k,"h":h,"out":"ok","b":self.probe()})
            }
            Err(p) => json!({"ev":"iter","k":k,"h":h,"out":panic_kind(p),"b":self.probe()}),
        }
    }

    /// `next()`; a yielded item is kept alive as guard `g`.  A panic of `next` is caught and the
    /// iterator is kept (it is pulled again later).
    pub fn next(&mut self, h: u64, g: u64) -> Value {
        let raw = self.cell_raw.clone();
        // safety net of the harness: only read / write the value through an item that is, by its
        // own account, the object stored in the world cell of its own type
        let genuine = move |tag: u32, addr: usize| raw.get(&(tag as usize, 0)) == Some(&addr);
        let it = self.iters.get_mut(&h).expect("HARNESS: no such iterator");
        let (k, r) = match it {
            Iter::R(i) => (
                "r",
                catch_unwind(AssertUnwindSafe(|| {
                    i.next().map(|item| {
                        let v = if genuine(item.tag(), item.addr()) { item.val() } else { 0 };
                        let o = (item.tag(), item.addr(), v);
                        (o, Guard::ItemR(item))
                    })
                })),
            ),
            Iter::W(i) => (
                "w",
                catch_unwind(AssertUnwindSafe(|| {
                    i.next().map(|mut item| {
                        let v = if genuine(item.tag(), item.addr()) { item.bump() } else { 0 };
                        let o = (item.tag(), item.addr(), v);
                        (o, Guard::ItemW(item))
                    })
                })),
            ),
        };
        match r {
            Ok(Some(((tag, a, v), guard))) => {
                assert!(!self.guards.contains_key(&g), "HARNESS: guard id in use");
                self.guards.insert(g, guard);
                let aout = self.aid(a);
                json!({"ev":"next","h":h,"k":k,"g":g,"out":"some","tag":tag,"aout":aout,"v":v,"b":self.probe()})
            }
            Ok(None) => json!({"ev":"next","h":h,"k":k,"g":0,"out":"none","tag":0,"aout":0,"v":0,"b":self.probe()}),
            // the panic is caught and the SAME iterator stays in use
            Err(p) => {
                json!({"ev":"next","h":h,"k":k,"g":0,"out":panic_kind(p),"tag":0,"aout":0,"v":0,"b":self.probe()})
            }
        }
    }

    /// The iterator `h` consumed through `nth(n)`, `by_ref().skip(n).take(m)`, `by_ref().step_by(n).take(m)`,
    /// `by_ref().take(m)`, `by_ref().last()` or `by_ref().count()`; items handed out are kept alive as guards.
    pub fn walk(&mut self, h: u64, how: &str, n: usize, m: usize) -> Value {
        let raw = self.cell_raw.clone();
        let genuine = move |tag: u32, addr: usize| raw.get(&(tag as usize, 0)) == Some(&addr);
        let it = self.iters.get_mut(&h).expect("HARNESS: no such iterator");
        fn fin<T: Item>(r: (Vec<T>, String, usize), genuine: &dyn Fn(u32, usize) -> bool) -> (Vec<((u32, usize, u32), Guard)>, String, usize) {
            (r.0.into_iter().map(|mut x| (x.observe(genuine), x.into_guard())).collect(), r.1, r.2)
        }
        let (k, (got, end, cnt)) = match it {
            Iter::R(i) => ("r", fin(walk_iter(i, how, n, m), &genuine)),
            Iter::W(i) => ("w", fin(walk_iter(i, how, n, m), &genuine)),
        };
        let mut items = Vec::new();
        for ((tag, a, v), guard) in got {
            let g = self.free_guard().expect("HARNESS: out of guard ids");
            self.guards.insert(g, guard);
            let aout = self.aid(a);
            items.push(json!({"tag":tag,"aout":aout,"v":v,"g":g}));
        }
        json!({"ev":"walk","h":h,"k":k,"how":how,"n":n,"m":m,"items":items,"end":end,"cnt":cnt,"b":self.probe()})
    }

    /// `Iterator::size_hint` (an absent upper bound is logged as hashi = false).
    pub fn hint(&mut self, h: u64) -> Value {
        let it = self.iters.get(&h).expect("HARNESS: no such iterator");
        let r = catch_unwind(AssertUnwindSafe(|| match it {
            Iter::R(i) => i.size_hint(),
            Iter::W(i) => i.size_hint(),
        }));
        match r {
            Ok((lo, hi)) => json!({"ev":"hint","h":h,"lo":lo.min(1_000_000),"hi":hi.unwrap_or(0).min(1_000_000),"hashi":hi.is_some()}),
            // a panicking size_hint: reported as an impossible hint
            Err(_) => json!({"ev":"hint","h":h,"lo":1_000_000,"hi":0,"hashi":true}),
        }
    }

    pub fn idrop(&mut self, h: u64) -> Value {
        self.iters.remove(&h).expect("HARNESS: no such iterator");
        json!({"ev":"idrop","h":h,"b":self.probe()})
    }

    /// Address id the harness recorded for the object in cell (t, d) (d = 2: the
    /// loose object), for the spec -> impl comparison.
    pub fn cell_addr(&mut self, t: usize, d: u64) -> Option<u64> {
        if d == 2 {
            let a = self.loose[t - 1].addr();
            return Some(self.aid(a));
        }
        self.cells.get(&(t, d)).copied()
    }
}
