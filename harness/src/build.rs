//! Drive the real `DispatcherBuilder` through an abstract program, recording
//! one event per builder call with the placement observed through the
//! `verif-hooks` accessor (the EXECUTED list).

use std::{
    collections::{BTreeMap, HashMap},
    marker::PhantomData,
    panic::{catch_unwind, AssertUnwindSafe},
    sync::Arc,
};

use rand::{rngs::StdRng, seq::SliceRandom, Rng, SeedableRng};
use serde_json::{json, Value};
use shred::{DispatcherBuilder, MultiDispatcher, ResourceId, VerifLayout};

use crate::{
    prog::{ctl_access, Op, Prog, Res, Variant},
    sys::*,
};

pub fn codes(s: &str) -> Vec<u32> {
    s.chars().map(|c| c as u32).collect()
}

#[derive(Clone, Debug, Default)]
pub struct SysInfo {
    pub gid: usize,
    pub builder: usize,
    pub r: Vec<Res>,
    pub w: Vec<Res>,
    pub kind: &'static str, // plain | tl | batch
    pub inner: usize,       // builder index for batches
    pub n: usize,
    pub addr: usize,
}

pub struct Recorder {
    pub ctx: Arc<Ctx>,
    pub events: Vec<Value>,
    pub next_gid: usize,
    pub next_builder: usize,
    pub sys: Vec<SysInfo>, // index gid-1
    pub addr2gid: HashMap<usize, usize>,
    pub variant: Variant,
    pub rng: StdRng,
    pub print_every: bool,
    /// every (renamed) name handed to the builder so far, any builder
    pub name_pool: std::collections::BTreeSet<String>,
    /// names that must keep their identity (used as dependency or duplicated)
    pub sensitive: std::collections::BTreeSet<String>,
    /// unrelated dispatchers built on the side while a recorded builder is half built (they stay alive until the end)
    pub noise: Vec<shred::Dispatcher<'static, 'static>>,
    pub noise_share: f64,
    /// share of the systems that are registered as zero-sized types, and the table slots this recorder holds
    pub zst_share: f64,
    pub zslots: Vec<usize>,
    /// the program has systems with static system-data types (the harness provides their resources)
    pub has_stat: bool,
    /// share of the ordinary systems that keep the library's provided setup / dispose
    pub nohook_share: f64,
    /// a pool attached to the top-level builder BEFORE anything is registered (otherwise the caller attaches one at the end)
    #[cfg(feature = "parallel")]
    pub early_pool: Option<std::sync::Arc<rayon::ThreadPool>>,
    pub toggle_counter: usize,
}

pub fn resmap_of(v: &Variant) -> BTreeMap<Res, Cell> {
    let mut m = BTreeMap::new();
    for (r, (ty, d)) in &v.resmap {
        m.insert(*r, Cell { ty: *ty, dynid: *d });
    }
    for (r, c) in abstract_of_ctl() {
        m.insert(r, c);
    }
    m
}

fn canon(v: &[Res]) -> Vec<Res> {
    let mut v = v.to_vec();
    v.sort();
    v.dedup();
    v
}

pub fn all_addrs(l: &VerifLayout) -> Vec<usize> {
    let mut v: Vec<usize> = l.stages.iter().flatten().flatten().map(|x| x.0).collect();
    v.extend(l.thread_local.iter().map(|x| x.0));
    v
}

/// Position (1-based stage, group, pos) of `addr` in the layout.
pub fn find_place(l: &VerifLayout, addr: usize) -> Option<[usize; 3]> {
    for (i, st) in l.stages.iter().enumerate() {
        for (j, g) in st.iter().enumerate() {
            for (k, s) in g.iter().enumerate() {
                if s.0 == addr {
                    return Some([i + 1, j + 1, k + 1]);
                }
            }
        }
    }
    None
}

pub fn classify_panic(p: &(dyn std::any::Any + Send)) -> (String, String) {
    let msg = if let Some(s) = p.downcast_ref::<String>() {
        s.clone()
    } else if let Some(s) = p.downcast_ref::<&str>() {
        s.to_string()
    } else if let Some(h) = p.downcast_ref::<HPanic>() {
        format!("HPANIC {}", h.0)
    } else {
        "<non-string payload>".to_string()
    };
    let quoted = || -> String {
        // text between (" and ")
        if let (Some(a), Some(b)) = (msg.find("(\""), msg.rfind("\")")) {
            if a + 2 <= b {
                return msg[a + 2..b].to_string();
            }
        }
        String::new()
    };
    if msg.contains("No such system registered") {
        ("unknown".into(), quoted())
    } else if msg.contains("Cannot insert multiple systems with the same name") {
        ("dup".into(), quoted())
    } else {
        ("other".into(), msg)
    }
}

/// Registration style (spec: `with_x` and `add_x` are the SAME action): a third of the well-formed
/// registrations goes through the consuming, chainable form of the call. The choice is a function
/// of the position only, so the random stream of everything else is what it was. An ill-formed
/// call keeps the `add_x` form (a panicking `with_x` would take the builder with it).
fn chained(tick: usize) -> bool {
    (tick.wrapping_mul(2654435761) >> 9) % 3 == 0
}

fn well_formed(b: &DispatcherBuilder<'static, 'static>, name: &str, deps: &[String]) -> bool {
    (name.is_empty() || !b.contains(name)) && deps.iter().all(|d| b.contains(d))
}

macro_rules! reg {
    ($b:ident, $chain:expr, $add:ident, $with:ident ( $($a:expr),* )) => {
        if $chain {
            let taken = std::mem::take(&mut $b);
            $b = taken.$with($($a),*);
        } else {
            $b.$add($($a),*);
        }
    };
}

impl Recorder {
    pub fn new(variant: Variant, print_every: bool) -> Self {
        let ctx = Ctx::new(resmap_of(&variant));
        let rng = StdRng::seed_from_u64(variant.seed);
        Recorder {
            ctx,
            events: Vec::new(),
            next_gid: 1,
            next_builder: 1,
            sys: Vec::new(),
            addr2gid: HashMap::new(),
            variant,
            rng,
            print_every,
            name_pool: Default::default(),
            sensitive: Default::default(),
            noise: Vec::new(),
            noise_share: NOISE.with(|n| n.get()),
            zst_share: ZST.with(|n| n.get()),
            zslots: Vec::new(),
            has_stat: false,
            nohook_share: NOHOOK.with(|n| n.get()),
            #[cfg(feature = "parallel")]
            early_pool: None,
            toggle_counter: 0,
        }
    }

    /// The name a system is registered under in this variant.
    /// The spelling of a dependency list in this variant: order shuffled, names repeated (also
    /// non-adjacently) - the dependency STRUCTURE is unchanged.
    fn variant_deps(&mut self, deps: &[String], bidx: usize) -> Vec<String> {
        let mut out: Vec<String> = deps.iter().map(|d| self.variant.rename_in(d, bidx)).collect();
        if self.variant.shuffle_lists && !out.is_empty() {
            out.shuffle(&mut self.rng);
            if self.variant.dup_lists && self.rng.gen_bool(0.5) {
                let x = out.choose(&mut self.rng).unwrap().clone();
                let pos = self.rng.gen_range(0..=out.len());
                out.insert(pos, x);
            }
        }
        out
    }

    fn variant_name_in(&mut self, name: &str, bidx: usize) -> String {
        let n = self.variant_name(name);
        if n.is_empty() || n.starts_with("toggled name") {
            return n;
        }
        self.variant.rename_in(name, bidx)
    }

    fn variant_name(&mut self, name: &str) -> String {
        if self.variant.toggle_names && !self.sensitive.contains(name) && self.rng.gen_bool(0.5) {
            if name.is_empty() {
                self.toggle_counter += 1;
                return format!("toggled name {}", self.toggle_counter);
            }
            return String::new();
        }
        self.variant.rename_of(name)
    }

    fn make_acc(&mut self, r: &[Res], w: &[Res]) -> HAcc {
        let cr = canon(r);
        let cw = canon(w);
        let rd: Vec<(Res, Cell)> = cr
            .iter()
            .filter(|x| !cw.contains(x))
            .map(|x| (*x, self.ctx.cell(*x)))
            .collect();
        let wr: Vec<(Res, Cell)> = cw.iter().map(|x| (*x, self.ctx.cell(*x))).collect();
        let mut decl_r: Vec<ResourceId> = cr.iter().map(|x| self.ctx.cell(*x).rid()).collect();
        let mut decl_w: Vec<ResourceId> = cw.iter().map(|x| self.ctx.cell(*x).rid()).collect();
        if self.variant.dup_lists {
            // duplicates only in the READ list: the library promises to treat
            // reads as a set; a duplicated write is not distinguishable from
            // one write for planning either, but keep writes unique so that
            // the declared lists stay within what the docs show
            if !decl_r.is_empty() && self.rng.gen_bool(0.5) {
                let x = decl_r.choose(&mut self.rng).unwrap().clone();
                decl_r.push(x);
            }
        }
        if self.variant.shuffle_lists {
            decl_r.shuffle(&mut self.rng);
            decl_w.shuffle(&mut self.rng);
        }
        HAcc {
            decl_r,
            decl_w,
            rd,
            wr,
        }
    }

    /// A table slot for a zero-sized system (None: register the ordinary, self-contained harness system).
    fn zslot(&mut self, gid: usize, acc: &HAcc, t: u8) -> Option<usize> {
        if self.zst_share > 0.0 && self.rng.gen_bool(self.zst_share) {
            let k = crate::sys::zalloc(crate::sys::ZEntry { gid, acc: acc.clone(), t, ctx: self.ctx.clone() });
            if let Some(k) = k {
                self.zslots.push(k);
            }
            k
        } else {
            None
        }
    }

    fn snapshot_new_addr(&self, before: &VerifLayout, after: &VerifLayout) -> Vec<usize> {
        let b: std::collections::HashSet<usize> = all_addrs(before).into_iter().collect();
        all_addrs(after).into_iter().filter(|a| !b.contains(a)).collect()
    }

    fn maybe_print(&mut self, bidx: usize, b: &DispatcherBuilder<'static, 'static>) {
        if self.print_every {
            self.print(bidx, b);
        }
        if self.rng.gen_bool(0.15) {
            self.query(bidx, b);
        }
    }

    /// is_empty / num_systems / has_system / contains on a few registered and unregistered names
    pub fn query(&mut self, bidx: usize, b: &DispatcherBuilder<'static, 'static>) {
        let mut probe: Vec<String> = Vec::new();
        let known: Vec<String> = self.name_pool.iter().cloned().collect();
        for _ in 0..3 {
            if let Some(n) = known.choose(&mut self.rng) {
                probe.push(n.clone());
                if let Some(t) = crate::prog::sanitise_twin(&mut self.rng, n) {
                    probe.push(t);
                }
            }
        }
        probe.push("no such system".to_string());
        probe.push(String::new());
        let has: Vec<bool> = probe.iter().map(|n| b.has_system(n)).collect();
        let contains: Vec<bool> = probe.iter().map(|n| b.contains(n)).collect();
        self.events.push(json!({"ev":"query","b":bidx,"num":b.num_systems(),"empty":b.is_empty(),
            "probe": probe.iter().map(|n| codes(n)).collect::<Vec<_>>(),"has":has,"contains":contains}));
    }

    pub fn print(&mut self, bidx: usize, b: &DispatcherBuilder<'static, 'static>) {
        // `print_par_seq` uses the pretty form: both must be the same text
        let res = catch_unwind(AssertUnwindSafe(|| {
            let a = format!("{:?}", b);
            let p = format!("{:#?}", b);
            // the caller's width / precision / alignment are not the plan's business either
            let others = [format!("{:.2?}", b), format!("{:40?}", b), format!("{:<3.0?}", b), format!("{:>#12.5?}", b)];
            if a == p && others.iter().all(|o| *o == a) {
                a
            } else {
                format!("<<Debug texts differ between format specs>>\n{}\n{}\n{}", a, p, others.join("\n"))
            }
        }));
        match res {
            Ok(text) => match parse_par_seq(&text) {
                Some(t) => self.events.push(json!({"ev":"print","b":bidx,"out":"ok","text":t})),
                None => self
                    .events
                    .push(json!({"ev":"print","b":bidx,"out":"unparsable","text":[], "raw": text})),
            },
            Err(p) => {
                let (_, m) = classify_panic(&*p);
                self.events
                    .push(json!({"ev":"print","b":bidx,"out":"panic","text":[],"msg":m}))
            }
        }
    }

    /// Builds a builder from `prog`; returns it with its builder index.
    /// An unrelated builder + dispatcher on the side, using the names of the program being recorded: nothing
    /// it does may influence the recorded builder (no shared state between builders / dispatchers).
    fn make_noise(&mut self, prog: &Prog) {
        let names: Vec<String> = prog
            .ops
            .iter()
            .filter_map(|o| match o {
                Op::Add { name, .. } | Op::Batch { name, .. } | Op::Stat { name, .. } if !name.is_empty() => Some(name.clone()),
                _ => None,
            })
            .collect();
        let r = catch_unwind(AssertUnwindSafe(|| {
            let mut nb: DispatcherBuilder<'static, 'static> = DispatcherBuilder::new();
            #[cfg(feature = "parallel")]
            nb.add_pool(crate::record::shared_pool());
            let mut have: Vec<String> = Vec::new();
            let n = self.rng.gen_range(1..=7);
            for i in 0..n {
                let name = if !names.is_empty() && self.rng.gen_bool(0.7) { names.choose(&mut self.rng).unwrap().clone() } else { format!("noise{}", i) };
                if have.contains(&name) {
                    continue;
                }
                let deps: Vec<&str> = if !have.is_empty() && self.rng.gen_bool(0.4) { vec![have.choose(&mut self.rng).unwrap().as_str()] } else { vec![] };
                match self.rng.gen_range(0..4) {
                    0 => nb.add(NoiseW, &name, &deps),
                    1 => nb.add(NoiseR, &name, &deps),
                    _ => nb.add(NoiseN, &name, &deps),
                }
                have.push(name);
                if self.rng.gen_bool(0.2) {
                    nb.add_barrier();
                }
            }
            if self.rng.gen_bool(0.3) {
                nb.add_thread_local(NoiseN);
            }
            nb.build()
        }));
        if let Ok(mut d) = r {
            if self.rng.gen_bool(0.5) {
                let mut w = shred::World::empty();
                let _ = catch_unwind(AssertUnwindSafe(|| {
                    d.setup(&mut w);
                    d.dispatch(&w);
                }));
            }
            self.noise.push(d);
        }
    }

    pub fn build(&mut self, prog: &Prog) -> (DispatcherBuilder<'static, 'static>, usize) {
        if self.next_builder == 1 {
            prog.sensitive_names(&mut self.sensitive);
        }
        let bidx = self.next_builder;
        self.next_builder += 1;
        self.events.push(json!({"ev":"new","b":bidx}));
        // (`new()` is documented as "using the Default implementation": both must give the same builder)
        let mut b: DispatcherBuilder<'static, 'static> = if self.rng.gen_bool(0.3) { Default::default() } else { DispatcherBuilder::new() };
        #[cfg(feature = "parallel")]
        if bidx == 1 {
            if let Some(p) = self.early_pool.clone() {
                b.add_pool(p);
            }
        }
        if self.variant.extra_barriers && self.rng.gen_bool(0.5) {
            // leading barrier: must change nothing (C03)
            b.add_barrier();
            self.events.push(json!({"ev":"barrier","b":bidx}));
        }
        for op in &prog.ops {
            if self.noise_share > 0.0 && self.rng.gen_bool(self.noise_share) {
                self.make_noise(prog);
            }
            match op {
                Op::Barrier => {
                    let chain = chained(self.events.len());
                    reg!(b, chain, add_barrier, with_barrier());
                    self.events.push(json!({"ev":"barrier","b":bidx}));
                    if self.variant.extra_barriers && self.rng.gen_bool(0.3) {
                        b.add_barrier();
                        self.events.push(json!({"ev":"barrier","b":bidx}));
                    }
                }
                Op::Tl { r, w } => {
                    let gid = self.next_gid;
                    self.next_gid += 1;
                    let acc = self.make_acc(r, w);
                    let before = norm(bidx, b.verif_layout());
                    let zslot = self.zslot(gid, &acc, 3);
                    let out = if let Some(k) = zslot {
                        crate::with_zsys!(k, std::rc::Rc<()>, |z| catch_unwind(AssertUnwindSafe(|| b.add_thread_local(z))))
                    } else {
                        let sys = HTl {
                            gid,
                            acc,
                            t: 3,
                            ctx: self.ctx.clone(),
                            tl: true,
                            mk: PhantomData,
                        };
                        let chain = chained(gid);
                        catch_unwind(AssertUnwindSafe(|| reg!(b, chain, add_thread_local, with_thread_local(sys))))
                    };
                    let after = norm(bidx, b.verif_layout());
                    let new = self.snapshot_new_addr(&before, &after);
                    let idx = if new.len() == 1 {
                        after.thread_local.iter().position(|x| x.0 == new[0]).map(|i| i + 1)
                    } else {
                        None
                    };
                    if let Some(a) = new.first() {
                        self.addr2gid.insert(*a, gid);
                    }
                    self.sys.push(SysInfo {
                        gid,
                        builder: bidx,
                        r: canon(r),
                        w: canon(w),
                        kind: "tl",
                        inner: 0,
                        n: 0,
                        addr: new.first().copied().unwrap_or(0),
                    });
                    self.events.push(json!({"ev":"tl","b":bidx,"id":gid,"r":canon(r),"w":canon(w),
                        "out": if out.is_ok() {"ok"} else {"other"},
                        "idx": idx.map(|i| vec![i]).unwrap_or_default(),
                        "nnew": new.len()}));
                }
                Op::Nest { inner } => {
                    let (ib, iidx) = self.build(inner);
                    let gid = self.next_gid;
                    self.next_gid += 1;
                    #[cfg(feature = "parallel")]
                    let ib = ib.with_pool(crate::record::shared_pool());
                    let d = ib.build();
                    let before = norm(bidx, b.verif_layout());
                    let sys = HNest { gid, inner_b: iidx, d, ctx: self.ctx.clone() };
                    let out = catch_unwind(AssertUnwindSafe(|| b.add_thread_local(sys)));
                    let after = norm(bidx, b.verif_layout());
                    let new = self.snapshot_new_addr(&before, &after);
                    let idx = if new.len() == 1 {
                        after.thread_local.iter().position(|x| x.0 == new[0]).map(|i| i + 1)
                    } else {
                        None
                    };
                    if let Some(a) = new.first() {
                        self.addr2gid.insert(*a, gid);
                    }
                    self.sys.push(SysInfo {
                        gid,
                        builder: bidx,
                        r: vec![],
                        w: vec![],
                        kind: "nest",
                        inner: iidx,
                        n: 1,
                        addr: new.first().copied().unwrap_or(0),
                    });
                    self.events.push(json!({"ev":"nest","b":bidx,"id":gid,"inner":iidx,
                        "out": if out.is_ok() {"ok"} else {"other"},
                        "idx": idx.map(|i| vec![i]).unwrap_or_default(),
                        "nnew": new.len()}));
                }
                Op::Add { r, w, deps, t, name } => {
                    let gid = self.next_gid;
                    self.next_gid += 1;
                    let acc = self.make_acc(r, w);
                    let rname = self.variant_name_in(name, bidx);
                    let rdeps: Vec<String> = self.variant_deps(deps, bidx);
                    let before = norm(bidx, b.verif_layout());
                    let zslot = self.zslot(gid, &acc, *t);
                    let mut hooks = true;
                    let out = if let Some(k) = zslot {
                        crate::with_zsys!(k, (), |z| catch_unwind(AssertUnwindSafe(|| {
                            let d: Vec<&str> = rdeps.iter().map(|s| s.as_str()).collect();
                            b.add(z, &rname, &d)
                        })))
                    } else {
                        let sys = HSys {
                            gid,
                            acc,
                            t: *t,
                            ctx: self.ctx.clone(),
                            tl: false,
                            mk: PhantomData,
                        };
                        if self.nohook_share > 0.0 && self.rng.gen_bool(self.nohook_share) {
                            hooks = false;
                            let sys = HNoHook(sys);
                            catch_unwind(AssertUnwindSafe(|| {
                                let d: Vec<&str> = rdeps.iter().map(|s| s.as_str()).collect();
                                b.add(sys, &rname, &d)
                            }))
                        } else {
                            let chain = chained(gid) && well_formed(&b, &rname, &rdeps);
                            catch_unwind(AssertUnwindSafe(|| {
                                let d: Vec<&str> = rdeps.iter().map(|s| s.as_str()).collect();
                                reg!(b, chain, add, with(sys, &rname, &d))
                            }))
                        }
                    };
                    let after = norm(bidx, b.verif_layout());
                    self.log_add("add", bidx, gid, r, w, &rname, &rdeps, *t, out, &before, &after, if hooks { json!({}) } else { json!({"hooks": false}) });
                    let last = self.sys.last_mut().unwrap();
                    last.kind = "plain";
                }
                Op::Stat { kind, deps, t, name } => {
                    let gid = self.next_gid;
                    self.next_gid += 1;
                    let (r, w) = crate::prog::stat_access(*kind);
                    self.has_stat = true;
                    let rname = self.variant_name_in(name, bidx);
                    let rdeps: Vec<String> = self.variant_deps(deps, bidx);
                    let before = norm(bidx, b.verif_layout());
                    let ctx = self.ctx.clone();
                    let chain = chained(gid) && well_formed(&b, &rname, &rdeps);
                    let out = crate::with_hstat!(*kind, gid, *t, ctx, |sys| catch_unwind(AssertUnwindSafe(|| {
                        let d: Vec<&str> = rdeps.iter().map(|s| s.as_str()).collect();
                        reg!(b, chain, add, with(sys, &rname, &d))
                    })));
                    let after = norm(bidx, b.verif_layout());
                    self.log_add("add", bidx, gid, &r, &w, &rname, &rdeps, *t, out, &before, &after, json!({"static": kind}));
                    let last = self.sys.last_mut().unwrap();
                    last.kind = "plain";
                }
                Op::Batch {
                    ctl,
                    n,
                    multi,
                    inner,
                    deps,
                    t,
                    name,
                } => {
                    let (ib, iidx) = self.build(inner);
                    let gid = self.next_gid;
                    self.next_gid += 1;
                    let rname = self.variant_name_in(name, bidx);
                    let rdeps: Vec<String> = self.variant_deps(deps, bidx);
                    let before = norm(bidx, b.verif_layout());
                    let ctx = self.ctx.clone();
                    let chain = chained(gid) && well_formed(&b, &rname, &rdeps);
                    let out = catch_unwind(AssertUnwindSafe(|| {
                        let d: Vec<&str> = rdeps.iter().map(|s| s.as_str()).collect();
                        macro_rules! go {
                            ($k:ident) => {
                                if *multi {
                                    reg!(b, chain, add_batch, with_batch(
                                        MultiDispatcher::new(HMulti::<$k> { gid, n: *n, ctx, k: PhantomData }),
                                        ib,
                                        &rname,
                                        &d
                                    ))
                                } else {
                                    reg!(b, chain, add_batch, with_batch(HCtl::<$k> { gid, inner_b: iidx, n: *n, t: *t, ctx, k: PhantomData }, ib, &rname, &d))
                                }
                            };
                        }
                        match ctl {
                            0 => go!(K0),
                            1 => go!(K1),
                            2 => go!(K2),
                            _ => go!(K3),
                        }
                    }));
                    let after = norm(bidx, b.verif_layout());
                    let (cr, cw) = ctl_access(*ctl);
                    // MultiDispatcher does not forward running_time: VeryLong
                    let teff = if *multi { 5 } else { *t };
                    self.log_add(
                        "batch",
                        bidx,
                        gid,
                        &cr,
                        &cw,
                        &rname,
                        &rdeps,
                        teff,
                        out,
                        &before,
                        &after,
                        json!({"inner": iidx, "n": n, "multi": multi}),
                    );
                    let last = self.sys.last_mut().unwrap();
                    last.kind = "batch";
                    last.inner = iidx;
                    last.n = *n;
                }
            }
            self.maybe_print(bidx, &b);
        }
        if self.variant.extra_barriers && self.rng.gen_bool(0.3) {
            b.add_barrier();
            self.events.push(json!({"ev":"barrier","b":bidx}));
        }
        if bidx != 1 {
            // inner builders are printed once, when complete (the top-level one by the caller)
            self.print(bidx, &b);
        }
        (b, bidx)
    }

    #[allow(clippy::too_many_arguments)]
    fn log_add(
        &mut self,
        ev: &str,
        bidx: usize,
        gid: usize,
        r: &[Res],
        w: &[Res],
        name: &str,
        deps: &[String],
        t: u8,
        out: Result<(), Box<dyn std::any::Any + Send>>,
        before: &VerifLayout,
        after: &VerifLayout,
        extra: Value,
    ) {
        if !name.is_empty() {
            self.name_pool.insert(name.to_string());
        }
        let new = self.snapshot_new_addr(before, after);
        let (outk, quoted) = match &out {
            Ok(()) => ("ok".to_string(), String::new()),
            Err(p) => classify_panic(&**p),
        };
        let place: Vec<usize> = if new.len() == 1 {
            find_place(after, new[0]).map(|p| p.to_vec()).unwrap_or_default()
        } else {
            vec![]
        };
        // the rest of the layout must be untouched (append-only); report if not
        let stable = {
            let mut a2 = after.clone();
            if let (1, Some(p)) = (new.len(), find_place(after, *new.first().unwrap_or(&0))) {
                let g = &mut a2.stages[p[0] - 1][p[1] - 1];
                g.remove(p[2] - 1);
                if g.is_empty() {
                    a2.stages[p[0] - 1].remove(p[1] - 1);
                    if a2.stages[p[0] - 1].is_empty() {
                        a2.stages.remove(p[0] - 1);
                    }
                }
            }
            a2 == *before
        };
        if let Some(a) = new.first() {
            self.addr2gid.insert(*a, gid);
        }
        self.sys.push(SysInfo {
            gid,
            builder: bidx,
            r: canon(r),
            w: canon(w),
            kind: "plain",
            inner: 0,
            n: 0,
            addr: new.first().copied().unwrap_or(0),
        });
        let mut e = json!({"ev":ev,"b":bidx,"id":gid,"r":canon(r),"w":canon(w),
            "deps": deps.iter().map(|d| codes(d)).collect::<Vec<_>>(),
            "t": t, "name": codes(name), "out": outk, "quoted": codes(&quoted),
            "place": place, "nnew": new.len(), "stable": stable});
        if let (Value::Object(m), Value::Object(x)) = (&mut e, extra) {
            for (k, v) in x {
                m.insert(k, v);
            }
        }
        self.events.push(e);
    }

    /// Map a hook layout to gids (0 = unknown address).
    pub fn layout_gids(&self, l: &VerifLayout) -> (Vec<Vec<Vec<usize>>>, Vec<usize>) {
        // (layouts of the top-level builder / dispatcher: builder index 1)
        let l = &norm(1, l.clone());
        let f = |a: &(usize, usize)| *self.addr2gid.get(&a.0).unwrap_or(&0);
        (
            l.stages
                .iter()
                .map(|st| st.iter().map(|g| g.iter().map(f).collect()).collect())
                .collect(),
            l.thread_local.iter().map(f).collect(),
        )
    }
}

/// Parse the `seq![ par![ seq![ name, ... ], ... ], ... ]` text into nested
/// lists of character-code sequences.
pub fn parse_par_seq(text: &str) -> Option<Vec<Vec<Vec<Vec<u32>>>>> {
    let mut lines = text.lines().map(|l| l.trim()).filter(|l| !l.is_empty()).peekable();
    if lines.next()? != "seq![" {
        return None;
    }
    let mut stages = Vec::new();
    loop {
        let l = lines.next()?;
        if l == "]" {
            break;
        }
        if l != "par![" {
            return None;
        }
        let mut groups = Vec::new();
        loop {
            let l = lines.next()?;
            if l == "]," {
                break;
            }
            if l != "seq![" {
                return None;
            }
            let mut names = Vec::new();
            loop {
                let l = lines.next()?;
                if l == "]," {
                    break;
                }
                let n = l.strip_suffix(',')?;
                names.push(codes(n));
            }
            groups.push(names);
        }
        stages.push(groups);
    }
    if lines.next().is_some() {
        return None;
    }
    Some(stages)
}

thread_local! {
    static NOISE: std::cell::Cell<f64> = std::cell::Cell::new(0.0);
}

/// Share of registration steps of the following programs (this thread) in front of which an unrelated
/// dispatcher is built (and sometimes run) on the side.
pub fn set_noise(p: f64) {
    NOISE.with(|n| n.set(p));
}

#[derive(Default)]
pub struct NoiseRes(pub u64);
pub struct NoiseW;
impl<'a> shred::System<'a> for NoiseW {
    type SystemData = shred::Write<'a, NoiseRes>;
    fn run(&mut self, mut d: Self::SystemData) {
        d.0 += 1;
    }
}
pub struct NoiseR;
impl<'a> shred::System<'a> for NoiseR {
    type SystemData = shred::Read<'a, NoiseRes>;
    fn run(&mut self, _: Self::SystemData) {}
}
pub struct NoiseN;
impl<'a> shred::System<'a> for NoiseN {
    type SystemData = ();
    fn run(&mut self, _: ()) {}
}

thread_local! {
    static ZST: std::cell::Cell<f64> = std::cell::Cell::new(0.0);
}

thread_local! {
    static NOHOOK: std::cell::Cell<f64> = std::cell::Cell::new(0.0);
}

/// Share of the ordinary systems of the following programs (this thread) that keep the provided setup / dispose.
pub fn set_nohook(p: f64) {
    NOHOOK.with(|n| n.set(p));
}

/// Share of the systems of the following programs (this thread) that are registered as zero-sized types.
pub fn set_zst(p: f64) {
    ZST.with(|n| n.set(p));
}

impl Drop for Recorder {
    fn drop(&mut self) {
        for k in self.zslots.drain(..) {
            crate::sys::zfree(k);
        }
    }
}

/// All boxes of zero-sized systems have the same (dangling) address.  The plan is append-only, so the PLACE of
/// such a system identifies it: its address is replaced by a synthetic one derived from builder and place.
pub fn norm(bidx: usize, mut l: VerifLayout) -> VerifLayout {
    const SYN: usize = 0x5A00_0000_0000_0000;
    for (si, st) in l.stages.iter_mut().enumerate() {
        for (gi, g) in st.iter_mut().enumerate() {
            for (i, e) in g.iter_mut().enumerate() {
                if e.1 == 0 {
                    e.0 = SYN + (bidx << 44) + ((si + 1) << 28) + (gi << 14) + i;
                }
            }
        }
    }
    for (i, e) in l.thread_local.iter_mut().enumerate() {
        if e.1 == 0 {
            e.0 = SYN + (bidx << 44) + i;
        }
    }
    l
}
