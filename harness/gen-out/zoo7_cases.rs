// placeholder written by harness/gen/zoo.py (the real file is a build artefact of bin/check C06)
pub const GEN_HASH: &str = "placeholder";
pub static CASES: &[&shredh::zoo::Ops] = &[];
pub static TWINS: &[shredh::zoo::TwinFn] = &[];
