----------------------------- MODULE ExecProps -----------------------------
(***************************************************************************)
(* PROPERTY DEFINITIONS for the execution of a plan (dispatch).  As in     *)
(* PlanProps every operator takes the state it talks about as ARGUMENTS so *)
(* that the executor model (Exec.tla) and the trace specification          *)
(* (ShredTrace.tla) evaluate the same text.                                *)
(*                                                                         *)
(*   regs   gid -> registration record (PlanProps) extended by             *)
(*          b (builder / dispatcher instance), kind ("plain","tl","batch", *)
(*          "rejected"), inner (builder of a batch), n (inner dispatches)  *)
(*   owner  builder -> gid of the batch system that owns it (0: top level) *)
(*   st     gid -> "idle" | "run" | "done" | "pan"                         *)
(***************************************************************************)
EXTENDS PlanProps

\* the batch systems that (transitively) contain system s
RECURSIVE AncOfBuilder(_, _, _)
AncOfBuilder(regs, owner, b) ==
  IF owner[b] = 0 THEN {} ELSE {owner[b]} \cup AncOfBuilder(regs, owner, regs[owner[b]].b)
Ancestors(regs, owner, s) == AncOfBuilder(regs, owner, regs[s].b)
Related(regs, owner, a, b) == a \in Ancestors(regs, owner, b) \/ b \in Ancestors(regs, owner, a)

Running(st) == {s \in DOMAIN st : st[s] = "run"}

\* ---- C01 / C07: no two conflicting systems are inside their windows together.
\* A batch is inside its window from the controller's start to its end; its access is
\* the union of everything inside (PlanProps / ShredTrace compute regs[b].r/.w so), hence
\* this one predicate is also C07's "no outside system that conflicts with the controller's
\* data or with any inner system ever overlaps the batch".  A batch and the systems inside
\* it are of course together in their windows: related pairs are exempt.
C01Run(regs, owner, st) ==
  \A a, b \in Running(st) :
     (a # b /\ ~Related(regs, owner, a, b)) => ~Conflict(Acc(regs, a), Acc(regs, b))

\* ---- C02: a system inside its window => all its dependencies have finished
C02Run(regs, st) ==
  \A s \in Running(st) : \A i \in DOMAIN regs[s].d : st[regs[s].d[i]] = "done"

\* ---- C03: ... => everything registered before an earlier barrier has finished
C03Run(regs, st) ==
  \A s \in Running(st) :
     \A a \in DOMAIN regs :
        (regs[a].b = regs[s].b /\ regs[a].kind \in {"plain", "batch"} /\ regs[s].kind \in {"plain", "batch"}
         /\ regs[a].e < regs[s].e) => st[a] = "done"

\* ---- transitive dependents (C14)
RECURSIVE DependsOn(_, _, _)
DependsOn(regs, s, p) ==   \* s depends (transitively) on p
  \E i \in DOMAIN regs[s].d : regs[s].d[i] = p \/ DependsOn(regs, regs[s].d[i], p)

\* ---- the order-sensitive update of the harness systems (same arithmetic in
\*      harness/src/sys.rs hash_step):  new = (31*old + 7*s + sum_i i*read_i + 1) mod M
M == 1000003
RECURSIVE SumR(_, _, _)
SumR(rs, wd, i) == IF i > Len(rs) THEN 0 ELSE i * wd[rs[i]] + SumR(rs, wd, i + 1)
NewVal(h, s, sum) == (31 * h + 7 * s + sum + 1) % M
\* rs / ws: sequences of resources read (minus written) / written, ascending
StepW(s, rs, ws, wd) ==
  LET sum == SumR(rs, wd, 1) IN
  [r \in DOMAIN wd |-> IF r \in Range(ws) THEN NewVal(wd[r], s, sum) ELSE wd[r]]
=============================================================================
