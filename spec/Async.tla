------------------------------- MODULE Async -------------------------------
(***************************************************************************)
(* The asynchronous dispatcher (src/dispatch/async_dispatcher.rs).         *)
(*                                                                         *)
(* The dispatcher's state (stages + world) is either OWNED by the handle   *)
(* (Data::Inner) or IN FLIGHT (Data::Rx): dispatch() first takes it back   *)
(* (blocking recv), then moves it into a spawned job that runs the stages  *)
(* and finally sends it back.  Every accessor takes it back first (recv),  *)
(* except running() (try_recv).  wait() additionally runs the thread-local *)
(* systems on the calling thread.                                          *)
(*                                                                         *)
(* Caller and job are two processes; the caller's blocking calls are split *)
(* into begin / end so that TLC explores the job's steps in between.       *)
(***************************************************************************)
EXTENDS Naturals, FiniteSets, Sequences

CONSTANTS
  \* @type: Int;
  NSys,      \* ordinary systems 1..NSys, run by the job in this order (one stage each)
  \* @type: Int;
  NTl,       \* thread-local systems
  \* @type: Int;
  MaxCalls   \* length of the caller's call sequence

VARIABLES
  \* @type: Str;
  chan,      \* "owned" | "inflight" | "sent"  (sent: in the channel, not yet received)
  \* @type: Int -> Str;
  st,        \* system -> "idle" | "run" | "done"   (of the current job)
  \* @type: Int -> Int;
  runs,      \* system -> completed runs
  \* @type: Int -> Int;
  tlruns,    \* thread-local system -> completed runs
  \* @type: Str;
  call,      \* the caller's call in progress ("none" when between calls)
  \* @type: Int;
  tlpc,      \* thread-local systems already run by the wait() in progress
  \* @type: Int;
  issued,    \* dispatches issued
  \* @type: Int;
  waits,     \* completed wait() calls
  \* @type: Int;
  ncalls,
  \* @type: Str;
  lastRunning  \* result of the last running() call (observation)
vars == <<chan, st, runs, tlruns, call, tlpc, issued, waits, ncalls, lastRunning>>

Sys == 1..NSys
Tl == 1..NTl
Ops == {"dispatch", "running", "wait", "wait_without_tl", "world"}

Init == /\ chan = "owned" /\ st = [s \in Sys |-> "idle"] /\ runs = [s \in Sys |-> 0] /\ tlruns = [t \in Tl |-> 0]
        /\ call = "none" /\ tlpc = 0 /\ issued = 0 /\ waits = 0 /\ ncalls = 0 /\ lastRunning = "na"

\* ---- the caller -------------------------------------------------------------------
Begin(op) == /\ call = "none" /\ ncalls < MaxCalls /\ call' = op /\ ncalls' = ncalls + 1 /\ tlpc' = 0
             /\ UNCHANGED <<chan, st, runs, tlruns, issued, waits, lastRunning>>
\* Data::inner(): blocking recv - only possible once the job has sent the state back
TakeBack == chan \in {"owned", "sent"}
\* dispatch(): take the state back, then spawn the job with it
DispatchEnd == /\ call = "dispatch" /\ TakeBack
               /\ chan' = "inflight" /\ st' = [s \in Sys |-> "idle"] /\ issued' = issued + 1 /\ call' = "none"
               /\ UNCHANGED <<runs, tlruns, tlpc, waits, ncalls, lastRunning>>
\* running(): try_recv
RunningEnd == /\ call = "running"
              /\ lastRunning' = (IF chan = "inflight" THEN "true" ELSE "false")
              /\ chan' = IF chan = "sent" THEN "owned" ELSE chan
              /\ call' = "none"
              /\ UNCHANGED <<st, runs, tlruns, tlpc, issued, waits, ncalls>>
\* wait(): take back, then the thread-local systems one after another on this thread
WaitTl == /\ call = "wait" /\ TakeBack /\ tlpc < NTl
          /\ chan' = "owned" /\ tlpc' = tlpc + 1 /\ tlruns' = [tlruns EXCEPT ![tlpc + 1] = @ + 1]
          /\ UNCHANGED <<st, runs, call, issued, waits, ncalls, lastRunning>>
WaitEnd == /\ call = "wait" /\ TakeBack /\ tlpc = NTl
           /\ chan' = "owned" /\ call' = "none" /\ waits' = waits + 1
           /\ UNCHANGED <<st, runs, tlruns, tlpc, issued, ncalls, lastRunning>>
\* wait_without_tl(), world(), world_mut(), setup(): take back
PlainEnd == /\ call \in {"wait_without_tl", "world"} /\ TakeBack
            /\ chan' = "owned" /\ call' = "none"
            /\ UNCHANGED <<st, runs, tlruns, tlpc, issued, waits, ncalls, lastRunning>>

\* ---- the job --------------------------------------------------------------------------
Fetch(s) == /\ chan = "inflight" /\ st[s] = "idle" /\ \A x \in Sys : x < s => st[x] = "done"
            /\ st' = [st EXCEPT ![s] = "run"]
            /\ UNCHANGED <<chan, runs, tlruns, call, tlpc, issued, waits, ncalls, lastRunning>>
Finish(s) == /\ st[s] = "run" /\ st' = [st EXCEPT ![s] = "done"] /\ runs' = [runs EXCEPT ![s] = @ + 1]
             /\ UNCHANGED <<chan, tlruns, call, tlpc, issued, waits, ncalls, lastRunning>>
Send == /\ chan = "inflight" /\ (\A s \in Sys : st[s] = "done") /\ chan' = "sent"
        /\ UNCHANGED <<st, runs, tlruns, call, tlpc, issued, waits, ncalls, lastRunning>>

Next == \/ \E op \in Ops : Begin(op)
        \/ DispatchEnd \/ RunningEnd \/ WaitTl \/ WaitEnd \/ PlainEnd
        \/ \E s \in Sys : Fetch(s) \/ Finish(s)
        \/ Send
Spec == Init /\ [][Next]_vars
Fair == Spec /\ WF_vars(Next)

\* ---- C15 -------------------------------------------------------------------------------
AllComplete == (\A s \in Sys : st[s] # "run" /\ runs[s] = issued) /\ chan # "inflight"
\* when a taking-back call has returned (state owned and no call in progress), everything is complete
InvC15owned == chan = "owned" => \A s \in Sys : st[s] # "run" /\ runs[s] = issued
\* a system inside run => the state is in flight => running() would say true
InvC15running == (\E s \in Sys : st[s] = "run") => chan = "inflight"
\* the dispatches never overlap: at most one job, and it starts only after the previous completed
InvC15noOverlap == \A s \in Sys : runs[s] \in {issued, issued - 1} /\ (runs[s] = issued - 1 => chan = "inflight")
\* thread-local systems only inside wait, in order, once per wait
InvC15tl == /\ \A t \in Tl : tlruns[t] = waits + (IF call = "wait" /\ t <= tlpc THEN 1 ELSE 0)
            /\ (call = "wait" /\ tlpc > 0 => \A s \in Sys : st[s] # "run")
\* running() = FALSE was only ever observed when everything had finished
RunningAction == [][ (call = "running" /\ call' = "none" /\ lastRunning' = "false") => AllComplete ]_vars
\* liveness: every blocking call returns
CallsReturn == call # "none" ~> call = "none"
=============================================================================
