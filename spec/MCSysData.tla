----------------------------- MODULE MCSysData -----------------------------
(***************************************************************************)
(* Model-checking wrapper for SysData (TLC-only operators live here).      *)
(* TLC enumerates a universe of shapes x presence subsets (x borrows held  *)
(* by somebody else), checks that the member-by-member semantics satisfies *)
(* the property definitions, and EMITS one JSON line per (shape, presence, *)
(* held) with the reference values for the spec -> implementation replay.  *)
(*                                                                         *)
(* Universe:                                                               *)
(*   leaves                 : every kind x every resource, Unit, Phantom   *)
(*   depth 1                : tuple / named struct / tuple struct of       *)
(*                            1..MaxMem leaves                             *)
(*   depth 2 (MaxOuter > 0) : composites of 1..MaxOuter members, each a    *)
(*                            leaf or a depth-1 composite of 1..MaxInner   *)
(*                            leaves, at least one member composite        *)
(*   arity table            : for every n in Arities (a subset of 1..26),  *)
(*                            position p and kind k: the n-tuple with kind *)
(*                            k at position p and Unit elsewhere           *)
(***************************************************************************)
EXTENDS SysData, TLC, Json

CONSTANTS NRes, MaxMem, MaxOuter, MaxInner, Arities, Held,
          Handlers   \* 0: no custom-handler leaves, 1: included, 2: only shapes containing one

Res0 == 1..NRes

AllKinds == ResKinds \cup NoKinds
LeafTabs == {Leaf(k, x) : k \in ResKinds \ HKinds, x \in Res0} \cup {Leaf(k, 0) : k \in NoKinds}
            \cup (IF Handlers = 0 THEN {}
                  ELSE UNION {{LeafH(k, x, y) : k \in HKinds, y \in Res0 \ (IF NRes > 1 THEN {x} ELSE {})}
                                : x \in Res0})
SeqsUpTo(S, n) == UNION {[1..m -> S] : m \in 1..n}

D1(m) == {Compose(st, ms) : st \in Styles, ms \in SeqsUpTo(LeafTabs, m)}
D2 == IF MaxOuter = 0 THEN {}
      ELSE LET pool == LeafTabs \cup D1(MaxInner) IN
           {Compose(st, ms) : st \in Styles,
                              ms \in {q \in SeqsUpTo(pool, MaxOuter) : \E i \in DOMAIN q : Len(q[i]) > 1}}

\* "kind k at position p, Unit elsewhere"; the resource rotates with the position
ArityShape(n, p, k) ==
  Compose("tuple", [i \in 1..n |-> IF i # p THEN Leaf("Unit", 0)
                                    ELSE IF k \in HKinds THEN LeafH(k, 1 + (p % NRes), 1 + ((p + 1) % NRes))
                                    ELSE Leaf(k, 1 + (p % NRes))])
HasH(tb) == \E i \in DOMAIN tb : tb[i].kind \in HKinds
Universe0 == (IF MaxMem > 0 THEN LeafTabs \cup D1(MaxMem) ELSE {}) \cup D2
            \cup UNION {{ArityShape(n, p, k) : p \in 1..n,
                                                k \in IF Handlers = 0 THEN AllKinds \ HKinds ELSE AllKinds}
                           : n \in Arities}
Universe == IF Handlers = 2 THEN {tb \in Universe0 : HasH(tb)} ELSE Universe0

WorldOf(P) == [x \in Res0 |-> IF x \in P THEN x ELSE Absent]
HeldSet(P) == {NoBorrows(Res0)}
              \cup (IF Held THEN {[NoBorrows(Res0) EXCEPT ![x] = b] : x \in P,
                                       b \in {[r |-> 1, w |-> FALSE], [r |-> 0, w |-> TRUE]}}
                    ELSE {})

\* The shape is chosen in the initial state, the world in a first step (so that TLC's
\* workers share the enumeration; initial states are computed by one thread).
Init ==
  /\ sh \in Universe
  /\ world0 = WorldOf({}) /\ world = world0
  /\ held0 = NoBorrows(Res0) /\ borrow = held0
  /\ phase = "pick"
  /\ outc = NoRes

DoPick ==
  /\ phase = "pick"
  /\ \E P \in SUBSET Res0 :
       /\ world0' = WorldOf(P) /\ world' = world0'
       /\ held0' \in HeldSet(P)
  /\ borrow' = held0'
  /\ phase' = "init"
  /\ UNCHANGED <<sh, outc>>

Spec == Init /\ [][DoPick \/ Next]_vars

\* the lemmas talk about the shape only: once per shape is enough
LemmasOnce == phase = "pick" => P_C06_lemmas

\* ---- reference values for the spec -> implementation replay --------------------------
Emit ==
  phase = "init" =>
    LET P == Present(world0)
        f == Fetch(sh, P, held0)
        s == Setup(sh, world0, Dflt)
    IN PrintT(<<"REPLAY", ToJson([
         sh |-> sh, nres |-> NRes, present |-> [x \in Res |-> x \in P],
         held |-> [x \in Res |-> Class(held0[x])],
         reads |-> Reads(sh, 1), writes |-> Writes(sh, 1),
         out |-> f.out, pres |-> f.res,
         alive |-> [x \in Res |-> IF x \in P THEN Class(f.borrow[x]) ELSE 3],
         after |-> [x \in Res |-> IF x \in P THEN Class(held0[x]) ELSE 3],
         w0 |-> world0, dflt |-> Dflt,
         created |-> s.created, calls |-> s.calls, w1 |-> s.world])>>)
=============================================================================
