------------------------------- MODULE MCPool -------------------------------
(* Model-checking wrapper for Pool: TLC-only operators.                     *)
EXTENDS Pool, Json, TLC

\* one JSON line per behaviour in which nothing is left open and something can be dispatched
Done == (\A b \in B : bst[b] # "open") /\ (\E b \in B : bst[b] = "built")
Emit == Done => PrintT(<<"REPLAY", ToJson([hist |-> hist,
                                           expect |-> [b \in B |-> IF b \in Dispatchers THEN PoolOf(b) ELSE Empty],
                                           top |-> [b \in B |-> bst[b] = "built"],
                                           parent |-> parent])>>)
=============================================================================
