------------------------------ MODULE MCShred ------------------------------
(***************************************************************************)
(* Planner and executor composed: phase "build" is Planner (every          *)
(* registration sequence within the constants), phase "run" is Exec on the *)
(* plan that was built.  This closes the assume/guarantee split between    *)
(* the two models (Exec's Init otherwise ASSUMES the static predicates),   *)
(* and it is the source of the (registration sequence, schedule)           *)
(* behaviours that are forced on the real dispatcher (spec -> impl).       *)
(*                                                                         *)
(* Schedules are EAGER: a system finishes only when no other system can    *)
(* start - what a pool with enough idle threads does while every started   *)
(* system is held inside run by the harness controller.                    *)
(***************************************************************************)
EXTENDS Planner, Json

CONSTANTS W, MaxPanics, ModesC

VARIABLES phase,
          st, runs, cur, icur, irounds, tlpc, mode, k, result, npan, world, obs, w0,
          hist      \* sequence of <<"F", s>> / <<"E", s>> / <<"P", s>> steps of the run phase

xv == <<st, runs, cur, icur, irounds, tlpc, mode, k, result, npan, world, obs, w0>>
allvars == <<vars, phase, xv, hist>>

Sys0 == 1..N
AccF == [s \in Sys0 |-> IF s <= Len(regs) THEN [r |-> regs[s].r, w |-> regs[s].w] ELSE [r |-> {}, w |-> {}]]
DepF == [s \in Sys0 |-> IF s <= Len(regs) THEN regs[s].d ELSE <<>>]
EpsF == [s \in Sys0 |-> IF s <= Len(regs) THEN regs[s].e ELSE 0]

E == INSTANCE Exec WITH
       NSys <- N, Layouts <- {}, TLs <- <<>>, BatchSys <- 0, InnerLayout <- <<>>, BatchN <- 0,
       K <- 1, Modes <- ModesC, MaxDeps <- 1, Barriers <- TRUE, Mut <- "none",
       layout <- ids, acc <- AccF, deps <- DepF, eps <- EpsF

InitS == /\ Init /\ phase = "build"
         /\ st = [s \in Sys0 |-> "idle"] /\ runs = [s \in Sys0 |-> 0]
         /\ cur = 0 /\ icur = 0 /\ irounds = 0 /\ tlpc = 0 /\ mode = "none" /\ k = 0 /\ result = "none" /\ npan = 0
         /\ world = E!W0 /\ obs = E!NoObs /\ w0 = E!W0 /\ hist = <<>>

Build == /\ phase = "build" /\ Len(regs) < N /\ Next /\ outcome'[1] = "ok" /\ UNCHANGED <<phase, xv, hist>>
Start == /\ phase = "build" /\ Len(regs) = N /\ phase' = "run" /\ UNCHANGED <<vars, xv, hist>>

\* the guard of E!Fetch, spelled out (TLC cannot evaluate ENABLED of an instantiated action that leaves
\* the planner's variables open)
FetchEnabled == \E s \in Sys0 : result = "none" /\ E!Startable(s) /\ st[s] = "idle" /\ Cardinality(E!RunningNow) < E!Limit
Run == /\ phase = "run" /\ UNCHANGED <<vars, phase>>
       /\ \/ (\E m \in ModesC : E!Begin(m)) /\ UNCHANGED hist
          \/ \E s \in Sys0 : E!Fetch(s) /\ hist' = Append(hist, <<"F", s>>)
          \/ \E s \in Sys0 : ~FetchEnabled /\ E!Finish(s) /\ hist' = Append(hist, <<"E", s>>)
          \/ \E s \in Sys0 : ~FetchEnabled /\ E!PanicIn(s) /\ hist' = Append(hist, <<"P", s>>)
          \/ E!EndStage /\ UNCHANGED hist
          \/ E!End /\ UNCHANGED hist
NextS == Build \/ Start \/ Run
SpecS == InitS /\ [][NextS]_allvars

\* hide the history: one representative schedule per distinct executor state
ViewS == <<vars, phase, xv>>

\* ---- invariants: the executor predicates on plans the planner really builds ----------
RunPhase == phase = "run"
SInvC01 == RunPhase => E!InvC01
SInvNoBorrowPanic == RunPhase => E!InvNoBorrowPanic
SInvC02 == RunPhase => E!InvC02
SInvC03 == RunPhase => E!InvC03
SInvC04 == RunPhase => E!InvC04
SInvC05 == RunPhase => E!InvC05
SInvC14 == RunPhase => E!InvC14

EmitS == (RunPhase /\ cur = 0 /\ k = 1) =>
           PrintT(<<"REPLAY", ToJson([regs |-> regs, ids |-> ids, epoch |-> epoch, hist |-> hist, mode |-> mode, result |-> result])>>)
=============================================================================
