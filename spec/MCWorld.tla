------------------------------ MODULE MCWorld ------------------------------
(* Model-checking wrapper for World: bounded histories, TLC-only operators. *)
(* `hist` is a history variable (one entry per call: call, outcome and the  *)
(* raw state after it) that exists only here and is hidden from the         *)
(* fingerprint by a VIEW:                                                   *)
(*   MCView2 = abstract state + depth: every state reachable within         *)
(*             MaxSteps calls once; the state invariants InvCxx and the     *)
(*             action rules RuleCxx (evaluated by TLC on EVERY generated    *)
(*             transition) are thereby checked for all histories <= bound;  *)
(*   MCView  = additionally the last call and its outcome: every distinct   *)
(*             (state, call, outcome, depth) is kept once and carries ONE   *)
(*             real behaviour leading to it, which Emit prints as JSON      *)
(*             (projected state after every call) for the spec -> impl      *)
(*             replay.                                                      *)
EXTENDS World, TLC, Json

CONSTANTS MaxSteps, EmitFrom,  \* histories of length EmitFrom..MaxSteps are emitted
          Phase,
          MaxGuards           \* guard ids are 1..MaxGuards (the actions themselves are unbounded)

\* ---- bounded next-state relation (model checking) -----------------------------
CONSTANTS Payloads, WPayloads, Shapes, MetaTys, SetupShapes
FreeIds == (1 .. MaxGuards) \ DOMAIN guards
FreeSeq == Sorted(FreeIds)
Live == DOMAIN guards

\* &mut self calls (enabled only without live guards, D1)
NextMut ==
  \/ \E t \in Types, p \in Payloads : Insert(t, p) \/ EntryOrInsert(t, p) \/ EntryOrInsertWith(t, p)
  \/ \E t \in Types, id \in Ids, p \in Payloads : InsertById(t, id, p)
  \/ \E t \in Types : Remove(t)
  \/ \E t \in Types, id \in Ids : RemoveById(t, id)
  \/ \E t \in Types, p \in WPayloads \cup {0} : GetMut(t, p)
  \/ \E id \in Ids, p \in WPayloads \cup {0} : GetMutRaw(id, p)
  \/ \E sh \in SetupShapes : Setup(sh)
  \/ \E sh \in SetupShapes, p \in WPayloads \cup {0}, fp \in BOOLEAN : Exec(sh, p, fp)

\* &self calls and operations on guards
NextShared ==
  LET fs == FreeSeq IN
  /\ \/ \E t \in Types : HasValue(t)
     \/ \E id \in Ids : HasValueRaw(id)
     \/ \E t \in Types : Fetch(t, fs) \/ TryFetch(t, fs) \/ FetchMut(t, fs) \/ TryFetchMut(t, fs)
     \/ \E t \in Types, id \in Ids : TryFetchById(t, id, fs) \/ TryFetchMutById(t, id, fs)
     \/ \E g \in Live : CloneGuard(g, fs) \/ DropGuard(g)
     \/ \E g \in Live, p \in WPayloads : GuardWrite(g, p)
     \/ \E S \in SUBSET Live : S # {} /\ Unwind(Sorted(S))
     \/ \E sh \in Shapes : SystemData(sh, fs)
     \/ \E mode \in {"r", "w"} : MetaTys # <<>> /\ MetaIter(MetaTys, mode, fs)
  /\ 0 \notin DOMAIN guards'           \* D4: enough free guard ids (model bound only)

Next == NextMut \/ NextShared

\* well-typed inserts only (used to populate the world quickly, see Phase)
NextBuild == \E id \in Ids, p \in Payloads : InsertById(id[1], id, p)

VARIABLE hist
mcvars == <<store, borrow, guards, dropped, returned, nextIdent, call, outcome, iters, hist>>

MCInit == Init /\ hist = <<>>
\* Phase = 0: every call at every step.  Phase = k > 0: the first k calls populate the
\* world (NextBuild), the remaining ones are &self calls and guard operations only, so
\* that guard-heavy histories are reached within a small bound.
MCNext ==
  /\ Len(hist) < MaxSteps
  /\ IF Phase = 0 THEN Next ELSE IF Len(hist) < Phase THEN NextBuild ELSE NextShared
  /\ UNCHANGED iters            \* step-wise iteration is exercised by the random real histories only
  /\ hist' = Append(hist, [call |-> call', out |-> outcome', st |-> store', br |-> borrow', gd |-> guards',
                              n |-> nextIdent', D |-> dropped' \cup returned'])
MCSpec == MCInit /\ [][MCNext]_mcvars

MCView == <<store, borrow, guards, dropped, returned, nextIdent, call, outcome, Len(hist)>>
MCView2 == <<store, borrow, guards, dropped, returned, nextIdent, Len(hist)>>

\* shapes used by the bounded Next (sequences of records cannot be written in a cfg)
M(k, t) == [k |-> k, t |-> t]
ShapesRW == {<<M(a, s), M(b, t)>> : a \in {"read", "write"}, b \in {"read", "write"}, s \in Types, t \in Types}
ShapesOpt == {<<M(a, s), M(b, t)>> : a \in {"optread", "optwrite", "read"}, b \in {"optwrite", "write", "optread"},
                                     s \in Types, t \in Types}
ShapesSmall == {<<M("read", s), M("write", t)>> : s \in Types, t \in Types}
                 \cup {<<M("optwrite", s), M("optread", t)>> : s \in Types, t \in Types}
ShapesNone == {}
MetaAll == Sorted(Types)
MetaNone == <<>>

InvC08 == P_C08
InvC09 == P_C09
RuleC08 == [][R_C08]_mcvars
RuleC09 == [][R_C09]_mcvars

Proj(h) == [call |-> h.call, out |-> h.out, cells |-> CellsOf(h.st, h.br), guards |-> GuardObsOf(h.st, h.gd),
            drops |-> DropsOf(h.n, h.D)]
Emit == (Len(hist) >= EmitFrom) => PrintT(<<"REPLAY", ToJson([i \in DOMAIN hist |-> Proj(hist[i])])>>)
=============================================================================
