------------------------------ MODULE SysData ------------------------------
(***************************************************************************)
(* Denotational semantics of shred's system-data SHAPES and the PROPERTY   *)
(* DEFINITIONS of C06 ("declared access equals real borrows for every      *)
(* provided system-data type") and of the world half of C13 ("setup never  *)
(* clobbers; optional/expecting accessors create nothing; setup of a       *)
(* composite = composition of member setups in order").                    *)
(*                                                                         *)
(* A shape is a TABLE of nodes (no recursive records); node 1 is the root, *)
(* the children of node n have indices > n:                                *)
(*   [t |-> "leaf",  kind, res, comp, kids |-> <<>>]                       *)
(*        kind \in Read | Write | ReadExpect | WriteExpect | OptRead |      *)
(*                 OptWrite (res \in Res)  |  Unit | Phantom (res = 0)      *)
(*               | ReadH | WriteH : Read / Write with a CUSTOM SetupHandler *)
(*                 (res \in Res, comp \in Res its companion resource)       *)
(*   [t |-> "tuple" | "named" | "tstruct", kind |-> "", res |-> 0, kids]   *)
(*        a Rust tuple (arity 1..26) / #[derive(SystemData)] struct with   *)
(*        named fields / #[derive(SystemData)] tuple struct                *)
(*                                                                         *)
(* What the code does (src/system.rs impl_data!, src/world/data.rs,        *)
(* shred-derive): a composite concatenates reads()/writes() of its members *)
(* in member order (Vec, duplicates kept), fetches its members left to     *)
(* right (a panic in member k unwinds members 1..k-1, releasing their      *)
(* guards), and sets its members up left to right.  Read/Write borrow one  *)
(* cell shared/exclusively and panic when the resource is missing;         *)
(* Option<..> yields None (no borrow) when it is missing; every form       *)
(* panics when the cell is taken incompatibly.  The setup of a leaf is a   *)
(* CALL OF ITS SETUP HANDLER: DefaultProvider creates the resource into a  *)
(* vacant slot, PanicHandler does nothing, Option<..> has no handler call; *)
(* the custom handler of the zoo (ReadH / WriteH) is called observably     *)
(* whatever exists, creates its resource if vacant and ALSO its companion  *)
(* resource if vacant (an effect beyond the declared resource).  The setup *)
(* of a composite is the concatenation of its members' handler calls.      *)
(*                                                                         *)
(* Deliberate deviations: values of resources are abstracted to a number;  *)
(* the value handed out by a successful fetch is not modelled beyond the   *)
(* borrows it holds (an Option member is Some iff it holds a borrow).      *)
(***************************************************************************)
EXTENDS Naturals, Sequences, FiniteSets

ReadKinds  == {"Read", "ReadExpect", "OptRead", "ReadH"}
WriteKinds == {"Write", "WriteExpect", "OptWrite", "WriteH"}
HKinds     == {"ReadH", "WriteH"}          \* custom SetupHandler with a companion resource
OptKinds   == {"OptRead", "OptWrite"}
DefKinds   == {"Read", "Write"}            \* DefaultProvider: the only creating forms
ResKinds   == ReadKinds \cup WriteKinds
NoKinds    == {"Unit", "Phantom"}
Styles     == {"tuple", "named", "tstruct"}
MaxArity   == 26
MaxFields  == 64

ToSet(s) == {s[i] : i \in DOMAIN s}

\* ---- construction of shape tables ---------------------------------------------
Node(t, kind, res, kids) == [t |-> t, kind |-> kind, res |-> res, comp |-> 0, kids |-> kids]
Leaf(kind, res) == << Node("leaf", kind, IF kind \in NoKinds THEN 0 ELSE res, <<>>) >>
LeafH(kind, res, comp) == << [Node("leaf", kind, res, <<>>) EXCEPT !.comp = comp] >>

RECURSIVE Flat(_)
Flat(ss) == IF ss = <<>> THEN <<>> ELSE Head(ss) \o Flat(Tail(ss))

Shift(tb, d) == [i \in DOMAIN tb |-> [tb[i] EXCEPT !.kids = [j \in DOMAIN @ |-> @[j] + d]]]

\* composite whose members are the given tables (each rooted at its node 1): the root,
\* then the member tables one after the other with their child indices shifted
RECURSIVE ComposeRec(_, _, _, _)
ComposeRec(subs, i, nodes, kids) ==
  IF i > Len(subs) THEN [nodes |-> nodes, kids |-> kids]
  ELSE LET d == 1 + Len(nodes) IN
       ComposeRec(subs, i + 1, nodes \o Shift(subs[i], d), Append(kids, d + 1))
Compose(style, subs) ==
  LET c == ComposeRec(subs, 1, <<>>, <<>>) IN << Node(style, "", 0, c.kids) >> \o c.nodes

\* well-formedness over resources 1..nres (termination of the recursions below)
WF(tb, nres) ==
  /\ Len(tb) >= 1
  /\ \A n \in DOMAIN tb :
       LET x == tb[n] IN
       IF x.t = "leaf" THEN
          /\ x.kids = <<>>
          /\ \/ x.kind \in ResKinds \ HKinds /\ x.res \in 1..nres /\ x.comp = 0
             \/ x.kind \in HKinds /\ x.res \in 1..nres /\ x.comp \in 1..nres
             \/ x.kind \in NoKinds /\ x.res = 0 /\ x.comp = 0
       ELSE /\ x.t \in Styles /\ x.comp = 0
            \* tuples exist up to arity 26; a derived struct may have any number of fields
            /\ Len(x.kids) \in 1..(IF x.t = "tuple" THEN MaxArity ELSE MaxFields)
            /\ \A j \in DOMAIN x.kids : x.kids[j] \in (n + 1)..Len(tb)

\* ---- the composition rules ------------------------------------------------------
RECURSIVE Reads(_, _)
Reads(tb, n) ==
  LET x == tb[n] IN
  IF x.t = "leaf" THEN (IF x.kind \in ReadKinds THEN <<x.res>> ELSE <<>>)
  ELSE Flat([j \in DOMAIN x.kids |-> Reads(tb, x.kids[j])])

RECURSIVE Writes(_, _)
Writes(tb, n) ==
  LET x == tb[n] IN
  IF x.t = "leaf" THEN (IF x.kind \in WriteKinds THEN <<x.res>> ELSE <<>>)
  ELSE Flat([j \in DOMAIN x.kids |-> Writes(tb, x.kids[j])])

\* cell acquisitions of a fetch, in member order
RECURSIVE FetchSteps(_, _)
FetchSteps(tb, n) ==
  LET x == tb[n] IN
  IF x.t = "leaf" THEN
     (IF x.kind \in ResKinds
      THEN << [res |-> x.res, mode |-> IF x.kind \in ReadKinds THEN "r" ELSE "w",
               opt |-> x.kind \in OptKinds] >>
      ELSE <<>>)
  ELSE Flat([j \in DOMAIN x.kids |-> FetchSteps(tb, x.kids[j])])

\* observable setup-handler calls of a setup, in member order (PanicHandler's call has no
\* effect and Option forms call no handler: no step)
RECURSIVE SetupSteps(_, _)
SetupSteps(tb, n) ==
  LET x == tb[n] IN
  IF x.t = "leaf" THEN
     (IF x.kind \in DefKinds THEN << [h |-> "default", res |-> x.res, comp |-> 0] >>
      ELSE IF x.kind \in HKinds THEN << [h |-> "custom", res |-> x.res, comp |-> x.comp] >>
      ELSE <<>>)
  ELSE Flat([j \in DOMAIN x.kids |-> SetupSteps(tb, x.kids[j])])

\* leaves in member order (used for the lemma "composition = map over leaves")
RECURSIVE Leaves(_, _)
Leaves(tb, n) ==
  LET x == tb[n] IN
  IF x.t = "leaf" THEN <<x>> ELSE Flat([j \in DOMAIN x.kids |-> Leaves(tb, x.kids[j])])

RECURSIVE Depth(_, _)
Depth(tb, n) ==
  LET x == tb[n] IN
  IF x.t = "leaf" THEN 0
  ELSE 1 + (CHOOSE m \in {Depth(tb, x.kids[j]) : j \in DOMAIN x.kids} :
               \A j \in DOMAIN x.kids : Depth(tb, x.kids[j]) <= m)

\* ---- borrow tables ------------------------------------------------------------------
Free == [r |-> 0, w |-> FALSE]
NoBorrows(S) == [x \in S |-> Free]
Compatible(b, mode) == IF mode = "r" THEN ~b.w ELSE ~b.w /\ b.r = 0
Acquire(b, a) == [b EXCEPT ![a.res] = IF a.mode = "r" THEN [@ EXCEPT !.r = @ + 1]
                                       ELSE [@ EXCEPT !.w = TRUE]]
\* what a single-threaded probe of a cell observes: 0 free, 1 shared, 2 exclusive
Class(b) == IF b.w THEN 2 ELSE IF b.r > 0 THEN 1 ELSE 0

\* ---- fetch: member by member, unwinding on panic -----------------------------------
\* outcome [out |-> "ok" | "missing" | "borrow", res, at (index of the failing step), borrow]
RECURSIVE RunFetch(_, _, _, _, _)
RunFetch(steps, i, present, b, b0) ==
  IF i > Len(steps) THEN [out |-> "ok", res |-> 0, at |-> 0, borrow |-> b]
  ELSE LET a == steps[i] IN
       IF a.res \notin present THEN
          IF a.opt THEN RunFetch(steps, i + 1, present, b, b0)
          ELSE [out |-> "missing", res |-> a.res, at |-> i, borrow |-> b0]
       ELSE IF ~Compatible(b[a.res], a.mode)
            THEN [out |-> "borrow", res |-> a.res, at |-> i, borrow |-> b0]
            ELSE RunFetch(steps, i + 1, present, Acquire(b, a), b0)

Fetch(tb, present, b0) == RunFetch(FetchSteps(tb, 1), 1, present, b0, b0)

\* ---- setup: member by member, only into vacant slots ---------------------------------
\* a world is a function resource -> value, 0 = absent; dflt[r] > 0 is Default::default()
Absent == 0
Present(world) == {x \in DOMAIN world : world[x] # Absent}
\* The environment of a setup: env.pdef[x] - Default::default() of x's type panics (the "must be
\* inserted explicitly" idiom); env.leaked[x] \in 0 | 1 | 2 - a shared / exclusive guard of the present
\* resource x was leaked (mem::forget) before the setup.
NoEnv(S) == [pdef |-> [x \in S |-> FALSE], leaked |-> [x \in S |-> 0]]

\* What a providing handler does for resource y (src/world/setup.rs, entry.rs: entry().or_insert_with(
\* T::default), then borrow_mut of the cell): a vacant slot gets Default::default() - which may panic,
\* nothing inserted; an occupied slot is left alone (Default is NOT evaluated) but its cell is
\* borrowed mutably for a moment - a panic when a guard was leaked, nothing modified.
Provide(world, created, y, dflt, env) ==
  IF world[y] = Absent
  THEN IF env.pdef[y] THEN [out |-> "panic_default", world |-> world, created |-> created]
       ELSE [out |-> "ok", world |-> [world EXCEPT ![y] = dflt[y]], created |-> Append(created, y)]
  ELSE IF env.leaked[y] # 0 THEN [out |-> "panic_borrow", world |-> world, created |-> created]
       ELSE [out |-> "ok", world |-> world, created |-> created]

\* result: outcome (ok | panic_default | panic_borrow: the setup stops at the panicking member), the
\* world, the resources created (in order), the custom-handler calls (in order)
RECURSIVE RunSetup(_, _, _, _, _, _, _)
RunSetup(steps, i, world, created, calls, dflt, env) ==
  IF i > Len(steps) THEN [out |-> "ok", world |-> world, created |-> created, calls |-> calls]
  ELSE LET st == steps[i]
           p1 == Provide(world, created, st.res, dflt, env)
       IN
       IF st.h = "default" THEN
          IF p1.out # "ok" THEN [out |-> p1.out, world |-> p1.world, created |-> p1.created, calls |-> calls]
          ELSE RunSetup(steps, i + 1, p1.world, p1.created, calls, dflt, env)
       ELSE \* custom handler: always called (logged first); own resource, then the companion
            LET c1 == Append(calls, st.res)
                p2 == Provide(p1.world, p1.created, st.comp, dflt, env)
            IN IF p1.out # "ok" THEN [out |-> p1.out, world |-> p1.world, created |-> p1.created, calls |-> c1]
               ELSE IF p2.out # "ok" THEN [out |-> p2.out, world |-> p2.world, created |-> p2.created, calls |-> c1]
               ELSE RunSetup(steps, i + 1, p2.world, p2.created, c1, dflt, env)

SetupEnv(tb, world, dflt, env) == RunSetup(SetupSteps(tb, 1), 1, world, <<>>, <<>>, dflt, env)
Setup(tb, world, dflt) == SetupEnv(tb, world, dflt, NoEnv(DOMAIN world))

\* =======================================================================================
\* PROPERTY DEFINITIONS.  Every operator takes the observation as ARGUMENTS so that the
\* model-checking module and the trace specification evaluate literally the same
\* definitions - in the trace specification on what the REAL code reported and did.
\* =======================================================================================

Count(s, x) == Cardinality({i \in DOMAIN s : s[i] = x})

\* C06, declaration half: the reported lists are the composition of the members' lists
P_C06_decl(tb, reads, writes) == reads = Reads(tb, 1) /\ writes = Writes(tb, 1)

\* C06, borrow half, as the property states it: while the fetched value is alive the
\* EXISTING resources REPORTED as reads are borrowed shared, those reported as writes
\* exclusively, and nothing else changed with respect to before the fetch (cls0).
\* cls*: resource -> 0 | 1 | 2 | 3 (3 = no cell: the resource does not exist)
P_C06_borrows(reads, writes, present, cls0, cls) ==
  \A x \in DOMAIN cls :
     cls[x] = IF x \notin present THEN 3
              ELSE IF x \in ToSet(writes) THEN 2
              ELSE IF x \in ToSet(reads) THEN 1
              ELSE cls0[x]

\* C06: everything is released when the value is dropped (or the fetch unwound)
P_C06_release(cls0, clsAfter) == clsAfter = cls0

\* C06, outcome: a fetch succeeds iff no non-optional member is missing and the borrows
\* it declares are compatible among themselves and with what is already held; otherwise
\* it panics, for a reason that exists.
MissingSet(tb, present) ==
  {x \in ToSet(Leaves(tb, 1)) : x.kind \in ResKinds \ OptKinds /\ x.res \notin present}
ConflictSet(tb, present, b0) ==
  {x \in present \cap DOMAIN b0 :
      LET nr == Count(Reads(tb, 1), x)  nw == Count(Writes(tb, 1), x) IN
      \/ nw >= 2
      \/ nw >= 1 /\ nr >= 1
      \/ nw >= 1 /\ (b0[x].w \/ b0[x].r > 0)
      \/ nr >= 1 /\ b0[x].w}
P_C06_outcome(tb, present, b0, out) ==
  CASE out = "ok"      -> MissingSet(tb, present) = {} /\ ConflictSet(tb, present, b0) = {}
    [] out = "missing" -> MissingSet(tb, present) # {}
    [] out = "borrow"  -> ConflictSet(tb, present, b0) # {}
    [] OTHER           -> FALSE

\* C06: the borrow a declared READ takes is a SHARED one - also while other readers are around:
\* any number of threads fetching a read-only shape concurrently from a world in which everything
\* it needs exists (and nobody holds an exclusive borrow) all succeed
ReadOnly(tb) == Writes(tb, 1) = <<>>
P_C06_shared(tb, present, failures) ==
  (ReadOnly(tb) /\ MissingSet(tb, present) = {}) => failures = 0

\* C06, setup half: setup of a composite = composition of its members' setups, in order
\* (observed: the sequence of resources for which Default::default() was invoked
\* and of custom-handler calls - every member's handler is called whatever already exists)
P_C06_setup(tb, w0, dflt, created, calls, w1) ==
  LET s == Setup(tb, w0, dflt) IN created = s.created /\ calls = s.calls /\ w1 = s.world
\* the same in an environment with panicking Defaults / leaked guards: the setup runs its members
\* in order up to the one that panics (outcome included)
P_C06_setup_env(tb, w0, dflt, env, out, created, calls, w1) ==
  LET s == SetupEnv(tb, w0, dflt, env) IN
  out = s.out /\ created = s.created /\ calls = s.calls /\ w1 = s.world

\* C13, world half: setup modifies nothing that exists, creates exactly the vacant
\* handler-provided resources (with the default value); Option / Expect forms create nothing
DefaultProvided(tb) == {x.res : x \in {y \in ToSet(Leaves(tb, 1)) : y.kind \in DefKinds}}
Provided(tb) == DefaultProvided(tb)
                \cup UNION {{x.res, x.comp} : x \in {y \in ToSet(Leaves(tb, 1)) : y.kind \in HKinds}}
P_C13_world(tb, w0, dflt, w1) ==
  /\ DOMAIN w1 = DOMAIN w0
  /\ \A x \in DOMAIN w0 :
       IF w0[x] # Absent THEN w1[x] = w0[x]
       ELSE IF x \in Provided(tb) THEN w1[x] = dflt[x]
       ELSE w1[x] = Absent

\* nothing that exists is modified - whatever the outcome of the setup
P_C13_noclobber(w0, w1) ==
  DOMAIN w1 = DOMAIN w0 /\ \A x \in DOMAIN w0 : w0[x] # Absent => w1[x] = w0[x]
\* Default::default() is evaluated only for a vacant, provided resource (never for one that exists)
P_C13_nodefault(tb, w0, created) ==
  \A i \in DOMAIN created :
     created[i] \in DOMAIN w0 /\ w0[created[i]] = Absent /\ created[i] \in Provided(tb)
\* all of it, in an environment: a setup that the environment lets complete completes (and reaches
\* every member); one that must panic panics, having done exactly the members before
P_C13_setup(tb, w0, dflt, env, out, created, w1) ==
  LET s == SetupEnv(tb, w0, dflt, env) IN
  /\ P_C13_noclobber(w0, w1)
  /\ P_C13_nodefault(tb, w0, created)
  /\ IF s.out = "ok" THEN out = "ok" /\ P_C13_world(tb, w0, dflt, w1)
     ELSE out = s.out /\ w1 = s.world

\* =======================================================================================
\* State machine of ONE probe of one shape (model checking; the trace specification
\* does not use it).  One action per call with its outcome.
\* =======================================================================================
VARIABLES
  sh,       \* the shape (constant during a behaviour)
  world0,   \* the world before the probe (constant during a behaviour)
  world,    \* resource -> value | Absent
  held0,    \* borrows held by somebody else before the fetch
  borrow,   \* the borrow table
  phase,    \* "init" | "alive" | "panicked" | "dropped" | "setup"
  outc      \* outcome of the last action

vars == <<sh, world0, world, held0, borrow, phase, outc>>

Res  == DOMAIN world0                \* abstract resources 1..n
Dflt == [x \in Res |-> 1000 + x]     \* values produced by Default::default()
Pre  == [x \in Res |-> x]            \* distinctive values of pre-existing resources

NoRes == [out |-> "", res |-> 0, at |-> 0, created |-> <<>>, calls |-> <<>>]

DoFetch ==
  /\ phase = "init"
  /\ LET f == Fetch(sh, Present(world), borrow) IN
     /\ borrow' = f.borrow
     /\ phase' = IF f.out = "ok" THEN "alive" ELSE "panicked"
     /\ outc' = [NoRes EXCEPT !.out = f.out, !.res = f.res, !.at = f.at]
  /\ UNCHANGED <<sh, world0, world, held0>>

DoDrop ==
  /\ phase = "alive"
  /\ borrow' = held0          \* every guard of the value is dropped
  /\ phase' = "dropped"
  /\ UNCHANGED <<sh, world0, world, held0, outc>>

DoSetup ==
  /\ phase = "init" /\ borrow = NoBorrows(Res)      \* setup takes &mut World
  /\ LET s == Setup(sh, world, Dflt) IN
     /\ world' = s.world
     /\ outc' = [NoRes EXCEPT !.out = "ok", !.created = s.created, !.calls = s.calls]
  /\ phase' = "setup"
  /\ UNCHANGED <<sh, world0, held0, borrow>>

Next == DoFetch \/ DoDrop \/ DoSetup

\* ---- invariants of the model (the design satisfies its own property definitions) ----
ClsOf(b) == [x \in Res |-> IF x \in Present(world) THEN Class(b[x]) ELSE 3]

P_C06 ==
  /\ phase = "alive" =>
       /\ P_C06_borrows(Reads(sh, 1), Writes(sh, 1), Present(world), ClsOf(held0), ClsOf(borrow))
       \* the borrow table is exactly the multiset of acquisitions on top of held0
       /\ \A x \in Res :
            /\ borrow[x].r = held0[x].r + (IF x \in Present(world) THEN Count(Reads(sh, 1), x) ELSE 0)
            /\ borrow[x].w = (held0[x].w \/ (x \in Present(world) /\ Count(Writes(sh, 1), x) > 0))
       \* never shared and exclusive at once
       /\ \A x \in Res : ~(borrow[x].w /\ borrow[x].r > 0)
  /\ phase \in {"dropped", "panicked"} => P_C06_release(ClsOf(held0), ClsOf(borrow)) /\ borrow = held0
  /\ phase \in {"alive", "panicked"} => P_C06_outcome(sh, Present(world), held0, outc.out)

P_C06_lemmas ==
  LET ls == Leaves(sh, 1)
      rs == SelectSeq(ls, LAMBDA x : x.kind \in ReadKinds)
      ws == SelectSeq(ls, LAMBDA x : x.kind \in WriteKinds)
      rd == Reads(sh, 1)
      wr == Writes(sh, 1)
  IN
  \* composition = map over the leaves in member order; the lists are disjoint by kind
  /\ rd = [i \in DOMAIN rs |-> rs[i].res]
  /\ wr = [i \in DOMAIN ws |-> ws[i].res]
  /\ Len(FetchSteps(sh, 1)) = Len(rd) + Len(wr)
  /\ {st.res : st \in ToSet(SetupSteps(sh, 1))} \subseteq ToSet(rd) \cup ToSet(wr)
  /\ WF(sh, Cardinality(Res))

P_C13_world_inv ==
  phase = "setup" =>
     /\ P_C13_world(sh, world0, Dflt, world)
     /\ P_C13_setup(sh, world0, Dflt, NoEnv(Res), outc.out, outc.created, world)
     /\ P_C06_setup(sh, world0, Dflt, outc.created, outc.calls, world)
     \* every custom handler is called exactly once per occurrence, whatever exists
     /\ Len(outc.calls) = Cardinality({i \in DOMAIN Leaves(sh, 1) : Leaves(sh, 1)[i].kind \in HKinds})
     \* afterwards every default-providing member can be fetched; created without duplicates
     /\ Provided(sh) \subseteq Present(world)
     /\ \A i, j \in DOMAIN outc.created : i # j => outc.created[i] # outc.created[j]
     \* idempotent
     /\ Setup(sh, world, Dflt).world = world /\ Setup(sh, world, Dflt).created = <<>>
=============================================================================
