------------------------------ MODULE AsyncInd ------------------------------
(***************************************************************************)
(* Inductive invariant for Async.tla, discharged by Apalache:              *)
(*   Init => IndInv                       (apalache-mc check --length=0)   *)
(*   IndInv /\ Next => IndInv'            (--init=IndInit --length=1)      *)
(* This lifts the C15 safety invariants from "call sequences of length     *)
(* <= MaxCalls" (TLC) to call sequences of ANY length, for the fixed       *)
(* numbers of systems of the configuration.                                *)
(***************************************************************************)
EXTENDS Async, Apalache

ConstInit == NSys = 3 /\ NTl = 2 /\ MaxCalls = 1000000

TypeOK ==
  /\ chan \in {"owned", "inflight", "sent"}
  /\ call \in Ops \cup {"none"}
  /\ DOMAIN st = Sys /\ DOMAIN runs = Sys /\ DOMAIN tlruns = Tl
  /\ \A s \in Sys : st[s] \in {"idle", "run", "done"}
  /\ tlpc \in 0..NTl
  /\ issued >= 0 /\ waits >= 0 /\ ncalls >= 0
  /\ lastRunning \in {"na", "true", "false"}

IndInv ==
  /\ TypeOK
  \* the state is with the handle (or in the channel): the job is complete
  /\ chan # "inflight" => \A s \in Sys : st[s] # "run" /\ runs[s] = issued
  /\ chan = "sent" => \A s \in Sys : st[s] = "done"
  \* a job in flight runs the systems in order, each at most once
  /\ chan = "inflight" =>
        /\ issued >= 1
        /\ \A s \in Sys : (st[s] = "done" => runs[s] = issued) /\ (st[s] # "done" => runs[s] = issued - 1)
        /\ \A s \in Sys : st[s] # "idle" => \A x \in Sys : x < s => st[x] = "done"
  \* thread-local systems: once per completed wait, the wait in progress has run the first tlpc of them
  /\ \A t \in Tl : tlruns[t] = waits + (IF call = "wait" /\ t <= tlpc THEN 1 ELSE 0)
  /\ (call = "wait" /\ tlpc > 0) => chan = "owned"

\* arbitrary state satisfying IndInv (Gen bounds the size of the generated functions)
IndInit ==
  /\ chan \in {"owned", "inflight", "sent"}
  /\ call \in Ops \cup {"none"}
  /\ st = Gen(3) /\ runs = Gen(3) /\ tlruns = Gen(2)
  /\ tlpc \in 0..NTl
  /\ issued \in Nat /\ waits \in Nat /\ ncalls \in Nat
  /\ lastRunning \in {"na", "true", "false"}
  /\ IndInv

\* negative controls: IndInit must be satisfiable, in every phase (each of these MUST be violated at length 0)
SanityInflight == chan # "inflight"
SanityWaiting == ~(call = "wait" /\ tlpc = 1 /\ issued >= 2)
\* and the induction is not trivial: without the ordering conjunct of IndInv the step fails (see DESIGN)

\* the C15 invariants are consequences of IndInv
Consequences == InvC15owned /\ InvC15running /\ InvC15noOverlap /\ InvC15tl
=============================================================================
