------------------------------ MODULE MCExec ------------------------------
(* Model-checking wrapper for Exec: named plans for the configuration files  *)
(* (sequences cannot be written in a .cfg).                                   *)
EXTENDS Exec

\* outer layouts over systems 1..4: width 2x2, a group of two, one wide stage, a chain
L_2x2   == << << <<1>>, <<2>> >>, << <<3>>, <<4>> >> >>
L_grp   == << << <<1, 2>>, <<3>> >>, << <<4>> >> >>
L_wide  == << << <<1>>, <<2>>, <<3>>, <<4>> >> >>
L_chain == << << <<1>> >>, << <<2>> >>, << <<3>>, <<4>> >> >>
L_w3    == << << <<1>>, <<2>>, <<3>> >> >>
LayoutsFlat4 == {L_2x2, L_grp, L_wide, L_chain}
LayoutsFlat3 == {L_w3, << << <<1, 2>>, <<3>> >> >>, << << <<1>>, <<2>> >>, << <<3>> >> >>}
\* thread-local: systems 4 (and 3) run last on the caller
LayoutsTL == { << << <<1>>, <<2>> >> >>, << << <<1, 2>> >> >>, << << <<1>> >>, << <<2>> >> >> }
TL_34 == <<3, 4>>
TL_4 == <<4>>
NoTL == <<>>
\* batch: system 2 is a batch owning systems 4,5 (inner layouts: side by side / in sequence)
LayoutsBatch == { << << <<1>>, <<2>> >>, << <<3>> >> >>, << << <<1>> >>, << <<2>>, <<3>> >> >>, << << <<1, 2>>, <<3>> >> >> }
InnerPar == << << <<4>>, <<5>> >> >>
InnerSeq == << << <<4>> >>, << <<5>> >> >>
NoInner == <<>>
ModesPar == {"par"}
ModesDisp == {"disp"}
ModesAll == {"disp", "par", "seq"}
ModesParSeq == {"par", "seq"}
=============================================================================
