------------------------------- MODULE World -------------------------------
(***************************************************************************)
(* shred::World as a typed map of run-time borrow-checked cells.           *)
(*                                                                         *)
(* One action per public call of `World` (src/world/mod.rs, entry.rs,      *)
(* data.rs, setup.rs) and of the guards it hands out, each with its        *)
(* OUTCOME (unit | true | false | none | some(v) | guard(v) | guards(vs) | *)
(* panic(type|absent|borrow|user)) as part of the action.  Plain TLA+, no  *)
(* TLC-only operators: MCWorld (model checking, Emit) and WorldTrace       *)
(* (validation of traces of the real library) extend this module.          *)
(*                                                                         *)
(* Deliberate modelling decisions (named, as the brief demands):           *)
(*  D1 `&mut self` calls (insert*, remove*, entry, get_mut*, setup, exec)  *)
(*     carry the enabling condition `MutOK` (no live guard).  That is a    *)
(*     COMPILE-TIME fact of the Rust API (a guard borrows `&World`), not a *)
(*     run-time check of shred; the harness obeys it by construction.      *)
(*  D2 `entry().or_insert*` returns a `FetchMut` that borrows the world    *)
(*     mutably; nothing else can happen while it lives, so acquisition,    *)
(*     the read through it and its release are ONE action (borrow table    *)
(*     unchanged).  Same for the `&mut T` of get_mut / get_mut_raw.        *)
(*  D3 A value handed back by `remove*` goes to `returned`; the caller     *)
(*     (harness) drops it at once, so its destructor count is 1 as for     *)
(*     members of `dropped`.  The value ARGUMENT of a panicking            *)
(*     insert_by_id, and the unused argument of or_insert on an occupied   *)
(*     slot, are dropped by the call itself (unwinding / unused closure).  *)
(*  D4 Guard ids are chosen by the caller (`gs`: the ids given, in order,  *)
(*     to the guards that are granted).  MC and harness use the policy     *)
(*     "smallest free id first".  Gid(gs,i)=0 marks a missing id; it only  *)
(*     occurs on traces whose outcome already disagrees.                   *)
(*  D5 A failed shared attempt on an exclusively borrowed AtomicRefCell    *)
(*     leaves a stray increment that the writer's release wipes            *)
(*     (atomic_refcell 0.1.14, AtomicBorrowRef::try_new); it is not        *)
(*     observable through the API and is not modelled (WorldCell.tla       *)
(*     models the counter protocol itself).                                *)
(*  D6 `fetch` on a completely empty world additionally prints a note on   *)
(*     stderr; not modelled.                                               *)
(***************************************************************************)
EXTENDS Naturals, Sequences, FiniteSets

CONSTANTS
  Types,      \* abstract static types (positive integers)
  Dyns        \* dynamic ids (naturals; 0 = the id used by the typed calls)

VARIABLES
  store,      \* [Ids -> Val \cup {Absent}]
  borrow,     \* [Ids -> [r : Nat, w : BOOLEAN]]
  guards,     \* live guard id -> [ty, dy, kind, cl]   (kind "r" shared | "w" exclusive; cl: is a Fetch, i.e. Clone)
  dropped,    \* idents whose destructor has run inside a World call
  returned,   \* idents handed back to the caller by remove / remove_by_id
  nextIdent,  \* next fresh ident (idents are 1..nextIdent-1)
  call,       \* the call made by the last step
  outcome,    \* its outcome
  iters       \* live meta-table iterator id -> [mode, tys, idx]  (an iterator holds NO borrow)

wvars == <<store, borrow, guards, dropped, returned, nextIdent, call, outcome, iters>>

Ids    == Types \X Dyns
NoVal  == [type |-> 0, payload |-> 0, ident |-> 0]
Absent == NoVal
Free   == [r |-> 0, w |-> FALSE]

Out(k, why, vs) == [k |-> k, why |-> why, vs |-> vs]
Unit        == Out("unit", "", <<>>)
Panic(why)  == Out("panic", why, <<>>)
Bool(b)     == Out(IF b THEN "true" ELSE "false", "", <<>>)
None        == Out("none", "", <<>>)

C(op, targ, id, p, gs, shape) ==
  [op |-> op, targ |-> targ, ty |-> id[1], dy |-> id[2], p |-> p, gs |-> gs, shape |-> shape]

Put(f, k, v) == [x \in DOMAIN f \cup {k} |-> IF x = k THEN v ELSE f[x]]
Del(f, S)    == [x \in DOMAIN f \ S |-> f[x]]
Gid(gs, i)   == IF i \in DOMAIN gs THEN gs[i] ELSE 0
GId(g)       == <<guards[g].ty, guards[g].dy>>
G(id, kind, cl) == [ty |-> id[1], dy |-> id[2], kind |-> kind, cl |-> cl]
SeqToSet(s)  == {s[i] : i \in DOMAIN s}

\* ---- the AtomicRefCell discipline ------------------------------------------
Compat(b, mode) == IF mode = "r" THEN ~b.w ELSE (~b.w /\ b.r = 0)
Acq(b, mode)    == IF mode = "r" THEN [b EXCEPT !.r = @ + 1] ELSE [b EXCEPT !.w = TRUE]
Rel(b, mode)    == IF mode = "r" THEN [b EXCEPT !.r = @ - 1] ELSE [b EXCEPT !.w = FALSE]

\* Result of one shared-reference access path (try_fetch*, fetch*, *_by_id):
\* the type assertion comes first, then the map lookup, then the cell borrow.
FetchRes(st, br, targ, id, mode, style) ==
  IF targ # id[1] THEN Panic("type")
  ELSE IF st[id] = Absent THEN (IF style = "try" THEN None ELSE Panic("absent"))
  ELSE IF ~Compat(br[id], mode) THEN Panic("borrow")
  ELSE Out("guard", "", <<st[id]>>)

MutOK == DOMAIN guards = {} /\ DOMAIN iters = {}      \* D1 (an iterator borrows `&World` as well)

Init ==
  /\ store = [id \in Ids |-> Absent]
  /\ borrow = [id \in Ids |-> Free]
  /\ guards = <<>>
  /\ dropped = {} /\ returned = {} /\ nextIdent = 1
  /\ call = C("init", 0, <<0, 0>>, 0, <<>>, <<>>)
  /\ outcome = Unit
  /\ iters = <<>>

\* ---- &mut self: the map -----------------------------------------------------
\* insert (op "insert": targ = id type, dy = 0) and insert_by_id
InsertCore(op, targ, id, p) ==
  /\ MutOK
  /\ call' = C(op, targ, id, p, <<>>, <<>>)
  /\ nextIdent' = nextIdent + 1
  /\ IF targ # id[1]
     THEN /\ outcome' = Panic("type")
          /\ dropped' = dropped \cup {nextIdent}          \* D3: the argument dies in the unwinding
          /\ UNCHANGED <<store, borrow, guards, returned>>
     ELSE /\ outcome' = Unit
          /\ store' = [store EXCEPT ![id] = [type |-> targ, payload |-> p, ident |-> nextIdent]]
          /\ dropped' = IF store[id] = Absent THEN dropped ELSE dropped \cup {store[id].ident}
          /\ UNCHANGED <<borrow, guards, returned>>
Insert(t, p)           == InsertCore("insert", t, <<t, 0>>, p)
InsertById(targ, id, p) == InsertCore("insert_by_id", targ, id, p)

RemoveCore(op, targ, id) ==
  /\ MutOK
  /\ call' = C(op, targ, id, 0, <<>>, <<>>)
  /\ IF targ # id[1]
     THEN outcome' = Panic("type") /\ UNCHANGED <<store, returned>>
     ELSE IF store[id] = Absent
     THEN outcome' = None /\ UNCHANGED <<store, returned>>
     ELSE /\ outcome' = Out("some", "", <<store[id]>>)
          /\ store' = [store EXCEPT ![id] = Absent]
          /\ returned' = returned \cup {store[id].ident}
  /\ UNCHANGED <<borrow, guards, dropped, nextIdent>>
Remove(t)            == RemoveCore("remove", t, <<t, 0>>)
RemoveById(targ, id) == RemoveCore("remove_by_id", targ, id)

\* entry::<T>().or_insert(v): v is constructed by the caller in any case
EntryOrInsert(t, p) ==
  LET id == <<t, 0>>  v == [type |-> t, payload |-> p, ident |-> nextIdent] IN
  /\ MutOK
  /\ call' = C("or_insert", t, id, p, <<>>, <<>>)
  /\ nextIdent' = nextIdent + 1
  /\ IF store[id] = Absent
     THEN store' = [store EXCEPT ![id] = v] /\ outcome' = Out("guard", "", <<v>>) /\ UNCHANGED dropped
     ELSE outcome' = Out("guard", "", <<store[id]>>) /\ dropped' = dropped \cup {nextIdent}
                                                     /\ UNCHANGED store
  /\ UNCHANGED <<borrow, guards, returned>>                 \* D2

\* entry::<T>().or_insert_with(f): f runs (and makes a value) only for a vacant slot
EntryOrInsertWith(t, p) ==
  LET id == <<t, 0>>  v == [type |-> t, payload |-> p, ident |-> nextIdent] IN
  /\ MutOK
  /\ call' = C("or_insert_with", t, id, p, <<>>, <<>>)
  /\ IF store[id] = Absent
     THEN store' = [store EXCEPT ![id] = v] /\ outcome' = Out("guard", "", <<v>>)
          /\ nextIdent' = nextIdent + 1
     ELSE outcome' = Out("guard", "", <<store[id]>>) /\ UNCHANGED <<store, nextIdent>>
  /\ UNCHANGED <<borrow, guards, dropped, returned>>

\* get_mut::<T>() / get_mut_raw(id); p # 0: the caller writes p through the reference
GetMutCore(op, id, p) ==
  /\ MutOK
  /\ call' = C(op, id[1], id, p, <<>>, <<>>)
  /\ IF store[id] = Absent THEN outcome' = None /\ UNCHANGED store
     ELSE /\ outcome' = Out("some", "", <<store[id]>>)
          /\ store' = IF p = 0 THEN store ELSE [store EXCEPT ![id].payload = p]
  /\ UNCHANGED <<borrow, guards, dropped, returned, nextIdent>>
GetMut(t, p)     == GetMutCore("get_mut", <<t, 0>>, p)
GetMutRaw(id, p) == GetMutCore("get_mut_raw", id, p)

\* ---- &self: presence ----------------------------------------------------------
HasCore(op, id) ==
  /\ call' = C(op, id[1], id, 0, <<>>, <<>>)
  /\ outcome' = Bool(store[id] # Absent)
  /\ UNCHANGED <<store, borrow, guards, dropped, returned, nextIdent>>
HasValue(t)     == HasCore("has_value", <<t, 0>>)
HasValueRaw(id) == HasCore("has_value_raw", id)

\* ---- &self: the six fetch paths -------------------------------------------------
FetchCore(op, targ, id, mode, style, gs) ==
  LET res == FetchRes(store, borrow, targ, id, mode, style) IN
  /\ call' = C(op, targ, id, 0, gs, <<>>)
  /\ outcome' = res
  /\ IF res.k = "guard"
     THEN /\ borrow' = [borrow EXCEPT ![id] = Acq(@, mode)]
          /\ guards' = Put(guards, Gid(gs, 1), G(id, mode, mode = "r"))
     ELSE UNCHANGED <<borrow, guards>>
  /\ UNCHANGED <<store, dropped, returned, nextIdent>>
Fetch(t, gs)                 == FetchCore("fetch", t, <<t, 0>>, "r", "expect", gs)
TryFetch(t, gs)              == FetchCore("try_fetch", t, <<t, 0>>, "r", "try", gs)
FetchMut(t, gs)              == FetchCore("fetch_mut", t, <<t, 0>>, "w", "expect", gs)
TryFetchMut(t, gs)           == FetchCore("try_fetch_mut", t, <<t, 0>>, "w", "try", gs)
TryFetchById(targ, id, gs)    == FetchCore("try_fetch_by_id", targ, id, "r", "try", gs)
TryFetchMutById(targ, id, gs) == FetchCore("try_fetch_mut_by_id", targ, id, "w", "try", gs)

\* ---- guards -------------------------------------------------------------------
\* Fetch::clone.  Only `Fetch` is Clone (FetchMut, Read, Write and the meta-table items
\* are not: compile-time), hence the `cl` attribute of a guard.
CloneGuard(g, gs) ==
  /\ g \in DOMAIN guards /\ guards[g].cl
  /\ call' = C("clone", guards[g].ty, GId(g), 0, <<g>> \o gs, <<>>)
  /\ outcome' = Out("guard", "", <<store[GId(g)]>>)
  /\ borrow' = [borrow EXCEPT ![GId(g)] = Acq(@, "r")]
  /\ guards' = Put(guards, Gid(gs, 1), guards[g])
  /\ UNCHANGED <<store, dropped, returned, nextIdent>>

ReleaseAll(br, S) ==
  [id \in Ids |->
     [r |-> br[id].r - Cardinality({g \in S : GId(g) = id /\ guards[g].kind = "r"}),
      w |-> br[id].w /\ ~\E g \in S : GId(g) = id /\ guards[g].kind = "w"]]

DropGuard(g) ==
  /\ g \in DOMAIN guards
  /\ call' = C("drop", guards[g].ty, GId(g), 0, <<g>>, <<>>)
  /\ outcome' = Unit
  /\ borrow' = [borrow EXCEPT ![GId(g)] = Rel(@, guards[g].kind)]
  /\ guards' = Del(guards, {g})
  /\ UNCHANGED <<store, dropped, returned, nextIdent>>

\* a panic unwinds through the frame that owns the guards gs: all of them are released
Unwind(gs) ==
  /\ gs # <<>> /\ SeqToSet(gs) \subseteq DOMAIN guards
  /\ call' = C("unwind", 0, <<0, 0>>, 0, gs, <<>>)
  /\ outcome' = Panic("user")
  /\ borrow' = ReleaseAll(borrow, SeqToSet(gs))
  /\ guards' = Del(guards, SeqToSet(gs))
  /\ UNCHANGED <<store, dropped, returned, nextIdent>>

\* write through an exclusive guard (DerefMut)
GuardWrite(g, p) ==
  /\ g \in DOMAIN guards /\ guards[g].kind = "w"
  /\ call' = C("write", guards[g].ty, GId(g), p, <<g>>, <<>>)
  /\ outcome' = Unit
  /\ store' = [store EXCEPT ![GId(g)].payload = p]
  /\ UNCHANGED <<borrow, guards, dropped, returned, nextIdent>>

\* ---- system data of a small shape ------------------------------------------------
\* shape = sequence of members [k, t], k in read | write | optread | optwrite
\* (Read<T>, Write<T>, Option<Read<T>>, Option<Write<T>>; all at dynamic id 0).
MMode(k)  == IF k \in {"read", "optread"} THEN "r" ELSE "w"
MStyle(k) == IF k \in {"optread", "optwrite"} THEN "try" ELSE "expect"

\* Acquisition in member order.  acc = [br, got, vs, why]; got = sequence of granted
\* [id, mode]; a panicking member releases what was acquired (the partially built
\* tuple is dropped by the unwinding), i.e. the borrow table is left as it was.
RECURSIVE Acquire(_, _, _, _)
Acquire(shape, i, st, acc) ==
  IF i > Len(shape) \/ acc.why # "" THEN acc
  ELSE LET m   == shape[i]
           id  == <<m.t, 0>>
           res == FetchRes(st, acc.br, m.t, id, MMode(m.k), MStyle(m.k))
       IN Acquire(shape, i + 1, st,
            IF res.k = "panic" THEN [acc EXCEPT !.why = res.why]
            ELSE IF res.k = "none" THEN [acc EXCEPT !.vs = Append(@, NoVal)]
            ELSE [br  |-> [acc.br EXCEPT ![id] = Acq(@, MMode(m.k))],
                  got |-> Append(acc.got, [id |-> id, mode |-> MMode(m.k)]),
                  vs  |-> Append(acc.vs, st[id]), why |-> ""])
Acquired(shape, st, br) == Acquire(shape, 1, st, [br |-> br, got |-> <<>>, vs |-> <<>>, why |-> ""])

GrantAll(got, gs) ==      \* guards table after granting got[i] the id gs[i]
  [g \in DOMAIN guards \cup {Gid(gs, i) : i \in DOMAIN got} |->
     IF \E i \in DOMAIN got : Gid(gs, i) = g
     THEN LET i == CHOOSE i \in DOMAIN got : Gid(gs, i) = g IN G(got[i].id, got[i].mode, FALSE)
     ELSE guards[g]]

\* World::system_data::<shape>()
SystemData(shape, gs) ==
  LET a == Acquired(shape, store, borrow) IN
  /\ call' = C("system_data", 0, <<0, 0>>, 0, gs, shape)
  /\ IF a.why # ""
     THEN outcome' = Panic(a.why) /\ UNCHANGED <<borrow, guards>>
     ELSE outcome' = Out("guards", "", a.vs) /\ borrow' = a.br /\ guards' = GrantAll(a.got, gs)
  /\ UNCHANGED <<store, dropped, returned, nextIdent>>

\* SystemData::setup in member order: DefaultProvider = entry().or_insert_with(T::default)
\* (payload 0) for Read / Write; nothing for the Option forms.  acc = [st, n].
RECURSIVE SetupFold(_, _, _)
SetupFold(shape, i, acc) ==
  IF i > Len(shape) THEN acc
  ELSE LET m == shape[i]  id == <<m.t, 0>> IN
       SetupFold(shape, i + 1,
         IF m.k \in {"read", "write"} /\ acc.st[id] = Absent
         THEN [st |-> [acc.st EXCEPT ![id] = [type |-> m.t, payload |-> 0, ident |-> acc.n]], n |-> acc.n + 1]
         ELSE acc)
SetupOf(shape) == SetupFold(shape, 1, [st |-> store, n |-> nextIdent])

Setup(shape) ==
  /\ MutOK
  /\ call' = C("setup", 0, <<0, 0>>, 0, <<>>, shape)
  /\ outcome' = Unit
  /\ store' = SetupOf(shape).st /\ nextIdent' = SetupOf(shape).n
  /\ UNCHANGED <<borrow, guards, dropped, returned>>

\* World::exec(|data: shape| ..): setup, fetch, run f, drop the data.  f reads every
\* member, writes p (if p # 0) through the exclusive members it got, then returns or
\* panics (fp): either way all guards are released again.
Exec(shape, p, fp) ==
  LET s == SetupOf(shape)
      a == Acquired(shape, s.st, borrow)
      W == {a.got[i].id : i \in {j \in DOMAIN a.got : a.got[j].mode = "w"}}
  IN
  /\ MutOK
  /\ call' = C(IF fp THEN "exec_panic" ELSE "exec", 0, <<0, 0>>, p, <<>>, shape)
  /\ nextIdent' = s.n
  /\ IF a.why # ""
     THEN outcome' = Panic(a.why) /\ store' = s.st
     ELSE /\ outcome' = IF fp THEN Panic("user") ELSE Out("guards", "", a.vs)
          /\ store' = [id \in Ids |-> IF id \in W /\ p # 0 THEN [s.st[id] EXCEPT !.payload = p] ELSE s.st[id]]
  /\ UNCHANGED <<borrow, guards, dropped, returned>>

\* MetaTable::iter / iter_mut over a table in which the types `tys` (a sequence)
\* are registered, driven to the end: every present (t, 0) is borrowed with
\* AtomicRefCell::borrow / borrow_mut (panic on conflict, unwinding releases the
\* items collected so far); the items are kept as guards.
MetaShape(tys, mode) == [i \in DOMAIN tys |-> [k |-> IF mode = "r" THEN "optread" ELSE "optwrite", t |-> tys[i]]]
MetaIter(tys, mode, gs) ==
  LET a == Acquired(MetaShape(tys, mode), store, borrow) IN
  /\ call' = C(IF mode = "r" THEN "meta_iter" ELSE "meta_iter_mut", 0, <<0, 0>>, 0, gs, MetaShape(tys, mode))
  /\ IF a.why # ""
     THEN outcome' = Panic(a.why) /\ UNCHANGED <<borrow, guards>>
     ELSE outcome' = Out("guards", "", a.vs) /\ borrow' = a.br /\ guards' = GrantAll(a.got, gs)
  /\ UNCHANGED <<store, dropped, returned, nextIdent>>

\* ---- step-wise meta-table iteration ----------------------------------------------
\* MetaTable::iter / iter_mut only CREATE an iterator (no borrow); each next() takes the next
\* registered type whose (t, 0) is present at that moment and borrows exactly that cell
\* (AtomicRefCell::borrow / borrow_mut: a conflict panics right there, AFTER the position has
\* advanced, so a later next() goes on with the following types); absent resources are skipped;
\* the item is a guard that lives as long as the caller keeps it, independent of the iterator.
\* (The actions above leave `iters` alone: MCWorld / WorldTrace conjoin UNCHANGED iters.)
IterKeep == UNCHANGED <<store, dropped, returned, nextIdent>>
MIterNew(it, tys, mode) ==
  /\ it \notin DOMAIN iters
  /\ call' = C(IF mode = "r" THEN "miter_new" ELSE "miter_new_mut", 0, <<0, 0>>, 0, <<it>>, MetaShape(tys, mode))
  /\ outcome' = Unit
  /\ iters' = Put(iters, it, [mode |-> mode, tys |-> tys, idx |-> 0])
  /\ IterKeep /\ UNCHANGED <<borrow, guards>>

\* position of the next registered type after idx whose resource is present (0: none)
NextPresent(tys, idx) ==
  LET S == {j \in DOMAIN tys : j > idx /\ store[<<tys[j], 0>>] # Absent} IN
  IF S = {} THEN 0 ELSE CHOOSE j \in S : \A k \in S : j <= k

MIterNext(it, gs) ==
  /\ it \in DOMAIN iters
  /\ LET i  == iters[it]
         j  == NextPresent(i.tys, i.idx)
         id == <<i.tys[j], 0>>
     IN /\ call' = C("miter_next", 0, <<0, 0>>, 0, <<it>> \o gs, <<>>)
        /\ IF j = 0
           THEN /\ outcome' = None /\ iters' = [iters EXCEPT ![it].idx = Len(i.tys)]
                /\ UNCHANGED <<borrow, guards>>
           ELSE /\ iters' = [iters EXCEPT ![it].idx = j]
                /\ IF Compat(borrow[id], i.mode)
                   THEN /\ outcome' = Out("guard", "", <<store[id]>>)
                        /\ borrow' = [borrow EXCEPT ![id] = Acq(@, i.mode)]
                        /\ guards' = Put(guards, Gid(gs, 1), G(id, i.mode, FALSE))
                   ELSE outcome' = Panic("borrow") /\ UNCHANGED <<borrow, guards>>
  /\ IterKeep

MIterDrop(it) ==
  /\ it \in DOMAIN iters
  /\ call' = C("miter_drop", 0, <<0, 0>>, 0, <<it>>, <<>>)
  /\ outcome' = Unit
  /\ iters' = Del(iters, {it})
  /\ IterKeep /\ UNCHANGED <<borrow, guards>>

\* ===========================================================================
\* Property predicates
\* ===========================================================================
GuardsOn(id, kind) == {g \in DOMAIN guards : GId(g) = id /\ guards[g].kind = kind}

\* C08, state part: shared xor exclusive; the counters ARE the live guards
P_C08 ==
  \A id \in Ids :
    /\ ~(borrow[id].w /\ borrow[id].r > 0)
    /\ borrow[id].r = Cardinality(GuardsOn(id, "r"))
    /\ borrow[id].w = (GuardsOn(id, "w") # {})
    /\ Cardinality(GuardsOn(id, "w")) <= 1
    /\ (store[id] = Absent => borrow[id] = Free)

\* C09, state part: the value under an id has the id's type; idents are accounted
\* for exactly once (stored | dropped | returned)
Stored == {store[id].ident : id \in {i \in Ids : store[i] # Absent}}
P_C09 ==
  /\ \A id \in Ids : store[id] # Absent => store[id].type = id[1]
  /\ \A a, b \in Ids : (a # b /\ store[a] # Absent /\ store[b] # Absent) => store[a].ident # store[b].ident
  /\ Stored \cap dropped = {} /\ Stored \cap returned = {} /\ dropped \cap returned = {}
  /\ Stored \cup dropped \cup returned = 1 .. (nextIdent - 1)

\* ---- action-level outcome rules (formulated independently of the actions) -----
FetchOps == {"fetch", "try_fetch", "fetch_mut", "try_fetch_mut", "try_fetch_by_id", "try_fetch_mut_by_id"}
TryOps   == FetchOps \ {"fetch", "fetch_mut"}
IdOps    == {"insert_by_id", "remove_by_id", "try_fetch_by_id", "try_fetch_mut_by_id"}
ModeOf(op) == IF op \in {"fetch", "try_fetch", "try_fetch_by_id"} THEN "r" ELSE "w"
WorldSame == UNCHANGED <<store, borrow, guards>>

\* C08: panic(borrow) iff the requested mode is incompatible with the cell; none only
\* when absent; a granted guard acquires exactly that borrow; a refused one changes
\* nothing; drop releases exactly that borrow; nothing else touches the borrow table.
R_C08 ==
  LET c == call'  id == <<c.ty, c.dy>>  o == outcome' IN
  /\ c.op \in FetchOps =>
       /\ (o = Panic("borrow")) <=> (c.targ = c.ty /\ store[id] # Absent /\ ~Compat(borrow[id], ModeOf(c.op)))
       /\ (o.k = "none") => (c.op \in TryOps /\ store[id] = Absent)
       /\ (o.k = "guard") =>
            /\ borrow' = [borrow EXCEPT ![id] = Acq(@, ModeOf(c.op))]
            /\ DOMAIN guards' = DOMAIN guards \cup {c.gs[1]} /\ c.gs[1] \notin DOMAIN guards
            /\ \A g \in DOMAIN guards : guards'[g] = guards[g]
       /\ (o.k # "guard") => WorldSame
  /\ c.op = "drop" =>
       /\ borrow' = [borrow EXCEPT ![id] = Rel(@, guards[c.gs[1]].kind)]
       /\ guards' = Del(guards, {c.gs[1]})
  /\ c.op = "clone" => (o.k = "guard" /\ borrow' = [borrow EXCEPT ![id].r = @ + 1])
  /\ c.op = "unwind" => (guards' = Del(guards, SeqToSet(c.gs)) /\ \A i \in Ids : ~borrow'[i].w \/ borrow[i].w)
  /\ c.op \in {"system_data", "meta_iter", "meta_iter_mut"} =>
       /\ (o.k = "panic") => WorldSame
       /\ (o.k = "guards") => \A i \in Ids : /\ (borrow[i].w => borrow'[i] = borrow[i])
                                             /\ ((borrow'[i].w /\ ~borrow[i].w) => borrow[i].r = 0)
                                             /\ borrow'[i].r >= borrow[i].r
  /\ c.op \notin FetchOps \cup {"drop", "clone", "unwind", "system_data", "meta_iter", "meta_iter_mut"}
       => UNCHANGED <<borrow, guards>>

\* C09: results agree with the map; a mismatching type argument panics before
\* anything else and changes nothing; insert replaces, remove returns the stored
\* value, entry never overwrites, other slots are untouched.
R_C09 ==
  LET c == call'  id == <<c.ty, c.dy>>  o == outcome'
      Others == \A i \in Ids \ {id} : store'[i] = store[i] IN
  /\ (c.op \in IdOps /\ c.targ # c.ty) => (o = Panic("type") /\ WorldSame /\ returned' = returned)
  /\ (c.op \in FetchOps /\ c.targ = c.ty) =>
       /\ (o.k = "none" \/ o = Panic("absent")) <=> store[id] = Absent
       /\ (o.k = "guard") => o.vs = <<store[id]>>
       /\ store' = store
  /\ (c.op \in {"insert", "insert_by_id"} /\ c.targ = c.ty) =>
       /\ o = Unit /\ Others /\ store'[id] = [type |-> c.ty, payload |-> c.p, ident |-> nextIdent]
       /\ (store[id] # Absent => store[id].ident \in dropped')
  /\ (c.op \in {"remove", "remove_by_id"} /\ c.targ = c.ty) =>
       /\ Others /\ store'[id] = Absent
       /\ IF store[id] = Absent THEN o = None ELSE (o = Out("some", "", <<store[id]>>) /\ store[id].ident \in returned')
  /\ c.op \in {"or_insert", "or_insert_with"} =>
       /\ Others /\ o.k = "guard" /\ o.vs = <<store'[id]>>
       /\ (store[id] # Absent => store'[id] = store[id])
       /\ (store[id] = Absent => store'[id] = [type |-> c.ty, payload |-> c.p, ident |-> nextIdent])
  /\ c.op \in {"has_value", "has_value_raw"} => (o = Bool(store[id] # Absent) /\ store' = store)
  /\ c.op \in {"get_mut", "get_mut_raw"} =>
       /\ Others /\ (IF store[id] = Absent THEN o = None /\ store' = store ELSE o = Out("some", "", <<store[id]>>))
  /\ c.op = "setup" =>
       \A i \in Ids : IF store[i] # Absent THEN store'[i] = store[i]
                      ELSE store'[i] # Absent =>
                             (i[2] = 0 /\ store'[i].type = i[1] /\ store'[i].payload = 0
                              /\ \E k \in DOMAIN c.shape : c.shape[k].t = i[1] /\ c.shape[k].k \in {"read", "write"})
  /\ c.op \in {"clone", "drop", "unwind", "system_data", "meta_iter", "meta_iter_mut"} => store' = store
  /\ dropped \subseteq dropped' /\ returned \subseteq returned' /\ nextIdent' >= nextIdent

RECURSIVE Sorted(_)
Sorted(S) == IF S = {} THEN <<>>
             ELSE LET m == CHOOSE x \in S : \A y \in S : x <= y IN <<m>> \o Sorted(S \ {m})

\* ---- projection of the abstract state onto what the harness observes --------------
\* cells in canonical order (type-major), guards sorted by id, destructor counts
Class(b) == IF b.w THEN "excl" ELSE IF b.r > 0 THEN "shared" ELSE "free"
\* (Types = 1..NT and Dyns = 0..ND-1 in every configuration: ASSUME below)
NIds    == Cardinality(Types) * Cardinality(Dyns)
IdAt(k) == <<((k - 1) \div Cardinality(Dyns)) + 1, (k - 1) % Cardinality(Dyns)>>
ASSUME Types = 1 .. Cardinality(Types) /\ Dyns = 0 .. (Cardinality(Dyns) - 1)
ProjCell(st, br, id) ==
  [ty |-> id[1], dy |-> id[2], here |-> st[id] # Absent, tid |-> st[id].type,
   payload |-> st[id].payload, ident |-> st[id].ident, b |-> Class(br[id])]
CellsOf(st, br) == [k \in 1 .. NIds |-> ProjCell(st, br, IdAt(k))]
GuardObsOf(st, gd) ==
  LET gs == Sorted(DOMAIN gd) IN
  [i \in DOMAIN gs |-> [g |-> gs[i], ty |-> gd[gs[i]].ty, dy |-> gd[gs[i]].dy, kind |-> gd[gs[i]].kind,
                        payload |-> st[<<gd[gs[i]].ty, gd[gs[i]].dy>>].payload,
                        ident |-> st[<<gd[gs[i]].ty, gd[gs[i]].dy>>].ident]]
DropsOf(n, D) == [i \in 1 .. (n - 1) |-> IF i \in D THEN 1 ELSE 0]
Cells == CellsOf(store, borrow)
GuardObs == GuardObsOf(store, guards)
Drops == DropsOf(nextIdent, dropped \cup returned)

=============================================================================
