-------------------------------- MODULE Meta --------------------------------
(***************************************************************************)
(* shred::MetaTable<dyn Tr> together with the World cells it looks into    *)
(* (property C17).                                                         *)
(*                                                                         *)
(* Implementation-shaped part: the three parallel tables of the non-nightly*)
(* MetaTable (`tys`, `vtable_fns` -- here `vt[i]` = the concrete type whose *)
(* `attach_vtable::<Tr, R>` is stored at position i -- and `indices`), one  *)
(* action per public call with its outcome  some(tag, obj) | none |        *)
(* panic_cast | panic_borrow  as part of the action.                       *)
(*                                                                         *)
(* Property part (P_C17): GetOK / NextOK / TableOK are written against the *)
(* HISTORY variable `first` (types in order of first registration) and the *)
(* list of types an iterator has yielded, never against the tables.        *)
(*                                                                         *)
(* A `next` that panics (conflicting borrow, bad cast) has already moved   *)
(* past the entry it panicked on (the code advances its index BEFORE it    *)
(* borrows): the SAME iterator, pulled again after the panic was caught,   *)
(* continues with the following registered entries, each with its own tag, *)
(* address and methods.  `y` therefore lists the types the iterator has    *)
(* PASSED (yielded or panicked on).                                        *)
(* Deliberate deviation: the table and the world are only mutated while no *)
(* iterator / guard is alive -- the Rust borrow checker enforces that.     *)
(***************************************************************************)
EXTENDS Naturals, Sequences, FiniteSets

CONSTANTS NT,      \* implementing types are 1..NT (different sizes in the harness)
          Bad,     \* types whose CastFrom implementation changes the address
          Dyn1,    \* types that may also be stored under dynamic id 1 (invisible to iteration)
          MaxG,    \* guard ids are 1..MaxG
          MaxI,    \* iterator ids are 1..MaxI
          Hist     \* BOOLEAN: record the history of calls (replay generation)

Types == 1..NT
Loose == 2          \* pseudo dynamic id of the object of a type that lives outside any world
Cells == {<<t, 0>> : t \in Types} \cup {<<t, 1>> : t \in Dyn1}

Range(s) == {s[i] : i \in DOMAIN s}
Min(S) == CHOOSE m \in S : \A x \in S : m <= x
Ext(f, k, v) == [x \in DOMAIN f \cup {k} |-> IF x = k THEN v ELSE f[x]]
Rem(f, k) == [x \in DOMAIN f \ {k} |-> f[x]]
Free(f, max) == IF \E i \in 1..max : i \notin DOMAIN f THEN Min({i \in 1..max : i \notin DOMAIN f}) ELSE 0

\* ---- outcomes ---------------------------------------------------------------
NoObj == <<0, 0>>
Out(o, tag, obj) == [o |-> o, tag |-> tag, obj |-> obj]
None == Out("none", 0, NoObj)
Okay == Out("ok", 0, NoObj)

\* ---- the table (MetaTable fields) ------------------------------------------
EmptyTab == [tys |-> <<>>, vt |-> <<>>, idx |-> <<>>]

\* MetaTable::register::<R>()   (src/meta.rs l.367-390)
RegisterEff(tab, T) ==
  IF T \in DOMAIN tab.idx
  THEN [tab EXCEPT !.vt = [@ EXCEPT ![tab.idx[T]] = T]]              \* Entry::Occupied: overwrite the function
  ELSE LET len == Cardinality(DOMAIN tab.idx) IN                      \* `let len = self.indices.len()`
       [tys |-> Append(tab.tys, T), vt |-> Append(tab.vt, T), idx |-> Ext(tab.idx, T, len + 1)]

\* MetaTable::get / get_mut (l.433-485): look the dynamic type up, re-attach
\* the stored vtable to the SAME address; attach_vtable asserts the address.
GetOut(tab, c) ==
  LET T == c[1] IN
  IF T \notin DOMAIN tab.idx THEN None
  ELSE LET v == tab.vt[tab.idx[T]] IN
       IF v \in Bad THEN Out("panic_cast", 0, NoObj) ELSE Out("some", v, c)

\* ---- borrows ----------------------------------------------------------------
NR(gs, c) == Cardinality({g \in DOMAIN gs : gs[g].t = c[1] /\ gs[g].d = c[2] /\ gs[g].k = "r"})
HasW(gs, c) == \E g \in DOMAIN gs : gs[g].t = c[1] /\ gs[g].d = c[2] /\ gs[g].k = "w"
CanBorrow(gs, c, k) == IF k = "r" THEN ~HasW(gs, c) ELSE ~HasW(gs, c) /\ NR(gs, c) = 0
BState(pr, gs, c) == IF c \notin pr THEN "-" ELSE IF HasW(gs, c) THEN "w" ELSE IF NR(gs, c) > 0 THEN "r" ELSE "0"
\* borrow table as the harness probes it: index 2(t-1)+d+1
View(pr, gs) == [i \in 1..(2 * NT) |-> BState(pr, gs, <<((i - 1) \div 2) + 1, (i - 1) % 2>>)]

\* ---- MetaIter::next / MetaIterMut::next (l.68-105, 162-202) -----------------
NextPos(tab, pr, pos) ==
  LET cand == {i \in pos..Len(tab.tys) : <<tab.tys[i], 0>> \in pr} IN
  IF cand = {} THEN 0 ELSE Min(cand)
NextOut(tab, pr, gs, it) ==
  LET i == NextPos(tab, pr, it.pos) IN
  IF i = 0 THEN None
  ELSE LET c == <<tab.tys[i], 0>> IN
       IF ~CanBorrow(gs, c, it.k) THEN Out("panic_borrow", 0, c)      \* res.borrow() / borrow_mut() panics
       ELSE IF tab.vt[i] \in Bad THEN Out("panic_cast", 0, c)          \* assertion in attach_vtable
       ELSE Out("some", tab.vt[i], c)

\* ---- consuming an iterator through the std adapters --------------------------------
\* nth / skip / step_by / take / last / count only ever call `next` (Iterator's provided
\* methods): what they hand out is a sub-sequence of what plain iteration yields.  A PLAN says,
\* for every successive `next`, whether its item is handed out (TRUE) or dropped at once (FALSE).
PlanOf(how, n, m) ==
  CASE how = "nth"  -> [i \in 1..(n + 1) |-> i = n + 1]                     \* it.nth(n)
    [] how = "skip" -> [i \in 1..(n + m) |-> i > n]                         \* it.by_ref().skip(n).take(m)
    [] how = "step" -> [i \in 1..(1 + (m - 1) * n) |-> (i - 1) % n = 0]     \* it.by_ref().step_by(n).take(m)
    [] how = "take" -> [i \in 1..m |-> TRUE]                                \* it.by_ref().take(m)
    [] OTHER        -> [i \in 1..(NT + 1) |-> TRUE]                         \* last(), count(): pull everything
\* successive nexts along `plan`; stops at the first `none` or panic.  The guards of items that are
\* handed out cannot matter to later nexts of the same iterator (every cell is visited once).
RECURSIVE Walk(_, _, _, _, _, _)
Walk(tb, pr, gs, it, plan, acc) ==
  IF plan = <<>> THEN [items |-> acc, end |-> "done", it |-> it]
  ELSE LET out == NextOut(tb, pr, gs, it)
           i == NextPos(tb, pr, it.pos)
           it2 == IF out.o = "none" THEN [it EXCEPT !.pos = Len(tb.tys) + 1]
                  ELSE [k |-> it.k, pos |-> i + 1, y |-> Append(it.y, out.obj[1])]
       IN IF out.o = "some"
          THEN Walk(tb, pr, gs, it2, Tail(plan), IF Head(plan) THEN Append(acc, out) ELSE acc)
          ELSE [items |-> acc, end |-> out.o, it |-> it2]
\* what the caller holds afterwards: last() keeps only the final item, count() none; when a panic
\* ends last()/count() everything pulled so far is dropped by the unwinding
Kept(how, w) ==
  IF how = "count" THEN <<>>
  ELSE IF how = "last" THEN (IF w.end = "none" /\ w.items # <<>> THEN <<w.items[Len(w.items)]>> ELSE <<>>)
  ELSE w.items
\* the table as the PROPERTY sees it: first-registration order, every type with its own vtable
DeclTab(fst) == [tys |-> fst, vt |-> fst, idx |-> <<>>]
\* P_C17 for adapters: the answer is the sub-sequence of plain iteration selected by the plan
WalkOK(fst, pr, gs, it, how, n, m, items, end) ==
  LET w == Walk(DeclTab(fst), pr, gs, it, PlanOf(how, n, m), <<>>) IN
  /\ end = w.end
  /\ items = Kept(how, w)
\* size_hint: lower <= number of entries still to come <= upper (if an upper bound is given)
Remaining(fst, pr, it) == Cardinality({i \in it.pos..Len(fst) : <<fst[i], 0>> \in pr})
HintOK(fst, pr, it, lo, hi, hasHi) == lo <= Remaining(fst, pr, it) /\ (hasHi => Remaining(fst, pr, it) <= hi)
RECURSIVE FreeIds(_, _, _)
FreeIds(f, max, n) == IF n = 0 THEN <<>> ELSE LET g == Free(f, max) IN <<g>> \o FreeIds(Ext(f, g, 0), max, n - 1)
NFree(f, max) == Cardinality({i \in 1..max : i \notin DOMAIN f})

\* ---- P_C17: the property, on history only -----------------------------------
\* get / get_mut: Some exactly for registered types, the very same object, methods of its own type
GetOK(fst, c, out) ==
  LET T == c[1]  reg == Range(fst) IN
  /\ (out.o = "none") <=> (T \notin reg)
  /\ (T \in reg /\ T \notin Bad) => out = Out("some", T, c)
  /\ (T \in reg /\ T \in Bad) => out.o = "panic_cast"
\* what a complete iteration has to yield: first-registration order, once each, present (dynamic id 0) only
Expected(fst, pr) == SelectSeq(fst, LAMBDA t : <<t, 0>> \in pr)
NextOK(fst, pr, gs, it, out) ==
  LET exp == Expected(fst, pr)  n == Len(it.y) + 1 IN
  IF n > Len(exp) THEN out.o = "none"
  ELSE LET c == <<exp[n], 0>> IN
       IF ~CanBorrow(gs, c, it.k) THEN out.o = "panic_borrow"
       ELSE IF exp[n] \in Bad THEN out.o = "panic_cast"
       ELSE out = Out("some", exp[n], c)
\* the parallel tables stay aligned and duplicate-free
TableOK(fst, tab) ==
  /\ tab.tys = fst /\ tab.vt = fst
  /\ DOMAIN tab.idx = Range(fst)
  /\ \A i \in DOMAIN fst : tab.idx[fst[i]] = i
  /\ \A i, j \in DOMAIN fst : i # j => fst[i] # fst[j]

\* ---- state ------------------------------------------------------------------
VARIABLES
  tab,      \* the MetaTable
  present,  \* world cells <<t, d>> holding a value
  guards,   \* [guard id -> [t, d, k, src]]  live borrows; src \in {"fetch", "item"}
  iters,    \* [iterator id -> [k, pos, y]]   kind, next position, types passed so far (history)
  first,    \* history: types in order of first registration
  ok,       \* the outcome of the last call satisfied the property predicate
  hist      \* history of calls with outcomes and the borrow table after the call

vars == <<tab, present, guards, iters, first, ok, hist>>

Init ==
  /\ tab = EmptyTab /\ present = {} /\ guards = <<>> /\ iters = <<>> /\ first = <<>>
  /\ ok = TRUE /\ hist = <<>>

Call(op, t, d, k, h, g, out, pr, gs) ==
  [op |-> op, t |-> t, d |-> d, k |-> k, h |-> h, g |-> g, out |-> out, b |-> View(pr, gs)]
Log(e) == hist' = IF Hist THEN Append(hist, e) ELSE hist

Quiet == DOMAIN guards = {} /\ DOMAIN iters = {}

Register(T) ==
  /\ DOMAIN iters = {}                                   \* needs &mut MetaTable
  /\ tab' = RegisterEff(tab, T)
  /\ first' = IF T \in Range(first) THEN first ELSE Append(first, T)
  /\ ok' = TableOK(first', tab')
  /\ Log(Call("reg", T, 0, "", 0, 0, Okay, present, guards))
  /\ UNCHANGED <<present, guards, iters>>

Insert(c) ==
  /\ Quiet /\ c \in Cells                                \* needs &mut World
  /\ present' = present \cup {c}
  /\ ok' = TRUE
  /\ Log(Call("ins", c[1], c[2], "", 0, 0, Okay, present', guards))
  /\ UNCHANGED <<tab, guards, iters, first>>

Remove(c) ==
  /\ Quiet /\ c \in present
  /\ present' = present \ {c}
  /\ ok' = TRUE
  /\ Log(Call("rem", c[1], c[2], "", 0, 0, Okay, present', guards))
  /\ UNCHANGED <<tab, guards, iters, first>>

\* World::try_fetch_by_id / try_fetch_mut_by_id by the harness ("other fetches")
Fetch(c, k) ==
  /\ c \in Cells /\ Free(guards, MaxG) # 0
  /\ LET g == Free(guards, MaxG)
         o == IF c \notin present THEN "none" ELSE IF CanBorrow(guards, c, k) THEN "ok" ELSE "panic_borrow"
     IN /\ guards' = IF o = "ok" THEN Ext(guards, g, [t |-> c[1], d |-> c[2], k |-> k, src |-> "fetch"]) ELSE guards
        /\ Log(Call("fetch", c[1], c[2], k, 0, IF o = "ok" THEN g ELSE 0, Out(o, 0, NoObj), present, guards'))
  /\ ok' = TRUE
  /\ UNCHANGED <<tab, present, iters, first>>

Drop(g) ==
  /\ g \in DOMAIN guards
  /\ guards' = Rem(guards, g)
  /\ ok' = TRUE
  /\ Log(Call("drop", 0, 0, "", 0, g, Okay, present, guards'))
  /\ UNCHANGED <<tab, present, iters, first>>

\* table.get(&*guard) / table.get_mut(&mut *guard) on a typed guard of the harness
GetVia(g, mut) ==
  /\ g \in DOMAIN guards /\ guards[g].src = "fetch" /\ (mut => guards[g].k = "w")
  /\ LET c == <<guards[g].t, guards[g].d>>  out == GetOut(tab, c) IN
     /\ ok' = GetOK(first, c, out)
     /\ Log(Call(IF mut THEN "getmut" ELSE "get", c[1], c[2], "", 0, g, out, present, guards))
  /\ UNCHANGED <<tab, present, guards, iters, first>>

\* the same on an object that lives outside the world
GetLoose(T, mut) ==
  /\ T \in Types
  /\ LET c == <<T, Loose>>  out == GetOut(tab, c) IN
     /\ ok' = GetOK(first, c, out)
     /\ Log(Call(IF mut THEN "getmut" ELSE "get", T, Loose, "", 0, 0, out, present, guards))
  /\ UNCHANGED <<tab, present, guards, iters, first>>

IterNew(k) ==
  /\ Free(iters, MaxI) # 0
  /\ LET h == Free(iters, MaxI) IN
     /\ iters' = Ext(iters, h, [k |-> k, pos |-> 1, y |-> <<>>])
     /\ Log(Call("iter", 0, 0, k, h, 0, Okay, present, guards))
  /\ ok' = TRUE
  /\ UNCHANGED <<tab, present, guards, first>>

IterNext(h) ==
  /\ h \in DOMAIN iters /\ Free(guards, MaxG) # 0
  /\ LET it == iters[h]
         out == NextOut(tab, present, guards, it)
         g == Free(guards, MaxG)
     IN /\ ok' = NextOK(first, present, guards, it, out)
        /\ guards' = IF out.o = "some"
                     THEN Ext(guards, g, [t |-> out.obj[1], d |-> 0, k |-> it.k, src |-> "item"])
                     ELSE guards
        \* some / panic_borrow / panic_cast: `self.index += 1` happened before the borrow and the
        \* cast, so the entry is passed in all three cases and the iterator stays usable
        /\ iters' = IF out.o = "none" THEN [iters EXCEPT ![h].pos = Len(tab.tys) + 1]
                    ELSE [iters EXCEPT ![h] = [k |-> it.k, pos |-> NextPos(tab, present, it.pos) + 1,
                                               y |-> Append(it.y, out.obj[1])]]
        /\ Log(Call("next", 0, 0, it.k, h, IF out.o = "some" THEN g ELSE 0, out, present, guards'))
  /\ UNCHANGED <<tab, present, first>>

\* the iterator consumed through an adapter (see PlanOf); items handed out stay alive as guards
IterWalk(h, how, n, m) ==
  /\ h \in DOMAIN iters
  /\ NFree(guards, MaxG) >= (IF how \in {"nth", "last"} THEN 1 ELSE IF how = "count" THEN 0 ELSE m)
  /\ LET it == iters[h]
         w == Walk(tab, present, guards, it, PlanOf(how, n, m), <<>>)
         kept == Kept(how, w)
         ids == FreeIds(guards, MaxG, Len(kept))
         gs2 == [g \in DOMAIN guards \cup Range(ids) |->
                   IF g \in DOMAIN guards THEN guards[g]
                   ELSE LET j == CHOOSE j \in DOMAIN ids : ids[j] = g IN
                        [t |-> kept[j].obj[1], d |-> 0, k |-> it.k, src |-> "item"]]
     IN /\ ok' = WalkOK(first, present, guards, it, how, n, m, kept, w.end)
        /\ guards' = gs2
        /\ iters' = [iters EXCEPT ![h] = w.it]
        /\ Log([op |-> "walk", how |-> how, n |-> n, m |-> m, k |-> it.k, h |-> h, ids |-> ids, items |-> kept,
                 end |-> w.end, cnt |-> Len(w.items), b |-> View(present, gs2)])
  /\ UNCHANGED <<tab, present, first>>

IterDrop(h) ==
  /\ h \in DOMAIN iters
  /\ iters' = Rem(iters, h)
  /\ ok' = TRUE
  /\ Log(Call("idrop", 0, 0, "", h, 0, Okay, present, guards))
  /\ UNCHANGED <<tab, present, guards, first>>

Next ==
  \/ \E T \in Types : Register(T)
  \/ \E c \in Cells : Insert(c) \/ Remove(c)
  \/ \E c \in Cells, k \in {"r", "w"} : Fetch(c, k)
  \/ \E g \in 1..MaxG : Drop(g) \/ GetVia(g, FALSE) \/ GetVia(g, TRUE)
  \/ \E T \in Types, m \in BOOLEAN : GetLoose(T, m)
  \/ \E k \in {"r", "w"} : IterNew(k)
  \/ \E h \in 1..MaxI : IterNext(h) \/ IterDrop(h)
  \/ \E h \in 1..MaxI, n \in 0..2 : IterWalk(h, "nth", n, 1)
  \/ \E h \in 1..MaxI, n \in 0..2, m \in 1..2 : IterWalk(h, "skip", n, m)
  \/ \E h \in 1..MaxI, n \in 1..2 : IterWalk(h, "step", n, 2)
  \/ \E h \in 1..MaxI : IterWalk(h, "take", 0, 2) \/ IterWalk(h, "last", 0, 0) \/ IterWalk(h, "count", 0, 0)

MetaSpec == Init /\ [][Next]_vars

\* ---- invariants -------------------------------------------------------------
InvC17 == ok                                   \* every outcome satisfied P_C17
InvC17Table == TableOK(first, tab)
\* shared xor exclusive, guards only on present cells, items only on registered present types
InvC17Borrow ==
  /\ \A c \in Cells : ~(HasW(guards, c) /\ NR(guards, c) > 0)
  /\ \A c \in Cells : HasW(guards, c) =>
        Cardinality({g \in DOMAIN guards : guards[g].t = c[1] /\ guards[g].d = c[2]}) = 1
  /\ \A g \in DOMAIN guards : <<guards[g].t, guards[g].d>> \in present
  /\ \A g \in DOMAIN guards : guards[g].src = "item" => guards[g].t \in Range(first) /\ guards[g].d = 0
\* an iterator never yields a type twice, and yields in first-registration order
InvC17Iter ==
  \A h \in DOMAIN iters :
    LET y == iters[h].y IN
    /\ \A i, j \in DOMAIN y : i < j =>
          \E a, b \in DOMAIN first : a < b /\ first[a] = y[i] /\ first[b] = y[j]
=============================================================================
