SPECIFICATION Spec
CONSTANTS
  N = 3
  Res = {1,2}
  Times = {1,3}
  MaxDeps = 2
  Cap = 5
  FixPre = TRUE
  Rejects = FALSE
  MaxTL = 0
  Unnamed = FALSE
CHECK_DEADLOCK FALSE
INVARIANTS
  InvC01
  InvC02
  InvC03
  InvC04
  InvC10
  InvC10Cor
  InvCap
  InvBook
  InvEpoch
  InvNames
