------------------------------ MODULE Planner ------------------------------
(***************************************************************************)
(* The planner of shred: how DispatcherBuilder packs systems into stages   *)
(* and groups.  Implementation-shaped: one action per public builder call, *)
(* the bookkeeping tables of StagesBuilder as separate variables, the      *)
(* pending-dependency list a SEQUENCE with first-occurrence removal.       *)
(*                                                                         *)
(*   src/dispatch/stage.rs    insert, insertion_target, find_conflict,     *)
(*                            remove_ids, improves_balance, add_barrier    *)
(*   src/dispatch/builder.rs  add (name map, the two panics), add_barrier, *)
(*                            add_thread_local                             *)
(*                                                                         *)
(* A batch is, for the planner, an ordinary system whose access is the     *)
(* union of its controller's and of everything inside (builder.rs          *)
(* add_batch); that union is computed by the trace specification           *)
(* (PlannerTrace) from the inner builder's registrations.                  *)
(***************************************************************************)
EXTENDS PlanProps, TLC

CONSTANTS
  N,          \* max number of add calls that succeed
  Res,        \* resources
  Times,      \* running-time hints (subset of 1..5)
  MaxDeps,    \* max length of a dependency list
  Cap,        \* MAX_SYSTEMS_PER_GROUP
  FixPre,     \* TRUE: pending list is dedup'd and cleared of pre-barrier ids
              \*       before scanning (the repaired algorithm);
              \* FALSE: the algorithm as pinned (violates C10)
  Rejects,    \* TRUE: also explore the two ill-formed calls
  MaxTL,      \* max thread-local registrations
  Unnamed     \* TRUE: also explore systems registered under the empty name

VARIABLES
  ids,      \* stage -> group -> seq of system ids      (StagesBuilder.ids / .stages)
  gr, gw,   \* stage -> group -> set of resources       (StagesBuilder.reads / .writes)
  gt,       \* stage -> group -> sum of running times   (StagesBuilder.running_time)
  barrier,  \* number of stages closed by the last barrier (StagesBuilder.barrier)
  regs,     \* registration history, see PlanProps
  epoch,    \* number of effective barriers so far
  since,    \* TRUE iff a system was registered since the last barrier
  names,    \* name token -> system id   (DispatcherBuilder.map); token 0 = ""
  tl,       \* number of thread-local systems registered
  outcome   \* result of the last builder call

vars == <<ids, gr, gw, gt, barrier, regs, epoch, since, names, tl, outcome>>

Abs(x, y) == IF x >= y THEN x - y ELSE y - x

\* ---- remove_ids: strike the FIRST occurrence of every id of the stage ------
RECURSIVE RemoveFirst(_, _)
RemoveFirst(seq, x) ==
  IF seq = <<>> THEN <<>>
  ELSE IF Head(seq) = x THEN Tail(seq)
  ELSE <<Head(seq)>> \o RemoveFirst(Tail(seq), x)
RECURSIVE RemoveAll(_, _)
RemoveAll(pend, S) ==
  IF S = {} THEN pend
  ELSE LET x == CHOOSE x \in S : TRUE IN RemoveAll(RemoveFirst(pend, x), S \ {x})

\* ---- find_conflict ----------------------------------------------------------
FindConflict(st, R, W, pend) ==
  LET G == DOMAIN ids[st]
      inters(g) == (W \cap (gw[st][g] \cup gr[st][g]) # {}) \/ (R \cap gw[st][g] # {})
      depin(g) == ~inters(g) /\ (Range(pend) \cap Range(ids[st][g]) # {})
      C == {g \in G : inters(g) \/ depin(g)}
      depc == \E g \in G : depin(g)
  IN IF (depc /\ Len(pend) > 1) \/ (~depc /\ Len(pend) > 0) THEN <<"multi", 0>>
     ELSE IF C = {} THEN <<"none", 0>>
     ELSE IF Cardinality(C) = 1 THEN <<"single", CHOOSE g \in C : TRUE>>
     ELSE <<"multi", 0>>

\* ---- improves_balance --------------------------------------------------------
Improves(st, g, t) ==
  LET mx == MaxOf({gt[st][h] : h \in DOMAIN gt[st]})
      old == gt[st][g]
  IN Abs(mx, old + t) < Abs(mx, old)

\* ---- insertion_target: lazy scan of stages barrier+1 .. Len ----------------
RECURSIVE Scan(_, _, _, _, _)
Scan(st, R, W, pend, t) ==
  IF st > Len(ids) THEN <<"newstage", 0, 0>>
  ELSE LET c == FindConflict(st, R, W, pend)
           pend2 == RemoveAll(pend, InStage(ids, st))
       IN IF c[1] = "none" THEN <<"stage", st, 0>>
          ELSE IF /\ c[1] = "single"
                  /\ Len(ids[st][c[2]]) < Cap - 1
                  /\ Improves(st, c[2], t)
               THEN <<"group", st, c[2]>>
          ELSE Scan(st + 1, R, W, pend2, t)

PreBarrierIds == UNION {InStage(ids, st) : st \in 1..barrier}
RECURSIVE Dedup(_)
Dedup(s) == IF s = <<>> THEN <<>>
            ELSE IF Head(s) \in Range(Tail(s)) THEN Dedup(Tail(s))
            ELSE <<Head(s)>> \o Dedup(Tail(s))
Prep(deps) == IF FixPre THEN SelectSeq(Dedup(deps), LAMBDA d : d \notin PreBarrierIds)
              ELSE deps

\* where a well-formed registration goes: <<kind, stage, group>>
Target(R, W, deps, t) == Scan(barrier + 1, R, W, Prep(deps), t)

\* ---- DispatcherBuilder::add / add_batch --------------------------------------
\* depToks: sequence of name tokens;  nameTok: 0 (= "") or a token
Add(R, W, depToks, t, nameTok) ==
  LET unknown == {i \in DOMAIN depToks : depToks[i] \notin DOMAIN names} IN
  IF unknown # {} THEN
     \* panic!("No such system registered") for the FIRST unknown name
     /\ outcome' = <<"unknown", depToks[CHOOSE i \in unknown : \A j \in unknown : i <= j]>>
     /\ UNCHANGED <<ids, gr, gw, gt, barrier, regs, epoch, since, names, tl>>
  ELSE IF nameTok # 0 /\ nameTok \in DOMAIN names THEN
     /\ outcome' = <<"dup", nameTok>>
     /\ UNCHANGED <<ids, gr, gw, gt, barrier, regs, epoch, since, names, tl>>
  ELSE
     LET id == Len(regs) + 1
         deps == [i \in DOMAIN depToks |-> names[depToks[i]]]
         tg == Target(R, W, deps, t)
     IN /\ outcome' = <<"ok", 0>>
        /\ regs' = Append(regs, [r |-> R, w |-> W, d |-> deps, t |-> t, e |-> epoch, nm |-> nameTok])
        /\ names' = IF nameTok = 0 THEN names ELSE (nameTok :> id) @@ names
        /\ since' = TRUE
        /\ UNCHANGED <<barrier, epoch, tl>>
        /\ IF tg[1] = "newstage" THEN
              /\ ids' = Append(ids, << <<id>> >>)
              /\ gr' = Append(gr, <<R>>) /\ gw' = Append(gw, <<W>>) /\ gt' = Append(gt, <<t>>)
           ELSE IF tg[1] = "stage" THEN
              LET st == tg[2] IN
              /\ ids' = [ids EXCEPT ![st] = Append(@, <<id>>)]
              /\ gr' = [gr EXCEPT ![st] = Append(@, R)]
              /\ gw' = [gw EXCEPT ![st] = Append(@, W)]
              /\ gt' = [gt EXCEPT ![st] = Append(@, t)]
           ELSE
              LET st == tg[2]  g == tg[3] IN
              /\ ids' = [ids EXCEPT ![st][g] = Append(@, id)]
              /\ gr' = [gr EXCEPT ![st][g] = @ \cup R]
              /\ gw' = [gw EXCEPT ![st][g] = @ \cup W]
              /\ gt' = [gt EXCEPT ![st][g] = @ + t]

\* ---- add_barrier --------------------------------------------------------------
AddBarrier ==
  /\ barrier' = Len(ids)
  /\ epoch' = IF since THEN epoch + 1 ELSE epoch
  /\ since' = FALSE
  /\ outcome' = <<"ok", 0>>
  /\ UNCHANGED <<ids, gr, gw, gt, regs, names, tl>>

\* ---- add_thread_local ---------------------------------------------------------
AddThreadLocal ==
  /\ tl' = tl + 1 /\ outcome' = <<"ok", 0>>
  /\ UNCHANGED <<ids, gr, gw, gt, barrier, regs, epoch, since, names>>

Init == /\ ids = <<>> /\ gr = <<>> /\ gw = <<>> /\ gt = <<>> /\ barrier = 0
        /\ regs = <<>> /\ epoch = 0 /\ since = FALSE /\ names = <<>> /\ tl = 0
        /\ outcome = <<"ok", 0>>

\* ---- parameter choices for model checking ---------------------------------------
\* Name tokens are 1..N; a well-formed call names system `id` either "" or token id,
\* and depends on tokens already bound.  Ill-formed calls (Rejects) use an unbound
\* token in the dependency list or re-use a bound token as name.
SeqsUpTo(S, k) == UNION {[1..n -> S] : n \in 0..k}
Canon(d) == \A i \in 1..(Len(d) - 1) : d[i] <= d[i + 1]   \* order of the list is immaterial
WellDeps == {d \in SeqsUpTo(DOMAIN names, MaxDeps) : Canon(d)}
IllDeps == {d \in SeqsUpTo(1..N, MaxDeps) : Canon(d) /\ \E i \in DOMAIN d : d[i] \notin DOMAIN names}
Next ==
  \/ /\ Len(regs) < N
     /\ \E R \in SUBSET Res, W \in SUBSET Res, t \in Times :
          /\ R \cap W = {}
          /\ \/ \E d \in WellDeps, nm \in (IF Unnamed THEN {0} ELSE {}) \cup {Len(regs) + 1} : Add(R, W, d, t, nm)
             \/ /\ Rejects
                /\ \/ \E d \in IllDeps : Add(R, W, d, t, Len(regs) + 1)
                   \/ \E nm \in DOMAIN names : Add(R, W, <<>>, t, nm)
  \/ /\ Len(regs) < N /\ AddBarrier
  \/ /\ tl < MaxTL /\ AddThreadLocal
Spec == Init /\ [][Next]_vars

\* ---- invariants ---------------------------------------------------------------
Pos == PosFun(ids)
Sys == 1..Len(regs)
InvC01 == C01Static(regs, ids, Pos)
InvC02 == C02Static(regs, ids, Pos)
InvC03 == C03Static(regs, ids, Pos)
InvC04 == C04Static(Sys, ids)
InvC10 == C10Static(regs, ids, Pos)
InvC10Cor == C10Corollary(regs, ids, Pos)
InvCap == CapOK(ids, Cap)
\* the bookkeeping tables move in lock-step with the executed list
InvBook == /\ Len(gr) = Len(ids) /\ Len(gw) = Len(ids) /\ Len(gt) = Len(ids)
           /\ \A st \in DOMAIN ids :
                /\ Len(gr[st]) = Len(ids[st]) /\ Len(gw[st]) = Len(ids[st]) /\ Len(gt[st]) = Len(ids[st])
                /\ \A g \in DOMAIN ids[st] :
                     /\ gr[st][g] = UNION {regs[s].r : s \in Range(ids[st][g])}
                     /\ gw[st][g] = UNION {regs[s].w : s \in Range(ids[st][g])}
                     /\ gt[st][g] = LET f[i \in 0..Len(ids[st][g])] ==
                                          IF i = 0 THEN 0 ELSE f[i - 1] + regs[ids[st][g][i]].t
                                    IN f[Len(ids[st][g])]
           /\ barrier <= Len(ids)
\* barrier bookkeeping agrees with the abstract notion of epoch
InvEpoch == /\ (since <=> barrier < Len(ids))
            /\ \A s \in Sys : regs[s].e < epoch => Pos[s][1] <= barrier
            /\ \A s \in Sys : regs[s].e = epoch => Pos[s][1] > barrier
\* names bound exactly to the named systems
InvNames == /\ \A k \in DOMAIN names : names[k] \in Sys /\ regs[names[k]].nm = k
            /\ \A s \in Sys : regs[s].nm # 0 => names[regs[s].nm] = s
\* C18 as an action property: the call panics iff it is ill-formed, and then changes nothing
C18Action == [][ /\ (outcome'[1] # "ok" => UNCHANGED <<ids, gr, gw, gt, barrier, regs, epoch, since, names, tl>>)
                 /\ (outcome'[1] = "unknown" => outcome'[2] \notin DOMAIN names)
                 /\ (outcome'[1] = "dup" => outcome'[2] \in DOMAIN names) ]_vars
=============================================================================
