----------------------------- MODULE MCParSeq -----------------------------
(* Model-checking wrapper for ParSeq: enumeration of trees (TLC-only),     *)
(* emission of behaviours for spec -> impl replay.                         *)
EXTENDS ParSeq, TLC, Json

CONSTANTS MaxLeaves,  \* trees with 1..MaxLeaves leaves
          MaxDepth,   \* at most MaxDepth nested par/seq nodes
          MinFan,     \* 1: unary nodes (par![a,]) allowed, 2: not
          MaxFan,
          AccSel      \* which set of leaf access declarations (cfg files cannot hold records)

A(r, w) == [r |-> r, w |-> w]
\* access sets a leaf may declare
AccOpts ==
  CASE AccSel = 0 -> {A(<<>>, <<>>)}
    [] AccSel = 1 -> {A(<<>>, <<>>), A(<<1>>, <<>>), A(<<>>, <<1>>)}
    [] AccSel = 2 -> {A(<<>>, <<>>), A(<<1>>, <<>>), A(<<>>, <<1>>), A(<<2>>, <<>>), A(<<>>, <<2>>),
                      A(<<1, 2>>, <<>>), A(<<>>, <<1, 2>>), A(<<1>>, <<2>>), A(<<2>>, <<1>>)}
    [] AccSel = 3 -> {A(<<>>, <<>>), A(<<1>>, <<>>), A(<<>>, <<1>>), A(<<2>>, <<1>>), A(<<1, 1>>, <<2>>)}

\* ---- all shapes, as nested records ------------------------------------------------
LeafS == [k |-> "leaf", c |-> <<>>]
RECURSIVE Shapes(_, _), Forests(_, _, _)
\* shapes with exactly n leaves and at most d nested inner nodes
Shapes(n, d) ==
  (IF n = 1 THEN {LeafS} ELSE {}) \cup
  (IF d = 0 THEN {} ELSE {[k |-> kd, c |-> f] : kd \in {"par", "seq"},
                                                 f \in {g \in Forests(n, d - 1, MaxFan) : Len(g) >= MinFan}})
\* non-empty sequences of at most m shapes with n leaves in total
Forests(n, d, m) ==
  IF m = 0 \/ n = 0 THEN {}
  ELSE {<<s>> : s \in Shapes(n, d)} \cup
       UNION {{<<s>> \o f : s \in Shapes(i, d), f \in Forests(n - i, d, m - 1)} : i \in 1..(n - 1)}

\* ---- flattening into the table of ParSeq (ids in preorder) -------------------------
RECURSIVE Flat(_, _), FlatKids(_, _)
FlatKids(cs, base) ==
  IF cs = <<>> THEN [tab |-> <<>>, ids |-> <<>>]
  ELSE LET h == Flat(Head(cs), base)
           t == FlatKids(Tail(cs), base + Len(h))
       IN [tab |-> h \o t.tab, ids |-> <<base>> \o t.ids]
Flat(s, base) ==
  IF s.k = "leaf" THEN << [kind |-> "leaf", kids |-> <<>>, r |-> <<>>, w |-> <<>>] >>
  ELSE LET f == FlatKids(s.c, base + 1)
       IN << [kind |-> s.k, kids |-> f.ids, r |-> <<>>, w |-> <<>>] >> \o f.tab

WithAcc(tab, a) == [n \in DOMAIN tab |-> IF tab[n].kind = "leaf"
                                          THEN [tab[n] EXCEPT !.r = a[n].r, !.w = a[n].w] ELSE tab[n]]
AllShapes == UNION {Shapes(n, MaxDepth) : n \in 1..MaxLeaves}

\* Initial states: the shapes.  The leaf access declarations are chosen by a first step
\* (TLC computes initial states on one thread; successors are spread over the workers).
Init == \E s \in AllShapes : InitWith(Flat(s, 1), "choose")
Assign ==
  /\ phase = "choose"
  /\ \E a \in [Leaves(node) -> AccOpts] : node' = WithAcc(node, a)
  /\ phase' = StartPhase(node)
  /\ UNCHANGED <<att, running, nf, nfin, ndisp, nsetup, nsetups, ok, hist>>
MCNext == Assign \/ Next
Spec == Init /\ [][MCNext]_vars

\* ---- emission (spec -> impl) --------------------------------------------------------
\* schedules: leaves fetch eagerly (a finish only when nothing more can start) -- this is
\* what the gated harness provokes; the finish order is free
Eager == (\E l \in Leaves(node) : nfin'[l] # nfin[l]) => ~(\E l \in Leaves(node) : CanFetch(l))
EmitRun == (~running /\ ndisp = K /\ K > 0) =>
             PrintT(<<"REPLAY", ToJson([tree |-> node, hist |-> hist])>>)
\* construction outcomes: one line per tree once it is built or poisoned
EmitBuild == (phase \in {"ready", "poisoned"} /\ ~running /\ ndisp = 0 /\ nsetups = 0) =>
             PrintT(<<"REPLAY", ToJson([tree |-> node, phase |-> phase, att |-> [n \in Nodes(node) |-> IF n \in Inner(node) THEN att[n] ELSE 0],
                                        reads |-> ReadsVec(node, 1), writes |-> WritesVec(node, 1)])>>)
=============================================================================
