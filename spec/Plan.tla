-------------------------------- MODULE Plan --------------------------------
(***************************************************************************)
(* The ABSTRACT planner: what any admissible implementation of             *)
(* DispatcherBuilder may do.  No algorithm: a well-formed registration     *)
(* appends the new system at ANY place (end of an existing group, new last *)
(* group of an existing stage, new last stage) for which the property      *)
(* predicates of PlanProps hold for it; the two ill-formed calls are       *)
(* rejected and change nothing; a barrier closes the epoch.                *)
(*                                                                         *)
(* Planner.tla (the code's algorithm) refines this module: TLC checks      *)
(* Plan!Spec as a property of Planner (MCPlanner: PlanRefinement).  The    *)
(* trace specification matches real `add` events against the same         *)
(* permissive step (PlaceOK / Placed1) and evaluates the same predicates.  *)
(***************************************************************************)
EXTENDS PlanProps, TLC

CONSTANTS N, Res, Times, MaxDeps
VARIABLES regs, lay, epoch, since, names, tl, outcome
pvars == <<regs, lay, epoch, since, names, tl, outcome>>

SeqsUpTo(S, k) == UNION {[1..n -> S] : n \in 0..k}

Init == regs = <<>> /\ lay = <<>> /\ epoch = 0 /\ since = FALSE /\ names = <<>> /\ tl = 0 /\ outcome = <<"ok", 0>>

Admissible(regs2, lay2, id) ==
  LET pos2 == PosFun(lay2) IN
  /\ C01At(regs2, lay2, pos2, id) /\ C02At(regs2, pos2, id) /\ C03At(regs2, lay2, pos2, id)
  /\ C10At(regs2, lay2, pos2, id) /\ CapOK(lay2, 5)

Register(R, W, depToks, t, nameTok, p) ==
  LET id == Len(regs) + 1
      deps == [i \in DOMAIN depToks |-> names[depToks[i]]]
      regs2 == Append(regs, [r |-> R, w |-> W, d |-> deps, t |-> t, e |-> epoch, nm |-> nameTok])
      lay2 == Placed1(lay, p, id)
  IN /\ \A i \in DOMAIN depToks : depToks[i] \in (DOMAIN names)
     /\ (nameTok = 0 \/ nameTok \notin (DOMAIN names))
     /\ PlaceOK(lay, p)
     /\ Admissible(regs2, lay2, id)
     /\ regs' = regs2 /\ lay' = lay2
     /\ names' = IF nameTok = 0 THEN names ELSE (nameTok :> id) @@ names
     /\ since' = TRUE /\ outcome' = <<"ok", 0>>
     /\ UNCHANGED <<epoch, tl>>

RejectUnknown(depToks) ==
  /\ \E i \in DOMAIN depToks : depToks[i] \notin (DOMAIN names)
  /\ \E i \in DOMAIN depToks : (depToks[i] \notin (DOMAIN names)) /\ (outcome' = <<"unknown", depToks[i]>>)
  /\ UNCHANGED <<regs, lay, epoch, since, names, tl>>
RejectDuplicate(nameTok) ==
  /\ nameTok # 0 /\ nameTok \in (DOMAIN names) /\ outcome' = <<"dup", nameTok>>
  /\ UNCHANGED <<regs, lay, epoch, since, names, tl>>
Barrier == /\ epoch' = (IF since THEN epoch + 1 ELSE epoch) /\ since' = FALSE /\ outcome' = <<"ok", 0>>
           /\ UNCHANGED <<regs, lay, names, tl>>
ThreadLocal == tl' = tl + 1 /\ outcome' = <<"ok", 0>> /\ UNCHANGED <<regs, lay, epoch, since, names>>

Places == (1..(N + 1)) \X (1..(N + 1)) \X (1..(N + 1))
Next == \/ \E R \in SUBSET Res, W \in SUBSET Res, t \in Times, d \in SeqsUpTo(0..N, MaxDeps), nm \in 0..N, p \in Places :
              Register(R, W, d, t, nm, <<p[1], p[2], p[3]>>)
        \/ \E d \in SeqsUpTo(0..N, MaxDeps) : RejectUnknown(d)
        \/ \E nm \in 1..N : RejectDuplicate(nm)
        \/ Barrier \/ ThreadLocal
Spec == Init /\ [][Next]_pvars
=============================================================================
