-------------------------------- MODULE Pool --------------------------------
(***************************************************************************)
(* The thread-pool handle of DispatcherBuilder / Dispatcher / batches      *)
(* (src/dispatch/builder.rs: thread_pool, add_pool, add_batch, build,      *)
(* create_thread_pool; src/dispatch/send_dispatcher.rs: dispatch_par).     *)
(*                                                                         *)
(* Every builder is born with a handle of its own: a shared cell           *)
(* Arc<RwLock<Option<Arc<ThreadPool>>>> that is empty.  One action per     *)
(* public call, modelled as the code does it (not as one might wish):      *)
(*   AddPool(b, p)    writes p THROUGH b's handle: whoever shares the cell *)
(*                    sees p from now on (also dispatchers built earlier). *)
(*   AddBatch(o, i)   i gives up its own handle (and whatever pool it was  *)
(*                    given) and takes o's; then i is BUILT at once, which *)
(*                    fills the shared cell with a default pool if it is   *)
(*                    still empty.  What i itself contains was built       *)
(*                    earlier with i's OLD handle and keeps it: a batch    *)
(*                    two levels down does not follow the outermost        *)
(*                    builder (a named deviation from "one pool per tree").*)
(*   Build(b)         fills b's cell with a default pool if empty.         *)
(* A dispatcher reads its cell at every dispatch.                          *)
(*                                                                         *)
(* Pools: 1..NP are pools supplied by the user, 0 is "a default pool       *)
(* created by the library for this cell", Empty = no pool yet.             *)
(***************************************************************************)
EXTENDS Naturals, FiniteSets, Sequences

CONSTANTS NB,        \* builders 1..NB
          NP,        \* user pools 1..NP
          MaxSteps

Empty == 99
B == 1..NB
VARIABLES bst,      \* [B -> "none" | "open" | "batch" | "built"]
          h,        \* [B -> handle (a builder index: the builder the cell was born with)]
          cell,     \* [B -> Empty | 0 | 1..NP]   one cell per handle
          parent,   \* [B -> 0 | builder this one was added to as a batch]
          lastAdd,  \* [B -> 0 | last pool given to add_pool of this builder]  (history, for the properties)
          hist      \* the calls so far (history, for the replay)
vars == <<bst, h, cell, parent, lastAdd, hist>>

Init == /\ bst = [b \in B |-> "none"] /\ h = [b \in B |-> b] /\ cell = [b \in B |-> Empty]
        /\ parent = [b \in B |-> 0] /\ lastAdd = [b \in B |-> 0] /\ hist = <<>>

\* builders come into being in index order (symmetry)
New(b) == /\ bst[b] = "none" /\ \A x \in B : x < b => bst[x] # "none"
          /\ bst' = [bst EXCEPT ![b] = "open"]
          /\ hist' = Append(hist, <<"new", b, 0>>)
          /\ UNCHANGED <<h, cell, parent, lastAdd>>

AddPool(b, p) == /\ bst[b] = "open"
                 /\ cell' = [cell EXCEPT ![h[b]] = p]
                 /\ lastAdd' = [lastAdd EXCEPT ![b] = p]
                 /\ hist' = Append(hist, <<"addpool", b, p>>)
                 /\ UNCHANGED <<bst, h, parent>>

Filled(c) == IF c = Empty THEN 0 ELSE c

AddBatch(o, i) == /\ o # i /\ bst[o] = "open" /\ bst[i] = "open"
                  /\ h' = [h EXCEPT ![i] = h[o]]
                  /\ cell' = [cell EXCEPT ![h[o]] = Filled(@)]
                  /\ bst' = [bst EXCEPT ![i] = "batch"]
                  /\ parent' = [parent EXCEPT ![i] = o]
                  /\ hist' = Append(hist, <<"addbatch", o, i>>)
                  /\ UNCHANGED lastAdd

Build(b) == /\ bst[b] = "open"
            /\ cell' = [cell EXCEPT ![h[b]] = Filled(@)]
            /\ bst' = [bst EXCEPT ![b] = "built"]
            /\ hist' = Append(hist, <<"build", b, 0>>)
            /\ UNCHANGED <<h, parent, lastAdd>>

Next == /\ Len(hist) < MaxSteps
        /\ \/ \E b \in B : New(b) \/ Build(b)
           \/ \E b \in B, p \in 1..NP : AddPool(b, p)
           \/ \E o \in B, i \in B : AddBatch(o, i)
Spec == Init /\ [][Next]_vars

\* the pool a dispatcher made from builder b uses when it is dispatched now
PoolOf(b) == cell[h[b]]
Dispatchers == {b \in B : bst[b] \in {"batch", "built"}}

(***************************************************************************)
(* Properties of the design                                                *)
(***************************************************************************)
\* a dispatcher always finds a pool (dispatch_par unwraps the cell)
InvHasPool == \A b \in Dispatchers : PoolOf(b) # Empty
\* a batch uses the cell its parent was BORN with (the parent's handle at the moment of add_batch): the direct
\* batches of a top-level dispatcher therefore use its pool ...
InvChildFollows == \A i \in B : (bst[i] = "batch" /\ parent[i] # 0) => h[i] = parent[i]
InvTopChildren == \A i \in B : (bst[i] = "batch" /\ bst[parent[i]] \in {"open", "built"}) => PoolOf(i) = PoolOf(parent[i])
\* ... but "one pool per dispatcher tree" does NOT hold in the code: a parent that became a batch itself has taken
\* its new parent's handle and left its own batches behind on the old cell (negative control: TLC must refute it)
RECURSIVE Root(_)
Root(b) == IF parent[b] = 0 THEN b ELSE Root(parent[b])
OnePoolPerTree == \A i \in Dispatchers : PoolOf(i) = PoolOf(Root(i))
\* the pool that counts is the one given last (C11: "the handle is shared ... installed last"); a pool given to
\* a builder that later became somebody's batch counts for what it CONTAINS, not for itself
InvLastWins == \A b \in B : (bst[b] \in {"open", "built"} /\ lastAdd[b] # 0) => cell[b] = lastAdd[b]
\* a user pool is never replaced by a default pool
InvNoSilentDefault == \A b \in B : (lastAdd[b] # 0) => cell[b] # 0
TypeOK == /\ bst \in [B -> {"none", "open", "batch", "built"}] /\ h \in [B -> B]
          /\ cell \in [B -> {Empty} \cup (0..NP)] /\ parent \in [B -> 0..NB]
=============================================================================
