----------------------------- MODULE PlanProps -----------------------------
(***************************************************************************)
(* Vocabulary and PROPERTY DEFINITIONS for shred plans.                    *)
(*                                                                         *)
(* A plan is described by                                                  *)
(*   regs : sequence of registration records, index = system id            *)
(*          [r, w : sets of resources; d : SEQUENCE of system ids (the     *)
(*           dependency list, duplicates allowed); t : running-time hint;  *)
(*           e : epoch = number of effective barriers registered before]   *)
(*   lay  : Seq(Seq(Seq(id)))  stage -> group -> position                  *)
(*   pos  : id -> <<stage, group, position>>  (inverse of lay)             *)
(*                                                                         *)
(* Every operator takes these as ARGUMENTS so that the model-checking      *)
(* modules (Planner, Exec) and the trace specifications (PlannerTrace,     *)
(* ExecTrace) evaluate literally the same definitions.  The "...At" forms  *)
(* talk about one system; the global forms quantify over all systems.      *)
(***************************************************************************)
EXTENDS Naturals, Sequences, FiniteSets

Range(s) == {s[i] : i \in DOMAIN s}
MaxOf(S) == CHOOSE m \in S : \A x \in S : x <= m

\* ---- access conflicts (the relation of C01) --------------------------------
Conflict(a, b) == \/ a.w \cap (b.r \cup b.w) # {}
                  \/ a.r \cap b.w # {}

\* ---- layout helpers --------------------------------------------------------
Cells(lay) == UNION { UNION { {<<st, g, p>> : p \in DOMAIN lay[st][g]}
                              : g \in DOMAIN lay[st] } : st \in DOMAIN lay }
At(lay, c) == lay[c[1]][c[2]][c[3]]
InGroup(lay, st, g) == Range(lay[st][g])
InStage(lay, st) == UNION {Range(lay[st][g]) : g \in DOMAIN lay[st]}
Placed(lay) == UNION {InStage(lay, st) : st \in DOMAIN lay}
\* inverse of lay (only meaningful when C04Static holds)
PosFun(lay) == [s \in Placed(lay) |-> CHOOSE c \in Cells(lay) : At(lay, c) = s]

StageOf(pos, s) == pos[s][1]
GroupOf(pos, s) == pos[s][2]
Before(pos, a, b) == \/ pos[a][1] < pos[b][1]
                     \/ /\ pos[a][1] = pos[b][1] /\ pos[a][2] = pos[b][2]
                        /\ pos[a][3] < pos[b][3]
Width(lay, st) == Len(lay[st])
MaxWidth(lay) == IF lay = <<>> THEN 0 ELSE MaxOf({Len(lay[st]) : st \in DOMAIN lay})

RECURSIVE FlatG(_)
FlatG(gs) == IF gs = <<>> THEN <<>> ELSE Head(gs) \o FlatG(Tail(gs))
RECURSIVE FlatL(_)
FlatL(l) == IF l = <<>> THEN <<>> ELSE FlatG(Head(l)) \o FlatL(Tail(l))

Acc(regs, s) == [r |-> regs[s].r, w |-> regs[s].w]

\* ---- what any planner may do with a new system: append it somewhere ------------
PlaceOK(ly, p) ==
  /\ Len(p) = 3
  /\ \/ p[1] = Len(ly) + 1 /\ p[2] = 1 /\ p[3] = 1
     \/ p[1] \in DOMAIN ly /\ p[2] = Len(ly[p[1]]) + 1 /\ p[3] = 1
     \/ p[1] \in DOMAIN ly /\ p[2] \in DOMAIN ly[p[1]] /\ p[3] = Len(ly[p[1]][p[2]]) + 1
Placed1(ly, p, id) ==
  IF p[1] = Len(ly) + 1 THEN Append(ly, << <<id>> >>)
  ELSE IF p[2] = Len(ly[p[1]]) + 1 THEN [ly EXCEPT ![p[1]] = Append(@, <<id>>)]
  ELSE [ly EXCEPT ![p[1]][p[2]] = Append(@, id)]


\* ---- C01 (static half): side-by-side groups never conflict -----------------
C01At(regs, lay, pos, s) ==
  \A a \in InStage(lay, pos[s][1]) :
     (a # s /\ pos[a][2] # pos[s][2]) => ~Conflict(Acc(regs, a), Acc(regs, s))
C01Static(regs, lay, pos) == \A s \in Placed(lay) : C01At(regs, lay, pos, s)

\* ---- C02 (static half): every dependency is strictly before ----------------
C02At(regs, pos, s) == \A i \in DOMAIN regs[s].d : Before(pos, regs[s].d[i], s)
C02Static(regs, lay, pos) == \A s \in Placed(lay) : C02At(regs, pos, s)

\* ---- C03 (static half): earlier epoch => strictly earlier stage ------------
C03At(regs, lay, pos, s) ==
  \A a \in Placed(lay) : regs[a].e < regs[s].e => pos[a][1] < pos[s][1]
C03Static(regs, lay, pos) == \A s \in Placed(lay) : C03At(regs, lay, pos, s)

\* ---- C04 (static half): every plain system exactly once in the layout -----
\* `plain` = set of ids that were registered as ordinary systems / batches
C04Static(plain, lay) ==
  /\ Placed(lay) = plain
  /\ Cardinality(Cells(lay)) = Cardinality(plain)
  /\ \A st \in DOMAIN lay : lay[st] # <<>> /\ \A g \in DOMAIN lay[st] : lay[st][g] # <<>>

\* ---- C10: a later stage only when something forces it ----------------------
FirstAllowed(regs, lay, pos, s) ==
  LET P == {a \in Placed(lay) : regs[a].e < regs[s].e}
  IN IF P = {} THEN 1 ELSE MaxOf({pos[a][1] : a \in P}) + 1
Justified(regs, lay, pos, s, j) ==
  \/ \E t \in InStage(lay, j) : t < s /\ Conflict(Acc(regs, s), Acc(regs, t))
  \/ \E i \in DOMAIN regs[s].d : pos[regs[s].d[i]][1] >= j
C10At(regs, lay, pos, s) ==
  \A j \in FirstAllowed(regs, lay, pos, s) .. (pos[s][1] - 1) :
     Justified(regs, lay, pos, s, j)
C10Static(regs, lay, pos) == \A s \in Placed(lay) : C10At(regs, lay, pos, s)
\* corollary used as a sanity lemma in model checking
C10Corollary(regs, lay, pos) ==
  \A ep \in {regs[a].e : a \in Placed(lay)} :
     LET S == {a \in Placed(lay) : regs[a].e = ep} IN
     (/\ \A a, b \in S : a # b => ~Conflict(Acc(regs, a), Acc(regs, b))
      /\ \A a \in S : regs[a].d = <<>>)
     => \A a, b \in S : pos[a][1] = pos[b][1]

\* ---- capacity (totality half of C18) ---------------------------------------
CapOK(lay, cap) == \A st \in DOMAIN lay : \A g \in DOMAIN lay[st] : Len(lay[st][g]) <= cap

\* ---- C20: printed plan = executed plan -------------------------------------
\* names are sequences of character codes; 0-length = unnamed
Sanitise(n) == [i \in DOMAIN n |-> IF n[i] \in {32, 45, 47} THEN 95 ELSE n[i]]
C20Printed(printed, lay, nameOf) ==
  /\ Len(printed) = Len(lay)
  /\ \A st \in DOMAIN lay :
       /\ Len(printed[st]) = Len(lay[st])
       /\ \A g \in DOMAIN lay[st] :
            /\ Len(printed[st][g]) = Len(lay[st][g])
            /\ \A p \in DOMAIN lay[st][g] :
                 LET n == nameOf[lay[st][g][p]] IN
                 IF n = <<>> THEN printed[st][g][p] # <<>>       \* any placeholder
                 ELSE printed[st][g][p] = Sanitise(n)
=============================================================================
