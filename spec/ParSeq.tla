------------------------------- MODULE ParSeq -------------------------------
(***************************************************************************)
(* shred's Par / Seq trees (src/dispatch/par_seq.rs), property C16.        *)
(*                                                                         *)
(* A tree is a table  node[n] = [kind, kids, r, w]  (root = 1, ids in      *)
(* preorder; `kids` a sequence of node ids; leaves carry the DECLARED read *)
(* and write lists of their system as sequences).  `Nil` tails of the real *)
(* structure are no-op systems and are not represented.                    *)
(*                                                                         *)
(* Implementation-shaped part: construction child by child                 *)
(* (`Par::new(k1).with(k2)...`, the debug-only check of `Par::with` on the  *)
(* accumulated reads()/writes() VECTORS), `setup`, `reads`/`writes` as     *)
(* head-then-tail concatenation, and dispatch as fetch/finish steps of the *)
(* leaves: Seq::run = head then tail, Par::run = rayon join of head and    *)
(* tail (any interleaving, both complete before the node completes).       *)
(*                                                                         *)
(* Property part (P_C16): stated on leaves only -- SeqOrderOK, OnceOK,     *)
(* AccOK, SetupOK, WithOK below.                                           *)
(***************************************************************************)
EXTENDS Naturals, Sequences, FiniteSets

CONSTANTS Debug,   \* BOOLEAN: cfg!(debug_assertions) inside shred
          K,       \* number of dispatches per tree (model checking bound)
          Hist     \* BOOLEAN: record the finish order (replay generation)

Range(s) == {s[i] : i \in DOMAIN s}

\* ---- tree vocabulary ----------------------------------------------------------
Nodes(nd) == DOMAIN nd
IsLeaf(nd, n) == nd[n].kind = "leaf"
Leaves(nd) == {n \in Nodes(nd) : IsLeaf(nd, n)}
Inner(nd) == Nodes(nd) \ Leaves(nd)

RECURSIVE LeavesOf(_, _)
LeavesOf(nd, n) == IF IsLeaf(nd, n) THEN {n}
                   ELSE UNION {LeavesOf(nd, nd[n].kids[i]) : i \in DOMAIN nd[n].kids}
\* leaves left to right
RECURSIVE LeafSeq(_, _), LeafSeqKids(_, _)
LeafSeqKids(nd, ks) == IF ks = <<>> THEN <<>> ELSE LeafSeq(nd, Head(ks)) \o LeafSeqKids(nd, Tail(ks))
LeafSeq(nd, n) == IF IsLeaf(nd, n) THEN <<n>> ELSE LeafSeqKids(nd, nd[n].kids)

\* ---- access sets ----------------------------------------------------------------
LeafAcc(nd, l) == [r |-> Range(nd[l].r), w |-> Range(nd[l].w)]
\* the relation tested by Par::with: writes/sys_reads, writes/sys_writes, reads/sys_writes
Conflict(a, b) == \/ a.w \cap b.r # {}
                  \/ a.w \cap b.w # {}
                  \/ a.r \cap b.w # {}
\* P_C16: what a node reports = union over its leaves
AccOf(nd, n) == [r |-> UNION {Range(nd[l].r) : l \in LeavesOf(nd, n)},
                 w |-> UNION {Range(nd[l].w) : l \in LeavesOf(nd, n)}]

\* what the code computes: RunWithPool::reads / writes push head's, then tail's
RECURSIVE ReadsVec(_, _), ReadsKids(_, _), WritesVec(_, _), WritesKids(_, _)
ReadsKids(nd, ks) == IF ks = <<>> THEN <<>> ELSE ReadsVec(nd, Head(ks)) \o ReadsKids(nd, Tail(ks))
ReadsVec(nd, n) == IF IsLeaf(nd, n) THEN nd[n].r ELSE ReadsKids(nd, nd[n].kids)
WritesKids(nd, ks) == IF ks = <<>> THEN <<>> ELSE WritesVec(nd, Head(ks)) \o WritesKids(nd, Tail(ks))
WritesVec(nd, n) == IF IsLeaf(nd, n) THEN nd[n].w ELSE WritesKids(nd, nd[n].kids)

\* Par::with(self, sys) where self already holds kids 1..i-1 of n and sys = kid i   (l.93-127)
WithPanicsImpl(nd, n, i) ==
  LET prev == SubSeq(nd[n].kids, 1, i - 1)
      R == Range(ReadsKids(nd, prev))  W == Range(WritesKids(nd, prev))
      sr == Range(ReadsVec(nd, nd[n].kids[i]))  sw == Range(WritesVec(nd, nd[n].kids[i]))
  IN Debug /\ (W \cap sr # {} \/ W \cap sw # {} \/ R \cap sw # {})

\* ---- P_C16 ----------------------------------------------------------------------
\* adding child i to par node n panics exactly when (debug and) some leaf of the new
\* child conflicts with some leaf of the children already there
WithOK(nd, n, i, panicked) ==
  panicked <=> (Debug /\ nd[n].kind = "par" /\
                \E j \in 1..(i - 1) : \E x \in LeavesOf(nd, nd[n].kids[j]), y \in LeavesOf(nd, nd[n].kids[i]) :
                     Conflict(LeafAcc(nd, x), LeafAcc(nd, y)))
\* a tree can be built (in a debug build) iff no `with` of a par node panics
Buildable(nd) == \A n \in Inner(nd) : \A i \in 2..Len(nd[n].kids) : WithOK(nd, n, i, FALSE)
\* within a seq node every leaf of an earlier child is done before a leaf of a later child starts
SeqOrderOK(nd, started, done) ==
  \A n \in Inner(nd) : nd[n].kind = "seq" =>
    \A i, j \in DOMAIN nd[n].kids : i < j =>
       (LeavesOf(nd, nd[n].kids[j]) \cap started # {} => LeavesOf(nd, nd[n].kids[i]) \subseteq done)
\* every leaf at most once while the dispatch runs, exactly once when it has returned
OnceOK(nd, nf, nfin, finished) ==
  \A l \in Leaves(nd) : nf[l] <= 1 /\ nfin[l] <= nf[l] /\ (finished => nf[l] = 1 /\ nfin[l] = 1)
AccOK(nd, n, rs, ws) == Range(rs) = AccOf(nd, n).r /\ Range(ws) = AccOf(nd, n).w
SetupOK(nd, cnt) == \A l \in Leaves(nd) : cnt[l] = 1
\* corollary (debug builds): leaves that are in `run` together never conflict
IsoOK(nd, running) == \A x, y \in running : x # y => ~Conflict(LeafAcc(nd, x), LeafAcc(nd, y))

\* may leaf l start?  every seq ancestor has finished all leaves of its earlier children
Blocked(nd, done, l) ==
  \E n \in Inner(nd) : nd[n].kind = "seq" /\
    \E i, j \in DOMAIN nd[n].kids : i < j /\ l \in LeavesOf(nd, nd[n].kids[j])
                                     /\ ~(LeavesOf(nd, nd[n].kids[i]) \subseteq done)

\* ---- state ------------------------------------------------------------------------
VARIABLES
  node,     \* the tree
  phase,    \* "build" | "ready" | "poisoned" (a `with` panicked: the tree is gone)
  att,      \* [inner node -> number of children attached so far]
  running,  \* a dispatch is in progress
  nf,       \* [leaf -> fetches in the current / last dispatch]
  nfin,     \* [leaf -> finishes in the current / last dispatch]
  ndisp,    \* dispatches completed
  nsetup,   \* [leaf -> setup calls received]
  nsetups,  \* ParSeq::setup calls made
  ok,       \* outcome of the last call satisfied P_C16
  hist      \* history: sequence of finished leaves with the set of leaves in `run` before

vars == <<node, phase, att, running, nf, nfin, ndisp, nsetup, nsetups, ok, hist>>

Zero(nd) == [l \in Leaves(nd) |-> 0]
BuiltNode(nd, a, n) == IF IsLeaf(nd, n) THEN TRUE ELSE a[n] = Len(nd[n].kids)

StartPhase(nd) == IF IsLeaf(nd, 1) THEN "ready" ELSE "build"
InitWith(nd, ph) ==
  /\ node = nd
  /\ phase = ph
  /\ att = [n \in Inner(nd) |-> 0]
  /\ running = FALSE /\ nf = Zero(nd) /\ nfin = Zero(nd) /\ ndisp = 0
  /\ nsetup = Zero(nd) /\ nsetups = 0 /\ ok = TRUE /\ hist = <<>>

\* Par::new(k1) / Seq::new(k1) (i = 1) and .with(k_i)
Attach(n) ==
  /\ phase = "build" /\ n \in Inner(node) /\ att[n] < Len(node[n].kids)
  /\ LET i == att[n] + 1  c == node[n].kids[i] IN
     /\ BuiltNode(node, att, c)                          \* the child expression is evaluated first
     /\ LET panics == i > 1 /\ node[n].kind = "par" /\ WithPanicsImpl(node, n, i) IN
        /\ ok' = (i > 1 => WithOK(node, n, i, panics))
        /\ IF panics THEN phase' = "poisoned" /\ att' = att
           ELSE /\ att' = [att EXCEPT ![n] = i]
                /\ phase' = IF n = 1 /\ i = Len(node[n].kids) THEN "ready" ELSE "build"
  /\ UNCHANGED <<node, running, nf, nfin, ndisp, nsetup, nsetups, hist>>

\* ParSeq::setup: head.setup then tail.setup, down to every leaf
Setup ==
  /\ phase = "ready" /\ ~running /\ nsetups < 1
  /\ nsetup' = [l \in Leaves(node) |-> nsetup[l] + 1]
  /\ nsetups' = nsetups + 1
  /\ ok' = \A l \in Leaves(node) : nsetup'[l] = nsetups'
  /\ UNCHANGED <<node, phase, att, running, nf, nfin, ndisp, hist>>

Begin ==
  /\ phase = "ready" /\ ~running /\ ndisp < K
  /\ running' = TRUE /\ nf' = Zero(node) /\ nfin' = Zero(node)
  /\ ok' = TRUE
  /\ UNCHANGED <<node, phase, att, ndisp, nsetup, nsetups, hist>>

Done == {l \in Leaves(node) : nfin[l] > 0}
InRun == {l \in Leaves(node) : nf[l] > nfin[l]}
CanFetch(l) == running /\ l \in Leaves(node) /\ nf[l] = 0 /\ ~Blocked(node, Done, l)

LeafFetch(l) ==
  /\ CanFetch(l)
  /\ nf' = [nf EXCEPT ![l] = 1]
  /\ ok' = TRUE
  /\ UNCHANGED <<node, phase, att, running, nfin, ndisp, nsetup, nsetups, hist>>

LeafFinish(l) ==
  /\ running /\ l \in InRun
  /\ nfin' = [nfin EXCEPT ![l] = 1]
  /\ hist' = IF Hist THEN Append(hist, [f |-> l, run |-> InRun]) ELSE hist
  /\ ok' = TRUE
  /\ UNCHANGED <<node, phase, att, running, nf, ndisp, nsetup, nsetups>>

\* the root's run returns when every leaf has finished
End ==
  /\ running /\ \A l \in Leaves(node) : nfin[l] = 1
  /\ running' = FALSE /\ ndisp' = ndisp + 1
  /\ ok' = TRUE
  /\ UNCHANGED <<node, phase, att, nf, nfin, nsetup, nsetups, hist>>

Next ==
  \/ \E n \in Inner(node) : Attach(n)
  \/ Setup \/ Begin \/ End
  \/ \E l \in Leaves(node) : LeafFetch(l) \/ LeafFinish(l)

\* ---- invariants ---------------------------------------------------------------------
InvC16Ok == ok                                                     \* ParWith / setup outcomes
InvC16Once == OnceOK(node, nf, nfin, ~running /\ ndisp > 0)
InvC16Seq == SeqOrderOK(node, {l \in Leaves(node) : nf[l] > 0}, Done)
InvC16Acc == \A n \in Nodes(node) : AccOK(node, n, ReadsVec(node, n), WritesVec(node, n))
InvC16Built == (phase = "ready" /\ Debug) => Buildable(node)
InvC16Iso == (Debug /\ phase = "ready") => IsoOK(node, InRun)
\* a dispatch never gets stuck: something can run until all leaves are done
InvC16Progress == running => (\A l \in Leaves(node) : nfin[l] = 1) \/ InRun # {} \/ \E l \in Leaves(node) : CanFetch(l)
=============================================================================
