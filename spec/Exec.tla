------------------------------- MODULE Exec -------------------------------
(***************************************************************************)
(* The executor of shred: how a built plan is run.                         *)
(*                                                                         *)
(*   src/dispatch/send_dispatcher.rs  dispatch_par: stages one after       *)
(*        another inside pool.install; dispatch_seq: storage order         *)
(*   src/dispatch/stage.rs            Stage::execute: one rayon job per    *)
(*        group, systems of a group in order; execute_seq                  *)
(*   src/system.rs                    run_now = fetch data (real borrows), *)
(*        run, drop data                                                   *)
(*   src/dispatch/dispatcher.rs       dispatch = dispatch_par + thread-    *)
(*        local systems on the calling thread                              *)
(*   src/dispatch/batch.rs            a batch = a system whose run makes   *)
(*        n complete dispatches of an inner dispatcher                     *)
(*                                                                         *)
(* Assume/guarantee: the plan comes from the planner, i.e. satisfies the   *)
(* static predicates of PlanProps (checked on Planner.tla and, for the     *)
(* real builder, by ShredTrace).  Init draws EVERY plan over the given     *)
(* layouts that satisfies them; the actions are the critical sections of   *)
(* the code; TLC explores every interleaving with at most W systems        *)
(* inside `run` (the pool) and at most MaxPanics panicking systems.        *)
(*                                                                         *)
(* One optional batch: system BatchSys (if # 0) owns an inner dispatcher   *)
(* with layout InnerLayout over the systems InnerSys; its run performs     *)
(* BatchN inner dispatches.                                                *)
(***************************************************************************)
EXTENDS ExecProps, TLC

CONSTANTS
  Res,          \* resources
  NSys,         \* systems 1..NSys (outer and inner and thread-local)
  Layouts,      \* set of candidate OUTER layouts (Seq(Seq(Seq(Sys))))
  TLs,          \* sequence of thread-local systems of the outer dispatcher
  BatchSys,     \* 0 or the id of the batch system (must occur in the outer layouts)
  InnerLayout,  \* layout of the inner dispatcher (<<>> if no batch)
  BatchN,       \* inner dispatches per run of the batch
  W,            \* pool size: max systems inside run at once (seq mode: 1)
  MaxPanics,
  K,            \* number of successive dispatches
  Modes,        \* subset of {"disp", "par", "seq"}
  MaxDeps,      \* 0 or 1: dependency lists drawn in Init
  Barriers,     \* BOOLEAN: also draw a barrier position in Init
  Mut           \* "none", or a deliberate defect for negative controls (bin/selftest):
                \* "nostatic" plans need not satisfy C01Static; "nojoin" a stage may end while groups still run;
                \* "tlearly" thread-local systems may start during the last stage

VARIABLES
  layout, acc, deps, eps,   \* the plan (constant after Init)
  st, runs,                 \* per system
  cur, icur,                \* current stage of the outer / inner dispatcher (0 = not dispatching)
  irounds,                  \* inner dispatches still to do in this run of the batch
  tlpc,                     \* next thread-local system (index into TLs)
  mode, k, result, npan,
  world, obs, w0            \* symbolic world: resource -> sequence of writers; what each system saw

pvars == <<layout, acc, deps, eps>>
vars == <<pvars, st, runs, cur, icur, irounds, tlpc, mode, k, result, npan, world, obs, w0>>

Sys == 1..NSys
InnerSys == Placed(InnerLayout)
TLSet == Range(TLs)
Access == {a \in [r : SUBSET Res, w : SUBSET Res] : a.r \cap a.w = {}}

\* ---- the plan as ExecProps / PlanProps want it ---------------------------------
Regs == [s \in Sys |->
          [r |-> IF s = BatchSys THEN acc[s].r \cup UNION {acc[x].r : x \in InnerSys} ELSE acc[s].r,
           w |-> IF s = BatchSys THEN acc[s].w \cup UNION {acc[x].w : x \in InnerSys} ELSE acc[s].w,
           d |-> deps[s], e |-> eps[s],
           b |-> IF s \in InnerSys THEN 2 ELSE 1,
           kind |-> IF s = BatchSys THEN "batch" ELSE IF s \in TLSet THEN "tl" ELSE "plain",
           inner |-> IF s = BatchSys THEN 2 ELSE 0, n |-> IF s = BatchSys THEN BatchN ELSE 0]]
Owner == <<0, BatchSys>>
LayOf(s) == IF s \in InnerSys THEN InnerLayout ELSE layout
PosAll == [s \in Placed(layout) \cup InnerSys |-> PosFun(LayOf(s))[s]]
StaticOK ==
  /\ C01Static(Regs, layout, PosFun(layout)) /\ C01Static(Regs, InnerLayout, PosFun(InnerLayout))
  /\ C02Static(Regs, layout, PosFun(layout)) /\ C02Static(Regs, InnerLayout, PosFun(InnerLayout))
  /\ C03Static(Regs, layout, PosFun(layout)) /\ C03Static(Regs, InnerLayout, PosFun(InnerLayout))

\* ---- symbolic, order-sensitive world ---------------------------------------------
W0 == [r \in Res |-> <<>>]
Apply(wd, s) == [r \in Res |-> IF r \in acc[s].w THEN Append(wd[r], s) ELSE wd[r]]
See(wd, s) == [r \in acc[s].r \cup acc[s].w |-> wd[r]]
NoObs == [s \in Sys |-> <<>>]
RECURSIVE SeqRun(_, _), SeqOne(_, _), SeqIter(_, _)
SeqOne(s, X) ==   \* X = <<world, obs>>
  LET X1 == <<Apply(X[1], s), [X[2] EXCEPT ![s] = See(X[1], s)]>> IN
  IF s = BatchSys THEN SeqIter(BatchN, X1) ELSE X1
SeqRun(q, X) == IF q = <<>> THEN X ELSE SeqRun(Tail(q), SeqOne(Head(q), X))
SeqIter(n, X) == IF n = 0 THEN X ELSE SeqIter(n - 1, SeqRun(FlatL(InnerLayout), X))
Reference(m, wd) == SeqRun(FlatL(layout) \o (IF m = "disp" THEN TLs ELSE <<>>), <<wd, NoObs>>)

\* C01 (static) for a candidate access assignment, before the variables exist
AccOfCand(a, s) ==
  IF s = BatchSys THEN [r |-> a[s].r \cup UNION {a[x].r : x \in InnerSys}, w |-> a[s].w \cup UNION {a[x].w : x \in InnerSys}]
  ELSE a[s]
SideBySideOK(l, a) ==
  \A st1 \in DOMAIN l : \A g1, g2 \in DOMAIN l[st1] :
     g1 # g2 => \A x \in Range(l[st1][g1]), y \in Range(l[st1][g2]) : ~Conflict(AccOfCand(a, x), AccOfCand(a, y))
DepOK(s, d) == d = 0 \/ (MaxDeps > 0 /\ s \in Placed(LayOf(s)) /\ d \in Placed(LayOf(s)) /\ Before(PosFun(LayOf(s)), d, s))

Init ==
  /\ layout \in Layouts
  /\ acc \in [Sys -> Access]
  /\ (Mut = "nostatic" \/ (SideBySideOK(layout, acc) /\ SideBySideOK(InnerLayout, acc)))
  \* dependency lists: none, or one system that the plan places before (C02Static)
  /\ \E dx \in [Sys -> 0..NSys] :
        /\ \A s \in Sys : DepOK(s, dx[s])
        /\ deps = [s \in Sys |-> IF dx[s] = 0 THEN <<>> ELSE <<dx[s]>>]
  \* at most one barrier (C03Static makes the epochs a threshold on the stage)
  /\ \E bs \in (IF Barriers THEN 1..Len(layout) ELSE {Len(layout)}) :
        eps = [s \in Sys |-> IF s \in Placed(layout) /\ PosFun(layout)[s][1] > bs THEN 1 ELSE 0]
  /\ (Mut = "nostatic" \/ StaticOK)
  /\ st = [s \in Sys |-> "idle"] /\ runs = [s \in Sys |-> 0]
  /\ cur = 0 /\ icur = 0 /\ irounds = 0 /\ tlpc = 0 /\ mode = "none" /\ k = 0 /\ result = "none" /\ npan = 0
  /\ world = W0 /\ obs = NoObs /\ w0 = W0

RunningNow == Running(st)
Poisoned(l) == \E s \in Placed(l) : st[s] = "pan"

\* dispatch / dispatch_par / dispatch_seq entry
Begin(m) ==
  /\ cur = 0 /\ k < K /\ m \in Modes
  /\ mode' = m /\ k' = k + 1 /\ cur' = 1 /\ tlpc' = 0 /\ result' = "none"
  /\ st' = [s \in Sys |-> "idle"] /\ runs' = [s \in Sys |-> 0] /\ w0' = world /\ obs' = NoObs
  /\ UNCHANGED <<pvars, icur, irounds, npan, world>>

\* the next system of a group of the current stage of dispatcher (l, c): front to back
NextOf(l, c, g) ==
  LET grp == l[c][g]
      todo == {p \in DOMAIN grp : st[grp[p]] \in {"idle", "run"}}
  IN IF todo = {} \/ \E p \in DOMAIN grp : st[grp[p]] = "pan" THEN 0
     ELSE grp[CHOOSE p \in todo : \A q \in todo : p <= q]

\* which (layout, stage) a system is started from
Startable(s) ==
  \/ /\ cur \in DOMAIN layout /\ \E g \in DOMAIN layout[cur] : NextOf(layout, cur, g) = s
  \/ /\ icur \in DOMAIN InnerLayout /\ \E g \in DOMAIN InnerLayout[icur] : NextOf(InnerLayout, icur, g) = s
  \/ /\ (cur = Len(layout) + 1 \/ (Mut = "tlearly" /\ cur = Len(layout)))
     /\ mode = "disp" /\ tlpc + 1 \in DOMAIN TLs /\ TLs[tlpc + 1] = s

Limit == IF mode = "seq" THEN 1 ELSE W

\* SystemData::fetch in run_now: the borrows are real, a conflict panics (BorrowPanic)
Fetch(s) ==
  /\ result = "none" /\ Startable(s) /\ st[s] = "idle"
  /\ Cardinality({x \in RunningNow : x # BatchSys}) < Limit
  /\ IF \E t \in RunningNow : ~Related(Regs, Owner, s, t) /\ Conflict(Acc(Regs, s), Acc(Regs, t))
     THEN result' = "borrowpanic" /\ UNCHANGED <<st, obs, icur, irounds>>
     ELSE /\ st' = [st EXCEPT ![s] = "run"]
          /\ obs' = [obs EXCEPT ![s] = See(world, s)]
          /\ IF s = BatchSys /\ BatchN > 0 THEN icur' = 1 /\ irounds' = BatchN
             ELSE UNCHANGED <<icur, irounds>>
          /\ UNCHANGED result
  \* the controller of a batch uses its own declared data at its start
  /\ world' = IF s = BatchSys /\ result' = "none" THEN Apply(world, s) ELSE world
  /\ UNCHANGED <<pvars, runs, cur, tlpc, mode, k, npan, w0>>

\* run returns, data dropped
Finish(s) ==
  /\ st[s] = "run"
  /\ s = BatchSys => icur = 0
  /\ st' = [st EXCEPT ![s] = "done"] /\ runs' = [runs EXCEPT ![s] = @ + 1]
  /\ world' = IF s = BatchSys THEN world ELSE Apply(world, s)
  /\ tlpc' = IF s \in TLSet THEN tlpc + 1 ELSE tlpc
  /\ UNCHANGED <<pvars, cur, icur, irounds, mode, k, result, npan, obs, w0>>

\* user code panics inside run (fault action); guards unwind
PanicIn(s) ==
  /\ st[s] = "run" /\ npan < MaxPanics /\ s # BatchSys
  /\ st' = [st EXCEPT ![s] = "pan"] /\ npan' = npan + 1
  /\ UNCHANGED <<pvars, runs, cur, icur, irounds, tlpc, mode, k, result, world, obs, w0>>

StageDone(l, c) ==
  IF Mut = "nojoin" THEN \E g \in DOMAIN l[c] : NextOf(l, c, g) = 0
  ELSE \A g \in DOMAIN l[c] : NextOf(l, c, g) = 0 /\ \A p \in DOMAIN l[c][g] : st[l[c][g][p]] # "run"

\* inner for_each returns: next inner stage / next round / inner dispatch over
InnerEndStage ==
  /\ icur \in DOMAIN InnerLayout /\ StageDone(InnerLayout, icur)
  /\ IF Poisoned(InnerLayout) THEN
        \* the panic propagates through the controller: the batch panics
        /\ st' = [st EXCEPT ![BatchSys] = "pan"] /\ icur' = 0 /\ irounds' = 0
     ELSE IF icur < Len(InnerLayout) THEN icur' = icur + 1 /\ UNCHANGED <<st, irounds>>
     ELSE IF irounds > 1 THEN
        /\ icur' = 1 /\ irounds' = irounds - 1
        /\ st' = [s \in Sys |-> IF s \in InnerSys THEN "idle" ELSE st[s]]
     ELSE icur' = 0 /\ irounds' = 0 /\ UNCHANGED st
  /\ UNCHANGED <<pvars, runs, cur, tlpc, mode, k, result, npan, world, obs, w0>>

\* outer for_each returns
EndStage ==
  /\ cur \in DOMAIN layout /\ result = "none" /\ StageDone(layout, cur)
  /\ IF Poisoned(layout) THEN result' = "panic" /\ UNCHANGED cur
     ELSE cur' = cur + 1 /\ UNCHANGED result
  /\ UNCHANGED <<pvars, st, runs, icur, irounds, tlpc, mode, k, npan, world, obs, w0>>

\* return to the caller
End ==
  /\ cur # 0
  /\ \/ result \in {"panic", "borrowpanic"} /\ RunningNow = {}
     \/ /\ cur = Len(layout) + 1 /\ result = "none" /\ RunningNow = {}
        /\ (mode = "disp" => (tlpc = Len(TLs) \/ \E s \in TLSet : st[s] = "pan"))
  /\ cur' = 0
  /\ result' = IF result # "none" THEN result
               ELSE IF \E s \in TLSet : st[s] = "pan" THEN "panic" ELSE "ok"
  /\ UNCHANGED <<pvars, st, runs, icur, irounds, tlpc, mode, k, npan, world, obs, w0>>

Next == \/ \E m \in Modes : Begin(m)
        \/ \E s \in Sys : Fetch(s) \/ Finish(s) \/ PanicIn(s)
        \/ InnerEndStage \/ EndStage \/ End
Spec == Init /\ [][Next]_vars
Fair == Spec /\ WF_vars(Next)

\* ---- invariants -----------------------------------------------------------------------
Returned == cur = 0 /\ k > 0
InvC01 == C01Run(Regs, Owner, st)
InvNoBorrowPanic == result # "borrowpanic"
InvC02 == C02Run(Regs, st)
InvC03 == C03Run(Regs, st)
ExpectedRuns(s) == IF s \in InnerSys THEN BatchN ELSE IF s \in TLSet THEN (IF mode = "disp" THEN 1 ELSE 0) ELSE 1
InvC04 == (Returned /\ result = "ok") => \A s \in Sys : runs[s] = ExpectedRuns(s)
InvC05 == (Returned /\ result = "ok") => LET R == Reference(mode, w0) IN world = R[1] /\ obs = R[2]
InvC07 == \A s \in InnerSys : st[s] = "run" => st[BatchSys] = "run"
InvC12 == \A s \in TLSet : st[s] = "run" =>
             /\ mode = "disp"
             /\ \A x \in Placed(layout) : st[x] = "done"
             /\ RunningNow = {s}
             /\ \A i \in DOMAIN TLs : st[TLs[i]] = (IF i <= tlpc THEN "done" ELSE IF TLs[i] = s THEN "run" ELSE "idle")
InvC14 == (Returned /\ result = "panic") =>
             /\ RunningNow = {}
             /\ \E s \in Sys : st[s] = "pan"
             /\ \A s \in Sys : runs[s] <= ExpectedRuns(s)
             /\ \A s \in Sys : \A p \in Sys : (st[p] = "pan" /\ Regs[s].b = Regs[p].b /\ DependsOn(Regs, s, p)) => st[s] = "idle"
\* every dispatch terminates (no deadlock of the executor itself)
Terminates == <>[](cur = 0 /\ k = K)
=============================================================================
