--------------------------- MODULE SysDataTrace ---------------------------
(***************************************************************************)
(* Trace specification: validates ndjson traces recorded from REAL shred   *)
(* system-data types (harness/src/bin/zoo.rs: tuples of arity 1..26,       *)
(* nestings, #[derive(SystemData)] structs generated from shape tables)    *)
(* against the property definitions of SysData.                            *)
(*                                                                         *)
(* Every block starts with a `reset` event carrying the SHAPE the Rust     *)
(* type was generated from; TLC recomputes every expectation from the      *)
(* shape with the SysData operators and evaluates the property predicates  *)
(* on what the real code REPORTED (reads()/writes()) and DID (probed       *)
(* borrow classes, panic kind, Default::default() calls, world contents).  *)
(* A disagreement clears one flag of `ok`, named after the aspect; the     *)
(* trace is always consumed to the end (POSTCONDITION Accepted).  Malformed*)
(* input (a tool problem, never a verdict) clears `wf`.  A panic of the    *)
(* right kind at a different member than the member-order semantics        *)
(* predicts is counted in `drift` (reported as a NOTE, not a verdict).     *)
(*                                                                         *)
(* Events:                                                                 *)
(*  reset  case, ty, shape, nres, dflt[1..nres], pdef[1..nres] (Default    *)
(*         of the resource's type panics)                                  *)
(*  decl   via (type | accessor), out, reads, writes        abstract ids   *)
(*  fetch  via, present[1..nres] (booleans), held[1..nres] (class held by  *)
(*         somebody else), out (ok | missing | borrow | other), pres,      *)
(*         alive[1..nres], after[1..nres]   classes 0 free 1 shared        *)
(*         2 exclusive 3 no cell                                           *)
(*  setup  via, w0[1..nres], leaked[1..nres] (0 | 1 | 2: a shared /         *)
(*         exclusive guard of the present resource was forgotten before),  *)
(*         out (ok | panic_default | panic_borrow | panic), created, calls,*)
(*         w1[1..nres]                                       0 = absent    *)
(*         created: resources whose Default::default() ran, in order;      *)
(*         calls: resources whose CUSTOM setup handler ran, in order       *)
(*  exec   w0, out, pres, created, calls, after, w1   World::exec          *)
(*  storm  threads, ops, fail, msg   multi-threaded read-only storm: `fail` *)
(*         of `ops` concurrent fetches of the (read-only) shape panicked   *)
(* A fetch event also names its execution context (ctx: normal control     *)
(* flow | the value is dropped by an unwinding, caught panic | the fetch   *)
(* is issued from a destructor running because of a caught panic); the     *)
(* expectation is the same in all of them, so the spec does not read it.   *)
(***************************************************************************)
EXTENDS SysData, TLC, Json, IOUtils

Rec == ndJsonDeserialize(IOEnv.TRACE)

VARIABLES
  l,       \* next event
  nres,    \* resources of the current case
  dflt,    \* their default values
  pdef,    \* pdef[x]: Default::default() of x's type panics ("must be inserted explicitly")
  rep,     \* what the real type reported: [reads, writes, seen]
  ok,      \* flags, one per aspect of a property
  wf,      \* input well-formed
  drift    \* number of panics at an unpredicted member

tvars == <<l, nres, dflt, pdef, rep, ok, wf, drift>>

Ev == Rec[l]
Is(e) == l <= Len(Rec) /\ Ev.ev = e /\ l' = l + 1

OkInit == [decl |-> TRUE, acc |-> TRUE, borrows |-> TRUE, release |-> TRUE, outcome |-> TRUE,
           setupc |-> TRUE, c13 |-> TRUE]
NoRep == [reads |-> <<>>, writes |-> <<>>, seen |-> FALSE]
UnitShape == Leaf("Unit", 0)

Init == /\ l = 1 /\ nres = 0 /\ dflt = <<>> /\ pdef = <<>> /\ rep = NoRep /\ ok = OkInit /\ wf = TRUE /\ drift = 0
        /\ sh = UnitShape /\ world0 = <<>> /\ world = <<>> /\ held0 = <<>> /\ borrow = <<>>
        /\ phase = "init" /\ outc = NoRes

IsSeqOfLen(s, n) == DOMAIN s = 1..n

TrReset ==
  /\ Is("reset")
  /\ LET e == Ev
         good == /\ e.nres \in 0..64
                 /\ IsSeqOfLen(e.dflt, e.nres) /\ \A i \in DOMAIN e.dflt : e.dflt[i] > 0
                 /\ IsSeqOfLen(e.pdef, e.nres) /\ \A i \in DOMAIN e.pdef : e.pdef[i] \in BOOLEAN
                 /\ WF(e.shape, e.nres)
     IN /\ wf' = good
        /\ sh' = IF good THEN e.shape ELSE UnitShape
        /\ nres' = IF good THEN e.nres ELSE 0
        /\ dflt' = IF good THEN e.dflt ELSE <<>>
        /\ pdef' = IF good THEN e.pdef ELSE <<>>
  /\ rep' = NoRep /\ ok' = OkInit /\ drift' = drift
  /\ world0' = <<>> /\ world' = <<>> /\ held0' = <<>> /\ borrow' = <<>> /\ phase' = "init"
  /\ outc' = NoRes

\* reads()/writes() of the type, or of the accessor of a real System using it
TrDecl ==
  /\ Is("decl")
  /\ LET e == Ev
         good == e.out = "ok" /\ P_C06_decl(sh, e.reads, e.writes)
     IN IF ~wf THEN UNCHANGED <<ok, rep>>
        ELSE IF e.via = "type"
             THEN /\ ok' = [ok EXCEPT !.decl = @ /\ good]
                  /\ rep' = [reads |-> e.reads, writes |-> e.writes, seen |-> e.out = "ok"]
             ELSE \* StaticAccessor forwards to the type-level lists
                  /\ ok' = [ok EXCEPT !.acc = @ /\ good /\ (rep.seen => e.reads = rep.reads /\ e.writes = rep.writes)]
                  /\ UNCHANGED rep
  /\ phase' = "decl"
  /\ UNCHANGED <<nres, dflt, pdef, wf, drift, sh, world0, world, held0, borrow, outc>>

BorrowOfClass(c) == IF c = 1 THEN [r |-> 1, w |-> FALSE] ELSE IF c = 2 THEN [r |-> 0, w |-> TRUE] ELSE Free

TrFetch ==
  /\ Is("fetch")
  /\ LET e == Ev
         shaped == /\ IsSeqOfLen(e.present, nres) /\ IsSeqOfLen(e.held, nres)
                   /\ IsSeqOfLen(e.alive, nres) /\ IsSeqOfLen(e.after, nres)
                   /\ \A x \in 1..nres : e.held[x] \in {0, 1, 2} /\ (e.held[x] # 0 => e.present[x])
     IN
     IF ~wf \/ ~shaped THEN wf' = (wf /\ shaped) /\ UNCHANGED <<ok, drift, held0, borrow, outc>>
     ELSE
       LET P == {x \in 1..nres : e.present[x]}
           b0 == [x \in 1..nres |-> BorrowOfClass(e.held[x])]
           cls0 == [x \in 1..nres |-> IF x \in P THEN e.held[x] ELSE 3]
           f == Fetch(sh, P, b0)
           \* the property speaks about what the type REPORTS; without a report, the shape's lists
           rr == IF rep.seen THEN rep.reads ELSE Reads(sh, 1)
           ww == IF rep.seen THEN rep.writes ELSE Writes(sh, 1)
       IN
       /\ ok' = [ok EXCEPT
                   !.outcome = @ /\ P_C06_outcome(sh, P, b0, e.out),
                   !.borrows = @ /\ (e.out = "ok" => P_C06_borrows(rr, ww, P, cls0, e.alive)),
                   !.release = @ /\ P_C06_release(cls0, e.after)]
       /\ drift' = IF e.out \in {"missing", "borrow"} /\ (e.out # f.out \/ e.pres # f.res)
                   THEN drift + 1 ELSE drift
       /\ held0' = b0 /\ borrow' = f.borrow
       /\ outc' = [NoRes EXCEPT !.out = e.out, !.res = e.pres]
       /\ wf' = wf
  /\ phase' = "fetch"
  /\ UNCHANGED <<nres, dflt, pdef, rep, sh, world0, world>>

TrSetup ==
  /\ Is("setup")
  /\ LET e == Ev
         shaped == /\ IsSeqOfLen(e.w0, nres) /\ IsSeqOfLen(e.w1, nres) /\ IsSeqOfLen(e.leaked, nres)
                   /\ \A x \in 1..nres : e.w0[x] # dflt[x]      \* distinctive pre-existing values
                   /\ \A x \in 1..nres : e.leaked[x] \in {0, 1, 2} /\ (e.leaked[x] # 0 => e.w0[x] # Absent)
     IN
     IF ~wf \/ ~shaped THEN wf' = (wf /\ shaped) /\ UNCHANGED <<ok, world0, world, outc>>
     ELSE
       LET env == [pdef |-> pdef, leaked |-> e.leaked] IN
       /\ ok' = [ok EXCEPT
                   \* C06: setup of the composite = composition of the member setups, in order, up
                   \* to a member whose handler panics (panicking Default / leaked guard)
                   !.setupc = @ /\ P_C06_setup_env(sh, e.w0, dflt, env, e.out, e.created, e.calls, e.w1),
                   \* C13 (world half): nothing existing modified, Default evaluated only for vacant
                   \* provided resources, exactly those created, Option/Expect forms create nothing;
                   \* the setup completes unless the environment makes a member panic
                   !.c13 = @ /\ P_C13_setup(sh, e.w0, dflt, env, e.out, e.created, e.w1)]
       /\ world0' = e.w0 /\ world' = e.w1
       /\ outc' = [NoRes EXCEPT !.out = e.out, !.created = e.created, !.calls = e.calls]
       /\ wf' = wf
  /\ phase' = "setup"
  /\ UNCHANGED <<nres, dflt, pdef, rep, drift, sh, held0, borrow>>

\* World::exec = setup, then fetch on the resulting world (nothing held by anybody else)
TrExec ==
  /\ Is("exec")
  /\ LET e == Ev
         shaped == /\ IsSeqOfLen(e.w0, nres) /\ IsSeqOfLen(e.w1, nres) /\ IsSeqOfLen(e.after, nres)
                   /\ \A x \in 1..nres : e.w0[x] # dflt[x]
     IN
     IF ~wf \/ ~shaped THEN wf' = (wf /\ shaped) /\ UNCHANGED <<ok, drift, world0, world, held0, borrow, outc>>
     ELSE
       LET P == {x \in 1..nres : e.w1[x] # Absent}       \* the world the fetch really saw
           b0 == NoBorrows(1..nres)
           cls0 == [x \in 1..nres |-> IF x \in P THEN 0 ELSE 3]
           f == Fetch(sh, P, b0)
           env == [pdef |-> pdef, leaked |-> [x \in 1..nres |-> 0]]
           s == SetupEnv(sh, e.w0, dflt, env)
           \* when the setup half panics (a panicking Default), exec panics with it: no fetch
           sout == IF s.out = "ok" THEN "ok" ELSE e.out
       IN
       /\ ok' = [ok EXCEPT
                   !.setupc = @ /\ P_C06_setup_env(sh, e.w0, dflt, env, sout, e.created, e.calls, e.w1),
                   !.c13 = @ /\ P_C13_setup(sh, e.w0, dflt, env, sout, e.created, e.w1),
                   !.outcome = @ /\ (s.out = "ok" => P_C06_outcome(sh, P, b0, e.out)),
                   !.release = @ /\ P_C06_release(cls0, e.after)]
       /\ drift' = IF s.out = "ok" /\ e.out \in {"missing", "borrow"} /\ (e.out # f.out \/ e.pres # f.res)
                   THEN drift + 1 ELSE drift
       /\ world0' = e.w0 /\ world' = e.w1 /\ held0' = b0 /\ borrow' = b0
       /\ outc' = [NoRes EXCEPT !.out = e.out, !.res = e.pres, !.created = e.created, !.calls = e.calls]
       /\ wf' = wf
  /\ phase' = "exec"
  /\ UNCHANGED <<nres, dflt, pdef, rep, sh>>

\* the harness gave up on a case (its own failure): a tool problem, never a verdict
TrDied ==
  /\ Is("died")
  /\ wf' = FALSE
  /\ UNCHANGED <<nres, dflt, pdef, rep, ok, drift>> /\ UNCHANGED vars

\* multi-threaded read-only storm: `threads` threads fetched the (read-only) shape `ops` times
\* concurrently from one world holding every resource; `fail` of these fetches panicked
TrStorm ==
  /\ Is("storm")
  /\ LET e == Ev
         shaped == ReadOnly(sh) /\ e.ops >= 0 /\ e.fail >= 0 /\ e.threads >= 2
     IN IF ~wf \/ ~shaped THEN wf' = (wf /\ shaped) /\ UNCHANGED ok
        ELSE /\ ok' = [ok EXCEPT !.borrows = @ /\ P_C06_shared(sh, 1..nres, e.fail)]
             /\ wf' = wf
  /\ UNCHANGED <<nres, dflt, pdef, rep, drift>> /\ UNCHANGED vars

Known == {"reset", "decl", "fetch", "setup", "exec", "died", "storm"}
TrSkip ==
  /\ l <= Len(Rec) /\ Ev.ev \notin Known /\ l' = l + 1
  /\ UNCHANGED <<nres, dflt, pdef, rep, ok, wf, drift>> /\ UNCHANGED vars

TNext == TrReset \/ TrDecl \/ TrFetch \/ TrSetup \/ TrExec \/ TrDied \/ TrStorm \/ TrSkip
Spec == Init /\ [][TNext]_<<tvars, vars>>

\* ---- property invariants ------------------------------------------------------------
InvWF == wf                                   \* violated = tool problem, not a verdict
InvC06decl == ok.decl /\ ok.acc
InvC06borrow == ok.borrows /\ ok.release /\ ok.outcome
InvC06setup == ok.setupc
InvC06 == InvC06decl /\ InvC06borrow /\ InvC06setup
InvC13world == ok.c13
\* report (never false)
InvDriftReport == (l = Len(Rec) + 1 /\ drift > 0) => PrintT(<<"DRIFT", drift>>)

Accepted ==
  IF TLCGet("stats").diameter = Len(Rec) + 1 THEN TRUE
  ELSE Print(<<"REJECTED at", TLCGet("stats").diameter, Rec[TLCGet("stats").diameter]>>, FALSE)
=============================================================================
