----------------------------- MODULE WorldCell -----------------------------
(***************************************************************************)
(* The borrow counter of ONE AtomicRefCell (atomic_refcell 0.1.14, the     *)
(* cell behind every shred resource) at the granularity of its atomic      *)
(* instructions, for several threads:                                      *)
(*   shared    : new = fetch_add(1) + 1; HIGH bit set in new => Err (the   *)
(*               increment stays), else Ok                                 *)
(*   exclusive : compare_exchange(0, HIGH): old = 0 => Ok, else Err        *)
(*   release   : shared fetch_sub(1); exclusive store(0) (wipes strays)    *)
(* It justifies the two assumptions of World.tla / WorldTrace.tla:         *)
(*  - D5: the stray increments are invisible (Abs below ignores them);     *)
(*  - every operation takes effect atomically at ONE instruction between   *)
(*    its call and its return, with exactly the outcome of the sequential  *)
(*    model (Compat / Acq / Rel): the linearizability that WorldTrace      *)
(*    checks on real multi-thread histories is what the cell provides,     *)
(*    so a history that is not linearizable is shred's fault.              *)
(* (The overflow paths - 2^63 borrows - are not modelled.)                 *)
(***************************************************************************)
EXTENDS Naturals, FiniteSets

CONSTANTS Threads, MaxOps

VARIABLES
  hi, n,     \* the counter: HIGH bit, low part
  pc,        \* thread -> "idle" | "r1" (after fetch_add, before the test) | "holdR" | "holdW"
  new,       \* thread -> did the fetch_add see the HIGH bit
  ops,       \* thread -> operations started (bound)
  lastOk     \* outcome rule of the step just taken (TRUE unless a rule is broken)

vars == <<hi, n, pc, new, ops, lastOk>>

\* abstract borrow state of World.tla
AbsW == hi
AbsR == IF hi THEN 0 ELSE n
Compat(mode) == IF mode = "r" THEN ~AbsW ELSE (~AbsW /\ AbsR = 0)

Init == hi = FALSE /\ n = 0 /\ pc = [t \in Threads |-> "idle"] /\ new = [t \in Threads |-> FALSE]
        /\ ops = [t \in Threads |-> 0] /\ lastOk = TRUE

\* shared, instruction 1 (the linearisation point): fetch_add
R1(t) == /\ pc[t] = "idle" /\ ops[t] < MaxOps
         /\ n' = n + 1 /\ new' = [new EXCEPT ![t] = hi]
         /\ pc' = [pc EXCEPT ![t] = "r1"] /\ ops' = [ops EXCEPT ![t] = @ + 1]
         /\ lastOk' = TRUE /\ UNCHANGED hi
\* shared, instruction 2: the test decides the outcome that was fixed at R1
R2(t) == /\ pc[t] = "r1"
         /\ pc' = [pc EXCEPT ![t] = IF new[t] THEN "idle" ELSE "holdR"]
         /\ lastOk' = TRUE /\ UNCHANGED <<hi, n, new, ops>>
\* exclusive: one compare_exchange
W(t) == /\ pc[t] = "idle" /\ ops[t] < MaxOps
        /\ ops' = [ops EXCEPT ![t] = @ + 1]
        /\ IF ~hi /\ n = 0
           THEN hi' = TRUE /\ pc' = [pc EXCEPT ![t] = "holdW"] /\ lastOk' = Compat("w")
           ELSE UNCHANGED <<hi, pc>> /\ lastOk' = ~Compat("w")
        /\ UNCHANGED <<n, new>>
RelR(t) == /\ pc[t] = "holdR" /\ n' = n - 1 /\ pc' = [pc EXCEPT ![t] = "idle"]
           /\ lastOk' = TRUE /\ UNCHANGED <<hi, new, ops>>
RelW(t) == /\ pc[t] = "holdW" /\ hi' = FALSE /\ n' = 0 /\ pc' = [pc EXCEPT ![t] = "idle"]
           /\ lastOk' = TRUE /\ UNCHANGED <<new, ops>>

Next == \E t \in Threads : R1(t) \/ R2(t) \/ W(t) \/ RelR(t) \/ RelW(t)
Spec == Init /\ [][Next]_vars

Holders(k) == {t \in Threads : pc[t] = k}
\* the abstract state IS the set of guards (a reader between its two instructions already
\* holds its borrow iff it did not see the HIGH bit): refinement mapping to World.tla's cell
InvCell ==
  /\ AbsW <=> Cardinality(Holders("holdW")) = 1
  /\ Cardinality(Holders("holdW")) <= 1
  /\ AbsR = Cardinality(Holders("holdR") \cup {t \in Holders("r1") : ~new[t]})
  /\ AbsW => Holders("holdR") = {}
\* outcomes agree with the sequential model at the linearisation point
InvOutcome == lastOk
\* a shared attempt succeeds iff Compat("r") held at its fetch_add
RuleShared == [][\A t \in Threads : (pc[t] = "idle" /\ pc'[t] = "r1") => (new'[t] <=> ~Compat("r"))]_vars
=============================================================================
