----------------------------- MODULE Lifecycle -----------------------------
(***************************************************************************)
(* Setup and dispose of a dispatcher (C13).                                *)
(*                                                                         *)
(*   src/dispatch/dispatcher.rs       Dispatcher::setup / dispose: the     *)
(*        stages (send_dispatcher.rs, stage.rs: stage -> group -> system), *)
(*        then the thread-local systems                                    *)
(*   src/dispatch/batch.rs            BatchControllerSystem::setup: the    *)
(*        controller's declared data, then the inner dispatcher;           *)
(*        dispose: the inner dispatcher                                    *)
(*   src/world/setup.rs               DefaultProvider creates only into a  *)
(*        vacant slot; PanicHandler (Expect) and Option create nothing     *)
(*                                                                         *)
(* One action per callback that the code makes, in the code's order; the   *)
(* world is a presence set plus the set of slots whose pre-existing value  *)
(* was overwritten (must stay empty).                                      *)
(***************************************************************************)
EXTENDS PlanProps

CONSTANTS Res, NSys, Layout, TLs, BatchSys, InnerLayout, InnerTLs, Rounds, AccChoices

VARIABLES pre,      \* resources existing before the first setup
          present,  \* resources existing now
          clobbered,\* pre-existing resources that were written by setup code
          acc,      \* system -> set of resources it accesses through a default-providing accessor
          nset, ndis, phase, pc, round,
          fresh     \* TRUE from the end of a setup until user code changes the world
vars == <<pre, present, clobbered, acc, nset, ndis, phase, pc, round, fresh>>

Sys == 1..NSys
\* the order in which the code visits systems: a batch is visited as "controller data, then
\* everything of the inner dispatcher (stages, then its thread-local systems)"
RECURSIVE Expand(_)
Expand(q) == IF q = <<>> THEN <<>>
             ELSE IF Head(q) = BatchSys THEN <<BatchSys>> \o FlatL(InnerLayout) \o InnerTLs \o Expand(Tail(q))
             ELSE <<Head(q)>> \o Expand(Tail(q))
Order == Expand(FlatL(Layout)) \o TLs
Visited == Range(Order)

Init == /\ pre \in SUBSET Res /\ present = pre /\ clobbered = {}
        /\ acc \in [Sys -> AccChoices]
        /\ nset = [s \in Sys |-> 0] /\ ndis = [s \in Sys |-> 0]
        /\ phase = "idle" /\ pc = 1 /\ round = 0 /\ fresh = FALSE

BeginSetup == /\ phase = "idle" /\ round < Rounds /\ phase' = "setup" /\ pc' = 1 /\ round' = round + 1
              /\ nset' = [s \in Sys |-> 0]
              /\ UNCHANGED <<pre, present, clobbered, acc, ndis, fresh>>
\* System::setup of one system (for the batch: world.setup::<BatchSystemData>())
SetupStep == /\ phase = "setup" /\ pc <= Len(Order)
             /\ LET s == Order[pc] IN
                /\ nset' = [nset EXCEPT ![s] = @ + 1]
                /\ present' = present \cup acc[s]        \* entry().or_insert_with(default): vacant slots only
                /\ UNCHANGED clobbered                     \* ... hence nothing existing is written
             /\ pc' = pc + 1
             /\ UNCHANGED <<pre, acc, ndis, phase, round, fresh>>
EndSetup == /\ phase = "setup" /\ pc = Len(Order) + 1 /\ phase' = "idle" /\ fresh' = TRUE
            /\ UNCHANGED <<pre, present, clobbered, acc, nset, ndis, pc, round>>
\* user code between two setups may remove resources again
Remove(r) == /\ phase = "idle" /\ r \in present /\ present' = present \ {r} /\ pre' = pre \ {r}
             /\ fresh' = FALSE
             /\ UNCHANGED <<clobbered, acc, nset, ndis, phase, pc, round>>
BeginDispose == /\ phase = "idle" /\ round > 0 /\ phase' = "dispose" /\ pc' = 1
                /\ UNCHANGED <<pre, present, clobbered, acc, nset, ndis, round, fresh>>
DisposeStep == /\ phase = "dispose" /\ pc <= Len(Order)
               /\ ndis' = [ndis EXCEPT ![Order[pc]] = @ + 1] /\ pc' = pc + 1
               /\ UNCHANGED <<pre, present, clobbered, acc, nset, phase, round, fresh>>
EndDispose == /\ phase = "dispose" /\ pc = Len(Order) + 1 /\ phase' = "disposed"
              /\ UNCHANGED <<pre, present, clobbered, acc, nset, ndis, pc, round, fresh>>
Next == BeginSetup \/ SetupStep \/ EndSetup \/ (\E r \in Res : Remove(r)) \/ BeginDispose \/ DisposeStep \/ EndDispose
Spec == Init /\ [][Next]_vars

\* C13
SetupDone == phase = "idle" /\ round > 0 /\ fresh
InvC13setup == SetupDone => /\ \A s \in Sys : nset[s] = (IF s \in Visited THEN 1 ELSE 0)
                            /\ \A s \in Visited : acc[s] \subseteq present
InvC13noclobber == clobbered = {} /\ pre \subseteq present
InvC13nothingElse == present \subseteq pre \cup UNION {acc[s] : s \in Visited}
InvC13dispose == phase = "disposed" => \A s \in Sys : ndis[s] = (IF s \in Visited THEN 1 ELSE 0)
InvOrderCoversPlan == Visited = Placed(Layout) \cup Range(TLs) \cup (IF BatchSys \in Placed(Layout) THEN Placed(InnerLayout) \cup Range(InnerTLs) ELSE {})
=============================================================================
