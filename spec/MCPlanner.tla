----------------------------- MODULE MCPlanner -----------------------------
(* Model-checking wrapper for Planner: TLC-only operators live here.       *)
EXTENDS Planner, Json

\* One JSON line per terminal state (spec -> implementation replay).  The
\* registration sequence is part of the state and the layout is append-only,
\* so terminal states subsume their prefixes.
Emit == (Len(regs) = N /\ outcome[1] = "ok") =>
          PrintT(<<"REPLAY", ToJson([regs |-> regs, ids |-> ids, epoch |-> epoch])>>)

\* state constraint for simulation configs
Bound == Len(regs) <= N
=============================================================================
