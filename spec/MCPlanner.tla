----------------------------- MODULE MCPlanner -----------------------------
(* Model-checking wrapper for Planner: TLC-only operators live here.       *)
EXTENDS Planner, Json

\* One JSON line per terminal state (spec -> implementation replay).  The
\* registration sequence is part of the state and the layout is append-only,
\* so terminal states subsume their prefixes.
Emit == (Len(regs) = N /\ outcome[1] = "ok") =>
          PrintT(<<"REPLAY", ToJson([regs |-> regs, ids |-> ids, epoch |-> epoch])>>)

\* Planner refines the abstract planner Plan (every step of the algorithm is an admissible step)
AbsPlan == INSTANCE Plan WITH lay <- ids
PlanRefinement == AbsPlan!Spec     \* (direct form: TLC has to search the witnesses of Plan!Next - slow)
\* The same refinement with the witnesses supplied: every successful registration of the algorithm is a
\* Plan!Register step at the place the algorithm chose (append-shaped, admissible); every other step
\* leaves the plan alone.
PlanStep == [][ IF Len(regs') = Len(regs) + 1
                THEN LET id == Len(regs')  p == PosFun(ids')[id] IN
                     /\ PlaceOK(ids, p) /\ ids' = Placed1(ids, p, id)
                     /\ AbsPlan!Admissible(regs', ids', id)
                ELSE regs' = regs /\ ids' = ids ]_vars

\* state constraint for simulation configs
Bound == Len(regs) <= N
=============================================================================
