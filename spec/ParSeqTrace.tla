---------------------------- MODULE ParSeqTrace ----------------------------
(***************************************************************************)
(* Trace specification for C16: validates ndjson traces recorded from the  *)
(* REAL Par / Seq / ParSeq (harness/src/bin/parseq.rs).                    *)
(*                                                                         *)
(* The tree is logged (`reset`); every `with` of the construction, every   *)
(* reported reads()/writes() (`acc`), every leaf `setup`, and the `fetch` /*)
(* `finish` of every leaf (logged under one mutex while the leaf holds its *)
(* borrows) are events.  Events are APPLIED unconditionally -- a `fetch`    *)
(* is counted whether or not the model would allow it -- and the property  *)
(* predicates of ParSeq (SeqOrderOK, OnceOK, AccOK, SetupOK, WithOK,       *)
(* Buildable) are evaluated by TLC in every state.  The trace is always    *)
(* consumed to the end.  Every call into Par/Seq/ParSeq (new, with,        *)
(* reads/writes, setup, dispatch) runs under catch_unwind in the harness:  *)
(* a panic of ANY kind the model does not produce for that call (only      *)
(* `with` may panic, and only with the conflict message) clears the flag   *)
(* of the C16 aspect the call belongs to -- never a tool error.            *)
(***************************************************************************)
EXTENDS ParSeq, TLC, Json, IOUtils

Rec == ndJsonDeserialize(IOEnv.TRACE)

VARIABLES
  l,        \* next event
  insetup,  \* inside a ParSeq::setup call
  fl        \* flags: outcomes the property predicates do not accept

tvars == <<vars, l, insetup, fl>>

E == Rec[l]
Is(e) == l <= Len(Rec) /\ E.ev = e /\ l' = l + 1

FlInit == [with |-> TRUE, acc |-> TRUE, setup |-> TRUE, once |-> TRUE]
Empty == << [kind |-> "leaf", kids |-> <<>>, r |-> <<>>, w |-> <<>>] >>

TInit == InitWith(Empty, "ready") /\ l = 1 /\ insetup = FALSE /\ fl = FlInit

Same == UNCHANGED <<ok, hist>>

TrReset ==
  /\ Is("reset")
  /\ node' = E.tree
  /\ phase' = StartPhase(E.tree)
  /\ att' = [n \in Inner(E.tree) |-> 0]
  /\ running' = FALSE /\ nf' = Zero(E.tree) /\ nfin' = Zero(E.tree) /\ ndisp' = 0
  /\ nsetup' = Zero(E.tree) /\ nsetups' = 0
  /\ insetup' = FALSE /\ fl' = FlInit
  /\ Same

\* one `.with(child i)` of node n, observed outcome E.out
TrWith ==
  /\ Is("with")
  /\ LET n == E.n  i == E.i  known == n \in Inner(node) /\ i \in 2..Len(node[n].kids) IN
     /\ fl' = [fl EXCEPT !.with = @ /\ known /\ E.out \in {"ok", "panic"} /\ WithOK(node, n, i, E.out = "panic")]
     /\ att' = IF known /\ E.out = "ok" THEN [att EXCEPT ![n] = i] ELSE att
     /\ phase' = IF E.out = "ok" THEN phase ELSE "poisoned"
  /\ UNCHANGED <<node, running, nf, nfin, ndisp, nsetup, nsetups, insetup>> /\ Same

\* a whole tree built by the par!/seq! macros at compile time: panics iff some `with` has to
TrBuilt ==
  /\ Is("built")
  /\ fl' = [fl EXCEPT !.with = @ /\ E.out \in {"ok", "panic"} /\ ((E.out = "panic") <=> (Debug /\ ~Buildable(node)))]
  /\ phase' = IF E.out = "ok" THEN "ready" ELSE "poisoned"
  /\ UNCHANGED <<node, att, running, nf, nfin, ndisp, nsetup, nsetups, insetup>> /\ Same

\* reads()/writes() reported by node n
TrAcc ==
  /\ Is("acc")
  /\ fl' = [fl EXCEPT !.acc = @ /\ E.out = "ok" /\ E.n \in Nodes(node) /\ AccOK(node, E.n, E.r, E.w)]
  /\ UNCHANGED <<node, phase, att, running, nf, nfin, ndisp, nsetup, nsetups, insetup>> /\ Same

TrSetupBegin ==
  /\ Is("setup_begin")
  /\ insetup' = TRUE /\ nsetup' = Zero(node)
  /\ UNCHANGED <<node, phase, att, running, nf, nfin, ndisp, nsetups, fl>> /\ Same

TrSetup ==
  /\ Is("setup")
  /\ IF E.s \in Leaves(node) /\ insetup
     THEN nsetup' = [nsetup EXCEPT ![E.s] = @ + 1] /\ fl' = fl
     ELSE nsetup' = nsetup /\ fl' = [fl EXCEPT !.setup = FALSE]
  /\ UNCHANGED <<node, phase, att, running, nf, nfin, ndisp, nsetups, insetup>> /\ Same

\* ParSeq::setup has returned: every leaf was set up exactly once by this call
TrSetupEnd ==
  /\ Is("setup_end")
  /\ insetup' = FALSE /\ nsetups' = nsetups + 1
  /\ fl' = [fl EXCEPT !.setup = @ /\ E.out = "ok" /\ SetupOK(node, nsetup)]
  /\ UNCHANGED <<node, phase, att, running, nf, nfin, ndisp, nsetup>> /\ Same

TrBegin ==
  /\ Is("begin")
  /\ running' = TRUE /\ nf' = Zero(node) /\ nfin' = Zero(node)
  /\ UNCHANGED <<node, phase, att, ndisp, nsetup, nsetups, insetup, fl>> /\ Same

TrFetch ==
  /\ Is("fetch")
  /\ IF E.s \in Leaves(node) /\ running
     THEN nf' = [nf EXCEPT ![E.s] = @ + 1] /\ fl' = fl
     ELSE nf' = nf /\ fl' = [fl EXCEPT !.once = FALSE]            \* ran outside a dispatch / not a leaf
  /\ UNCHANGED <<node, phase, att, running, nfin, ndisp, nsetup, nsetups, insetup>> /\ Same

TrFinish ==
  /\ Is("finish")
  /\ IF E.s \in Leaves(node) /\ running
     THEN nfin' = [nfin EXCEPT ![E.s] = @ + 1] /\ fl' = fl
     ELSE nfin' = nfin /\ fl' = [fl EXCEPT !.once = FALSE]
  /\ UNCHANGED <<node, phase, att, running, nf, ndisp, nsetup, nsetups, insetup>> /\ Same

\* dispatch has returned (or panicked): from here on OnceOK demands exactly once
TrEnd ==
  /\ Is("end")
  /\ running' = FALSE /\ ndisp' = ndisp + 1
  /\ fl' = [fl EXCEPT !.once = @ /\ E.res = "ok"]
  /\ UNCHANGED <<node, phase, att, nf, nfin, nsetup, nsetups, insetup>> /\ Same

Known == {"reset", "with", "built", "acc", "setup_begin", "setup", "setup_end", "begin", "fetch", "finish", "end"}
TrSkip ==
  /\ l <= Len(Rec) /\ E.ev \notin Known /\ l' = l + 1
  /\ UNCHANGED <<vars, insetup, fl>>

TNext == TrReset \/ TrWith \/ TrBuilt \/ TrAcc \/ TrSetupBegin \/ TrSetup \/ TrSetupEnd
         \/ TrBegin \/ TrFetch \/ TrFinish \/ TrEnd \/ TrSkip
Spec == TInit /\ [][TNext]_tvars

\* ---- property invariants (shadow nothing of ParSeq: same predicates, trace state) ----
InvC16TrOnce == fl.once /\ OnceOK(node, nf, nfin, ~running /\ ndisp > 0)
InvC16TrSeq == SeqOrderOK(node, {x \in Leaves(node) : nf[x] > 0}, {x \in Leaves(node) : nfin[x] > 0})
InvC16TrAcc == fl.acc
InvC16TrSetup == fl.setup
InvC16TrWith == fl.with
\* only trees whose construction succeeded are ever set up or dispatched
InvC16TrPhase == (running \/ insetup) => phase = "ready"

Accepted ==
  IF TLCGet("stats").diameter = Len(Rec) + 1 THEN TRUE
  ELSE Print(<<"REJECTED at", TLCGet("stats").diameter, Rec[TLCGet("stats").diameter]>>, FALSE)
=============================================================================
