----------------------------- MODULE WorldTrace -----------------------------
(***************************************************************************)
(* Trace specification for World: validates ndjson traces recorded from    *)
(* the REAL shred::World (harness/src/bin/world.rs) against World.tla.     *)
(*                                                                         *)
(* Single-threaded events (`call`): the logged call is executed with the   *)
(* action of World.tla; the outcome the action computes and the projected  *)
(* state it leads to are compared with the logged outcome and with the     *)
(* state the harness observed on the real world after the call.  A         *)
(* disagreement never blocks: it clears the flag of the property it        *)
(* belongs to (borrow discipline -> C08, map/type/identity -> C09) and the *)
(* rest of the block is consumed unchecked (`dead`), so that a check for   *)
(* one property is not made to fail by the breakage of the other.          *)
(*                                                                         *)
(* Multi-threaded events (`par`, `tcall`, `tret`, `canary`, `sync`): the   *)
(* harness logs `tcall` BEFORE and `tret` (with the outcome) AFTER each    *)
(* real operation under one mutex.  The property is LINEARIZABILITY to the *)
(* sequential fetch/drop/clone semantics of World.tla: `confs` is the SET  *)
(* of all configurations (borrow table, pending calls with the outcome     *)
(* computed at their linearisation point) that explain the log so far -    *)
(* the powerset construction makes the trace spec deterministic, so the    *)
(* verdict is an invariant (confs # {}) and never a rejected trace.  A     *)
(* (`tret` of a granted guard also says whether it is a Fetch, i.e. Clone.) *)
(* `tret` keeps the configurations in which that call has been linearised  *)
(* (silent Lin steps, closed under all orders) with the logged outcome.    *)
(* Sound: if the real operations are linearizable, the real order of       *)
(* linearisation points is one of the orders explored, so confs # {}.      *)
(***************************************************************************)
EXTENDS World, TLC, Json, IOUtils

Rec == TLCEval(ndJsonDeserialize(IOEnv.TRACE))

VARIABLES
  l,      \* next event
  dead,   \* a disagreement (or harness problem) since the last reset: consume unchecked
  ok,     \* flags, one per aspect of a property
  par,    \* TRUE between `par` and `sync`
  confs   \* multi-thread phase: set of [br, pend] explaining the log so far

vars == <<store, borrow, guards, dropped, returned, nextIdent, call, outcome, iters, l, dead, ok, par, confs>>

Ev == Rec[l]
Is(e) == l <= Len(Rec) /\ Ev.ev = e /\ l' = l + 1

OkInit == [c08out |-> TRUE, c08obs |-> TRUE, c08lin |-> TRUE, c08can |-> TRUE,
           c09out |-> TRUE, c09obs |-> TRUE, c09drops |-> TRUE, tool |-> TRUE]

TInit == Init /\ l = 1 /\ dead = FALSE /\ ok = OkInit /\ par = FALSE /\ confs = {}

TrReset ==
  /\ Is("reset")
  /\ store' = [id \in Ids |-> Absent] /\ borrow' = [id \in Ids |-> Free] /\ guards' = <<>>
  /\ dropped' = {} /\ returned' = {} /\ nextIdent' = 1
  /\ call' = C("init", 0, <<0, 0>>, 0, <<>>, <<>>) /\ outcome' = Unit /\ iters' = <<>>
  /\ dead' = FALSE /\ ok' = OkInit /\ par' = FALSE /\ confs' = {}

\* ---- single-threaded calls -----------------------------------------------------
MutOps   == {"insert", "insert_by_id", "remove", "remove_by_id", "or_insert", "or_insert_with",
             "get_mut", "get_mut_raw", "setup", "exec", "exec_panic"}
GrantOps == FetchOps \cup {"system_data", "meta_iter", "meta_iter_mut"}
GuardOps == {"drop", "clone", "unwind", "write"}
IterOps  == {"miter_new", "miter_new_mut", "miter_next", "miter_drop"}
KnownOps == MutOps \cup GrantOps \cup GuardOps \cup IterOps \cup {"has_value", "has_value_raw"}
Distinct(s) == \A i, j \in DOMAIN s : i # j => s[i] # s[j]
FreshGs(s) == Distinct(s) /\ \A i \in DOMAIN s : s[i] # 0 /\ s[i] \notin DOMAIN guards

\* what the harness guarantees by construction (D1, D4); violated => tool error
Pre(e) ==
  /\ e.op \in KnownOps
  /\ ~par
  /\ (e.op \in MutOps => MutOK)
  /\ (e.op \in FetchOps \cup {"has_value", "has_value_raw"} \cup (MutOps \ {"setup", "exec", "exec_panic"})
        => (<<e.ty, e.dy>> \in Ids /\ e.targ \in Types))
  /\ (e.op \in GrantOps => FreshGs(e.gs))
  /\ (e.op \in {"drop", "write"} => (Len(e.gs) = 1 /\ e.gs[1] \in DOMAIN guards))
  /\ (e.op = "write" => guards[e.gs[1]].kind = "w")
  /\ (e.op = "clone" => (Len(e.gs) >= 1 /\ e.gs[1] \in DOMAIN guards /\ guards[e.gs[1]].cl /\ FreshGs(Tail(e.gs))))
  /\ (e.op = "unwind" => (e.gs # <<>> /\ SeqToSet(e.gs) \subseteq DOMAIN guards))
  /\ (e.op \in {"miter_new", "miter_new_mut"} => (Len(e.gs) = 1 /\ e.gs[1] # 0 /\ e.gs[1] \notin DOMAIN iters
                                                   /\ \A i \in DOMAIN e.shape : e.shape[i].t \in Types))
  /\ (e.op \in {"miter_next", "miter_drop"} => (Len(e.gs) >= 1 /\ e.gs[1] \in DOMAIN iters))
  /\ (e.op = "miter_next" => FreshGs(Tail(e.gs)))
  /\ (e.op \in {"system_data", "meta_iter", "meta_iter_mut", "setup", "exec", "exec_panic"}
        => \A i \in DOMAIN e.shape : e.shape[i].t \in Types)

DispatchIter(e) ==
  \/ e.op = "miter_new" /\ MIterNew(e.gs[1], [i \in DOMAIN e.shape |-> e.shape[i].t], "r")
  \/ e.op = "miter_new_mut" /\ MIterNew(e.gs[1], [i \in DOMAIN e.shape |-> e.shape[i].t], "w")
  \/ e.op = "miter_next" /\ MIterNext(e.gs[1], Tail(e.gs))
  \/ e.op = "miter_drop" /\ MIterDrop(e.gs[1])

DispatchCall(e) ==
  LET id == <<e.ty, e.dy>> IN
  \/ e.op = "insert" /\ Insert(e.targ, e.p)
  \/ e.op = "insert_by_id" /\ InsertById(e.targ, id, e.p)
  \/ e.op = "remove" /\ Remove(e.targ)
  \/ e.op = "remove_by_id" /\ RemoveById(e.targ, id)
  \/ e.op = "or_insert" /\ EntryOrInsert(e.targ, e.p)
  \/ e.op = "or_insert_with" /\ EntryOrInsertWith(e.targ, e.p)
  \/ e.op = "get_mut" /\ GetMut(e.targ, e.p)
  \/ e.op = "get_mut_raw" /\ GetMutRaw(id, e.p)
  \/ e.op = "has_value" /\ HasValue(e.targ)
  \/ e.op = "has_value_raw" /\ HasValueRaw(id)
  \/ e.op = "fetch" /\ Fetch(e.targ, e.gs)
  \/ e.op = "try_fetch" /\ TryFetch(e.targ, e.gs)
  \/ e.op = "fetch_mut" /\ FetchMut(e.targ, e.gs)
  \/ e.op = "try_fetch_mut" /\ TryFetchMut(e.targ, e.gs)
  \/ e.op = "try_fetch_by_id" /\ TryFetchById(e.targ, id, e.gs)
  \/ e.op = "try_fetch_mut_by_id" /\ TryFetchMutById(e.targ, id, e.gs)
  \/ e.op = "clone" /\ CloneGuard(e.gs[1], Tail(e.gs))
  \/ e.op = "drop" /\ DropGuard(e.gs[1])
  \/ e.op = "unwind" /\ Unwind(e.gs)
  \/ e.op = "write" /\ GuardWrite(e.gs[1], e.p)
  \/ e.op = "system_data" /\ SystemData(e.shape, e.gs)
  \/ e.op = "setup" /\ Setup(e.shape)
  \/ e.op = "exec" /\ Exec(e.shape, e.p, FALSE)
  \/ e.op = "exec_panic" /\ Exec(e.shape, e.p, TRUE)
  \/ e.op = "meta_iter" /\ MetaIter([i \in DOMAIN e.shape |-> e.shape[i].t], "r", e.gs)
  \/ e.op = "meta_iter_mut" /\ MetaIter([i \in DOMAIN e.shape |-> e.shape[i].t], "w", e.gs)

Dispatch(e) == (e.op \notin IterOps /\ DispatchCall(e) /\ UNCHANGED iters) \/ (e.op \in IterOps /\ DispatchIter(e))

IsBP(o) == o.k = "panic" /\ o.why = "borrow"
NoB(c)  == [c EXCEPT !.b = ""]
GStruct(g) == [g |-> g.g, ty |-> g.ty, dy |-> g.dy, kind |-> g.kind]

\* observed state against the projection of a spec state.  Every comparison is ONE
\* equality of two values built in one pass (TLC re-evaluates operator arguments
\* at every use, so element-wise comparisons of projections are quadratic).
ObsBSeq(obs)  == [k \in DOMAIN obs.cells |-> obs.cells[k].b]
SpecBSeq(br)  == [k \in 1 .. NIds |-> Class(br[IdAt(k)])]
ObsMSeq(obs)  == [k \in DOMAIN obs.cells |-> NoB(obs.cells[k])]
SpecMSeq(st)  == [k \in 1 .. NIds |-> NoB(ProjCell(st, [id \in Ids |-> Free], IdAt(k)))]
ObsGSet(obs)  == {GStruct(obs.guards[k]) : k \in DOMAIN obs.guards}
SpecGSet(gd)  == {[g |-> g, ty |-> gd[g].ty, dy |-> gd[g].dy, kind |-> gd[g].kind] : g \in DOMAIN gd}
ObsVSet(obs)  == {[g |-> obs.guards[k].g, payload |-> obs.guards[k].payload, ident |-> obs.guards[k].ident] : k \in DOMAIN obs.guards}
SpecVSet(st, gd) == {[g |-> g, payload |-> st[<<gd[g].ty, gd[g].dy>>].payload, ident |-> st[<<gd[g].ty, gd[g].dy>>].ident] : g \in DOMAIN gd}
\* the property predicate of C09 evaluated on the observation itself
ObsTyped(obs)  == \A k \in DOMAIN obs.cells : obs.cells[k].here => obs.cells[k].tid = obs.cells[k].ty

TrCall ==
  /\ Is("call")
  /\ UNCHANGED <<par, confs>>
  /\ IF dead THEN UNCHANGED <<store, borrow, guards, dropped, returned, nextIdent, call, outcome, iters, dead, ok>>
     ELSE IF ~Pre(Ev)
     THEN /\ dead' = TRUE /\ ok' = [ok EXCEPT !.tool = FALSE]
          /\ UNCHANGED <<store, borrow, guards, dropped, returned, nextIdent, call, outcome, iters>>
     ELSE
       /\ Dispatch(Ev)
       /\ LET e == Ev
              outOK == outcome' = e.out
              \* a presence query is a pure map query (C09): it borrows nothing, so no outcome of it is C08's business
              c08side == (IsBP(outcome') \/ IsBP(e.out) \/ e.op \in GuardOps \cup IterOps) /\ e.op \notin {"has_value", "has_value_raw"}
              \* "the try_/Option forms return None only when the resource is absent" is part of
              \* C08's statement (and "fetches agree with the map" of C09's): a PRESENT resource
              \* reported absent by a well-typed fetch clears the flags of both properties
              missing == \/ /\ e.op \in FetchOps /\ e.targ = e.ty /\ store[<<e.ty, e.dy>>] # Absent
                            /\ (e.out.k = "none" \/ (e.out.k = "panic" /\ e.out.why = "absent"))
                         \/ /\ e.op \in {"system_data", "meta_iter", "meta_iter_mut"}
                            /\ \/ (e.out.k = "panic" /\ e.out.why = "absent" /\ outcome' # e.out)
                               \/ /\ e.out.k = "guards" /\ outcome'.k = "guards" /\ Len(e.out.vs) = Len(outcome'.vs)
                                  /\ \E i \in DOMAIN e.out.vs : e.out.vs[i] = NoVal /\ outcome'.vs[i] # NoVal
              a1 == outOK \/ ~(c08side \/ missing)
              a2 == outOK \/ c08side
              a3 == /\ ObsBSeq(e.obs) = SpecBSeq(borrow')
                    /\ ObsGSet(e.obs) = SpecGSet(guards') /\ Len(e.obs.guards) = Cardinality(DOMAIN guards')
              a4 == /\ ObsMSeq(e.obs) = SpecMSeq(store')
                    /\ (ObsGSet(e.obs) = SpecGSet(guards') => ObsVSet(e.obs) = SpecVSet(store', guards'))
                    /\ ObsTyped(e.obs)
              a5 == /\ Len(e.obs.drops) = nextIdent' - 1
                    /\ {i \in DOMAIN e.obs.drops : e.obs.drops[i] # 0} = dropped' \cup returned'
                    /\ \A i \in DOMAIN e.obs.drops : e.obs.drops[i] \in {0, 1}
          IN /\ ok' = [ok EXCEPT !.c08out = @ /\ a1, !.c09out = @ /\ a2, !.c08obs = @ /\ a3,
                                 !.c09obs = @ /\ a4, !.c09drops = @ /\ a5]
             /\ dead' = ~(ok'.c08out /\ ok'.c09out /\ ok'.c08obs /\ ok'.c09obs /\ ok'.c09drops)

\* ---- multi-threaded phase --------------------------------------------------------
NoPend == <<>>
TrPar ==
  /\ Is("par")
  /\ par' = TRUE
  /\ confs' = IF dead THEN {} ELSE {[br |-> borrow, pend |-> NoPend]}
  /\ UNCHANGED <<store, borrow, guards, dropped, returned, nextIdent, call, outcome, iters, dead, ok>>

ThreadOps == FetchOps \cup {"drop", "clone"}
TPre(e) == /\ e.op \in ThreadOps /\ par
           /\ (e.op \in FetchOps => (<<e.ty, e.dy>> \in Ids /\ e.targ \in Types))
           /\ (e.op \in {"drop", "clone"} => e.g \in DOMAIN guards)
           /\ (e.op = "clone" => guards[e.g].cl)

TrTCall ==
  /\ Is("tcall")
  /\ UNCHANGED <<store, borrow, guards, dropped, returned, nextIdent, call, outcome, iters, par>>
  /\ IF dead THEN UNCHANGED <<confs, dead, ok>>
     ELSE LET e == Ev IN
       IF ~TPre(e) \/ \E c \in confs : e.t \in DOMAIN c.pend
       THEN dead' = TRUE /\ ok' = [ok EXCEPT !.tool = FALSE] /\ UNCHANGED confs
       ELSE LET id == IF e.op \in FetchOps THEN <<e.ty, e.dy>> ELSE GId(e.g)
                p == [op |-> e.op, targ |-> e.targ, id |-> id,
                      mode |-> IF e.op \in FetchOps THEN ModeOf(e.op) ELSE guards[e.g].kind,
                      g |-> IF e.op \in FetchOps THEN 0 ELSE e.g,
                      lin |-> FALSE, k |-> "", why |-> ""]
            IN /\ confs' = {[c EXCEPT !.pend = Put(@, e.t, p)] : c \in confs}
               /\ UNCHANGED <<dead, ok>>

\* the linearisation point of thread t's pending call in configuration c
LinStep(c, t) ==
  LET p == c.pend[t] IN
  IF p.op \in FetchOps
  THEN LET res == FetchRes(store, c.br, p.targ, p.id, p.mode, IF p.op \in TryOps THEN "try" ELSE "expect") IN
       [br   |-> IF res.k = "guard" THEN [c.br EXCEPT ![p.id] = Acq(@, p.mode)] ELSE c.br,
        pend |-> [c.pend EXCEPT ![t] = [@ EXCEPT !.lin = TRUE, !.k = res.k, !.why = res.why]]]
  ELSE IF p.op = "drop"
  THEN [br   |-> [c.br EXCEPT ![p.id] = Rel(@, p.mode)],
        pend |-> [c.pend EXCEPT ![t] = [@ EXCEPT !.lin = TRUE, !.k = "unit"]]]
  ELSE [br   |-> [c.br EXCEPT ![p.id] = Acq(@, "r")],
        pend |-> [c.pend EXCEPT ![t] = [@ EXCEPT !.lin = TRUE, !.k = "guard"]]]

\* closure under silent Lin steps, frontier by frontier (TLCEval: evaluate each set once)
RECURSIVE CloseF(_, _)
CloseF(front, acc) ==
  IF front = {} THEN acc
  ELSE LET nxt == TLCEval(UNION {{LinStep(c, t) : t \in {u \in DOMAIN c.pend : ~c.pend[u].lin}} : c \in front} \ acc)
       IN CloseF(nxt, TLCEval(acc \cup nxt))
Close(CS) == CloseF(CS, CS)

TrTRet ==
  /\ Is("tret")
  /\ UNCHANGED <<store, borrow, dropped, returned, nextIdent, call, outcome, iters, par>>
  /\ IF dead THEN UNCHANGED <<confs, guards, dead, ok>>
     ELSE LET e == Ev IN
       IF ~par \/ \E c \in confs : e.t \notin DOMAIN c.pend
       THEN dead' = TRUE /\ ok' = [ok EXCEPT !.tool = FALSE] /\ UNCHANGED <<confs, guards>>
       ELSE LET good == {c \in Close(confs) : c.pend[e.t].lin /\ c.pend[e.t].k = e.k /\ c.pend[e.t].why = e.why}
                p == (CHOOSE c \in confs : TRUE).pend[e.t]
            IN /\ confs' = {[c EXCEPT !.pend = Del(@, {e.t})] : c \in good}
               /\ ok' = [ok EXCEPT !.c08lin = @ /\ good # {}, !.tool = @ /\ (e.k = "guard" => e.g \notin DOMAIN guards)]
               /\ dead' = (good = {})
               /\ guards' = IF e.k = "guard" THEN Put(guards, e.g, G(p.id, IF p.op = "clone" THEN "r" ELSE p.mode, e.cl))
                            ELSE IF p.op = "drop" THEN Del(guards, {p.g})
                            ELSE guards

\* a value read through a live guard: the counter is even unless some exclusive
\* guard is in the middle of a write, i.e. unless two guards alias
TrCanary ==
  /\ Is("canary")
  /\ UNCHANGED <<store, borrow, guards, dropped, returned, nextIdent, call, outcome, iters, par, confs, dead>>
  /\ IF dead THEN UNCHANGED ok
     ELSE ok' = [ok EXCEPT !.c08can = @ /\ Ev.seen % 2 = 0, !.tool = @ /\ Ev.g \in DOMAIN guards]

\* quiescent point: all calls have returned, the main thread probes every cell
TrSync ==
  /\ Is("sync")
  /\ par' = FALSE /\ confs' = {}
  /\ UNCHANGED <<store, guards, dropped, returned, nextIdent, call, outcome, iters>>
  /\ IF dead THEN UNCHANGED <<borrow, dead, ok>>
     ELSE IF ~par \/ \E c \in confs : c.pend # NoPend
     THEN dead' = TRUE /\ ok' = [ok EXCEPT !.tool = FALSE] /\ UNCHANGED borrow
     ELSE LET good == {c \in confs : ObsBSeq(Ev.obs) = SpecBSeq(c.br)}
              gsok == ObsGSet(Ev.obs) = SpecGSet(guards) /\ Len(Ev.obs.guards) = Cardinality(DOMAIN guards)
              mok  == ObsMSeq(Ev.obs) = SpecMSeq(store) /\ (gsok => ObsVSet(Ev.obs) = SpecVSet(store, guards))
          IN /\ ok' = [ok EXCEPT !.c08obs = @ /\ good # {} /\ gsok, !.c09obs = @ /\ mok]
             /\ dead' = (good = {} \/ ~gsok \/ ~mok)
             /\ borrow' = IF good = {} THEN borrow ELSE (CHOOSE c \in good : TRUE).br

\* read storm: many threads issued ONLY shared operations (fetch, try_fetch, try_fetch_by_id, Read and
\* Option<Read> system data, Fetch::clone, MetaTable::iter, drops of the guards obtained) on the
\* resources `ids`, all guards released again.  In a state in which these resources are present and
\* no exclusive guard on them exists, FetchRes grants mode "r" whatever the shared count is, and
\* shared operations only move that count: EVERY interleaving succeeds, so no linearisation has to
\* be searched - a single failure (panic or None) is an outcome no behaviour of World.tla explains.
TrRStorm ==
  /\ Is("rstorm")
  /\ UNCHANGED <<store, borrow, guards, dropped, returned, nextIdent, call, outcome, iters, par, confs>>
  /\ IF dead THEN UNCHANGED <<dead, ok>>
     ELSE LET e == Ev
              idset == {<<e.ids[i][1], e.ids[i][2]>> : i \in DOMAIN e.ids}
          IN IF par \/ ~(idset \subseteq Ids) \/ DOMAIN guards # {}
             THEN dead' = TRUE /\ ok' = [ok EXCEPT !.tool = FALSE]
             ELSE LET quiet == \A id \in idset : store[id] # Absent /\ borrow[id] = Free
                      b1 == quiet => e.failures = 0
                      b2 == ObsBSeq(e.obs) = SpecBSeq(borrow) /\ e.obs.guards = <<>>
                      b3 == ObsMSeq(e.obs) = SpecMSeq(store)
                  IN /\ ok' = [ok EXCEPT !.c08out = @ /\ b1, !.c08obs = @ /\ b2, !.c09obs = @ /\ b3]
                     /\ dead' = ~(b1 /\ b2 /\ b3)

\* stall: some thread stayed inside ONE World operation for `secs` seconds (the harness's watchdog;
\* far beyond any scheduling delay).  Every action of World.tla ends with an outcome - a guard,
\* None or a panic - and takes a few atomic instructions in the real code: an operation that
\* neither returns nor panics is explained by no behaviour ("any fetch that would break this
\* PANICS").  The event stands in a block of its own (the stuck thread cannot be joined).
TrStall ==
  /\ Is("stall")
  /\ UNCHANGED <<store, borrow, guards, dropped, returned, nextIdent, call, outcome, iters, par, confs>>
  /\ IF dead THEN UNCHANGED <<dead, ok>> ELSE ok' = [ok EXCEPT !.c08lin = FALSE] /\ dead' = TRUE

Known == {"reset", "call", "par", "tcall", "tret", "canary", "sync", "rstorm", "stall"}
TrSkip ==
  /\ l <= Len(Rec) /\ Ev.ev \notin Known /\ l' = l + 1
  /\ UNCHANGED <<store, borrow, guards, dropped, returned, nextIdent, call, outcome, iters, dead, ok, par, confs>>

TNext == TrReset \/ TrCall \/ TrPar \/ TrTCall \/ TrTRet \/ TrCanary \/ TrSync \/ TrRStorm \/ TrStall \/ TrSkip
Spec == TInit /\ [][TNext]_vars

\* ---- per-property invariants ------------------------------------------------------
\* (the state predicates are evaluated on the spec state the real trace led to; while
\* threads run the borrow table is the one of every surviving configuration)
InvC08 == /\ ok.c08out /\ ok.c08obs /\ ok.c08lin /\ ok.c08can
          /\ (~dead /\ ~par) => P_C08
          /\ (~dead /\ par) => \A c \in confs : \A id \in Ids : ~(c.br[id].w /\ c.br[id].r > 0)
InvC09 == /\ ok.c09out /\ ok.c09obs /\ ok.c09drops
          /\ ~dead => P_C09
InvHarness == ok.tool

Accepted ==
  IF TLCGet("stats").diameter = Len(Rec) + 1 THEN TRUE
  ELSE Print(<<"REJECTED at", TLCGet("stats").diameter, Rec[TLCGet("stats").diameter]>>, FALSE)
=============================================================================
