------------------------------ MODULE PoolTrace ------------------------------
(***************************************************************************)
(* Validates recorded calls on real builders against Pool: events          *)
(*   reset, pnew {b}, paddpool {b, p}, paddbatch {o, i}, pbuild {b},       *)
(*   pran {b, pool}  - the probe system of the dispatcher made from        *)
(*                     builder b ran on a worker of user pool `pool`       *)
(*                     (0: on a pool the library created).                 *)
(* Every call must be the Pool action of the same name; every pran must    *)
(* report the pool the specification says that dispatcher uses now.        *)
(***************************************************************************)
EXTENDS Naturals, FiniteSets, Sequences, TLC, Json, IOUtils
Rec == ndJsonDeserialize(IOEnv.TRACE)
NB == 8
NP == 8
MaxSteps == 1000000
VARIABLES l, bst, h, cell, parent, lastAdd, hist, ok
P == INSTANCE Pool
vars == <<l, bst, h, cell, parent, lastAdd, hist, ok>>
Ev == Rec[l]
Is(e) == l <= Len(Rec) /\ Ev.ev = e /\ l' = l + 1
Init == l = 1 /\ P!Init /\ ok = TRUE
TrReset == /\ Is("reset")
           /\ bst' = [b \in P!B |-> "none"] /\ h' = [b \in P!B |-> b] /\ cell' = [b \in P!B |-> P!Empty]
           /\ parent' = [b \in P!B |-> 0] /\ lastAdd' = [b \in P!B |-> 0] /\ hist' = <<>> /\ UNCHANGED ok
TrNew == Is("pnew") /\ P!New(Ev.b) /\ UNCHANGED ok
TrAddPool == Is("paddpool") /\ P!AddPool(Ev.b, Ev.p) /\ UNCHANGED ok
TrAddBatch == Is("paddbatch") /\ P!AddBatch(Ev.o, Ev.i) /\ UNCHANGED ok
TrBuild == Is("pbuild") /\ P!Build(Ev.b) /\ UNCHANGED ok
TrRan == /\ Is("pran")
         /\ ok' = (ok /\ Ev.b \in P!Dispatchers /\ Ev.pool = P!PoolOf(Ev.b))
         /\ UNCHANGED <<bst, h, cell, parent, lastAdd, hist>>
TrSkip == /\ l <= Len(Rec) /\ Ev.ev \notin {"reset", "pnew", "paddpool", "paddbatch", "pbuild", "pran"} /\ l' = l + 1
          /\ UNCHANGED <<bst, h, cell, parent, lastAdd, hist, ok>>
Next == TrReset \/ TrNew \/ TrAddPool \/ TrAddBatch \/ TrBuild \/ TrRan \/ TrSkip
Spec == Init /\ [][Next]_vars
\* C11 (the pool half): every dispatcher ran where the specification says
InvC11pool == ok
InvHasPool == P!InvHasPool
InvChildFollows == P!InvChildFollows
InvLastWins == P!InvLastWins
Accepted ==
  IF TLCGet("stats").diameter = Len(Rec) + 1 THEN TRUE
  ELSE Print(<<"REJECTED at", TLCGet("stats").diameter, Rec[TLCGet("stats").diameter]>>, FALSE)
=============================================================================
