-------------------------- MODULE RendezvousTrace --------------------------
(***************************************************************************)
(* Validates recorded runs of rendezvous systems on the real dispatcher    *)
(* against Rendezvous: events rvbegin {w, pool, ctx, stages, width},       *)
(* rvin {s}, rvout {s}, rvend {stalled}.  Every rvin / rvout must be a     *)
(* step of Rendezvous (Enter / Leave); a run that ends stalled although    *)
(* the pool has at least Width idle threads contradicts Terminates.        *)
(***************************************************************************)
EXTENDS Naturals, FiniteSets, Sequences, TLC, Json, IOUtils
Rec == ndJsonDeserialize(IOEnv.TRACE)
VARIABLES l, st, cfg, peak, ok
vars == <<l, st, cfg, peak, ok>>
Ev == Rec[l]
Is(e) == l <= Len(Rec) /\ Ev.ev = e /\ l' = l + 1
Inside == {g \in DOMAIN st : st[g] = "in"}
Init == l = 1 /\ st = <<>> /\ cfg = [w |-> 0, pool |-> 0] /\ peak = 0 /\ ok = [c11 |-> TRUE, shape |-> TRUE]
TrBegin == /\ Is("rvbegin") /\ st' = [g \in 1..Ev.w |-> "idle"] /\ cfg' = [w |-> Ev.w, pool |-> Ev.pool] /\ peak' = 0
           \* the plan itself must be one stage of w groups (C10 is what guarantees it; otherwise inconclusive)
           /\ ok' = [ok EXCEPT !.shape = @ /\ Ev.stages = 1 /\ Ev.width = Ev.w]
\* Rendezvous!Enter
TrIn == /\ Is("rvin") /\ Ev.s \in DOMAIN st
        /\ st' = [st EXCEPT ![Ev.s] = "in"]
        /\ peak' = IF Cardinality(Inside) + 1 > peak THEN Cardinality(Inside) + 1 ELSE peak
        /\ ok' = [ok EXCEPT !.c11 = @ /\ st[Ev.s] = "idle"]
        /\ UNCHANGED cfg
\* Rendezvous!Leave: only when no sibling is still idle (or the harness's timeout fired: stalled run)
TrOut == /\ Is("rvout") /\ Ev.s \in DOMAIN st
         /\ st' = [st EXCEPT ![Ev.s] = "done"]
         /\ ok' = [ok EXCEPT !.c11 = @ /\ st[Ev.s] = "in" /\ (Ev.timedout \/ \A h \in DOMAIN st : st[h] # "idle")]
         /\ UNCHANGED <<cfg, peak>>
\* the dispatch returned
TrEnd == /\ Is("rvend")
         /\ ok' = [ok EXCEPT !.c11 = @ /\ (cfg.pool >= cfg.w => (~Ev.stalled /\ peak = cfg.w /\ \A g \in DOMAIN st : st[g] = "done"))]
         /\ UNCHANGED <<st, cfg, peak>>
TrSkip == /\ l <= Len(Rec) /\ Ev.ev \notin {"rvbegin", "rvin", "rvout", "rvend"} /\ l' = l + 1 /\ UNCHANGED <<st, cfg, peak, ok>>
Next == TrBegin \/ TrIn \/ TrOut \/ TrEnd \/ TrSkip
Spec == Init /\ [][Next]_vars
InvC11 == ok.c11
InvShape == ok.shape
Accepted ==
  IF TLCGet("stats").diameter = Len(Rec) + 1 THEN TRUE
  ELSE Print(<<"REJECTED at", TLCGet("stats").diameter, Rec[TLCGet("stats").diameter]>>, FALSE)
=============================================================================
