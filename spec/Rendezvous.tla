---------------------------- MODULE Rendezvous ----------------------------
(***************************************************************************)
(* C11: the groups of one stage really run in parallel.                    *)
(*                                                                         *)
(* Stage::execute hands every group to the pool (par_iter_mut().for_each). *)
(* Width groups, one RENDEZVOUS system each: a system that, inside run,    *)
(* waits until every sibling has started.  With at least Width idle pool   *)
(* threads the dispatch terminates; with fewer it cannot (negative         *)
(* control: TLC must report the deadlock).                                 *)
(***************************************************************************)
EXTENDS Naturals, FiniteSets

CONSTANTS Width,   \* groups of the stage
          W        \* idle pool threads

VARIABLES st       \* group -> "idle" | "in" | "done"
Groups == 1..Width
Inside == {g \in Groups : st[g] = "in"}

Init == st = [g \in Groups |-> "idle"]
\* a free worker takes the group: the system is now inside run
Enter(g) == st[g] = "idle" /\ Cardinality(Inside) < W /\ st' = [st EXCEPT ![g] = "in"]
\* the rendezvous system returns only when every sibling has started
Leave(g) == st[g] = "in" /\ (\A h \in Groups : st[h] # "idle") /\ st' = [st EXCEPT ![g] = "done"]
Next == \E g \in Groups : Enter(g) \/ Leave(g)
Done == \A g \in Groups : st[g] = "done"
Spec == Init /\ [][Next]_st /\ WF_st(Next)

\* C11 as a liveness property of the design
Terminates == <>Done
\* at the moment the first system leaves, all Width systems were inside run together
AllTogether == [][ (\E g \in Groups : st[g] = "in" /\ st'[g] = "done" /\ \A h \in Groups : st[h] # "done")
                     => Cardinality(Inside) = Width ]_st
\* for the negative control (W < Width): the only terminal states are complete ones - must FAIL
NoStall == (\A g \in Groups : ~ENABLED Enter(g) /\ ~ENABLED Leave(g)) => Done
=============================================================================
