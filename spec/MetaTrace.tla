----------------------------- MODULE MetaTrace -----------------------------
(***************************************************************************)
(* Trace specification for C17: validates ndjson histories recorded from   *)
(* the REAL shred::MetaTable / World (harness/src/bin/meta.rs).            *)
(*                                                                         *)
(* Every event is one public call with its observed outcome.  The state of *)
(* Meta (table, presence, live guards, live iterators, first-registration  *)
(* history) is driven by the logged calls; the OBSERVED outcome is turned  *)
(* into an outcome value of the model (tag = the type tag the trait object *)
(* reported about itself, obj = the cell whose recorded address equals the *)
(* address the trait object reported about itself) and judged by the       *)
(* property predicates GetOK / NextOK of Meta; a disagreement clears a     *)
(* flag.  The trace is always consumed to the end.                         *)
(*                                                                         *)
(* Values: every implementing type t has its own `bump` (v -> (3v+t) mod   *)
(* 1009); get_mut and iter_mut items are bumped through the trait object,  *)
(* typed fetches read the value back: all observations must agree with the *)
(* value TLC computes (same object, methods of the concrete type).         *)
(* Addresses are renumbered densely by the harness (TLC ints are 32 bit).  *)
(***************************************************************************)
EXTENDS Meta, TLC, Json, IOUtils

Rec == ndJsonDeserialize(IOEnv.TRACE)

VARIABLES
  l,      \* next event
  addr,   \* [cell -> address id]   (world cells and loose objects <<t, 2>>)
  val,    \* [cell -> value]
  fl      \* flags, one per aspect of the property

tvars == <<vars, l, addr, val, fl>>

E == Rec[l]
Is(e) == l <= Len(Rec) /\ E.ev = e /\ l' = l + 1

FlInit == [reg |-> TRUE, get |-> TRUE, next |-> TRUE, bor |-> TRUE, same |-> TRUE, env |-> TRUE]
Bump(t, v) == (3 * v + t) % 1009

TInit ==
  /\ Init
  /\ l = 1 /\ addr = <<>> /\ val = <<>> /\ fl = FlInit

Same == UNCHANGED <<ok, hist>>

TrReset ==
  /\ Is("reset")
  /\ tab' = EmptyTab /\ present' = {} /\ guards' = <<>> /\ iters' = <<>> /\ first' = <<>>
  /\ addr' = [c \in {<<t, Loose>> : t \in Types} |-> E.loose[c[1]]]
  /\ val' = [c \in {<<t, Loose>> : t \in Types} |-> E.lv[c[1]]]
  /\ fl' = FlInit
  /\ Same

\* (histories over hundreds of types are recorded without the probed borrow table: a projection)
BorOK(pr, gs) == ("b" \in DOMAIN E) => E.b = View(pr, gs)

TrReg ==
  /\ Is("reg")
  /\ tab' = RegisterEff(tab, E.t)
  /\ first' = IF E.t \in Range(first) THEN first ELSE Append(first, E.t)
  \* register is a META-TABLE call: Meta's Register always succeeds, any other outcome (a panic of
  \* whatever kind) is a C17 flag.  Only the harness discipline "no live iterator" is environment.
  /\ fl' = [fl EXCEPT !.reg = @ /\ E.out = "ok", !.env = @ /\ DOMAIN iters = {}]
  /\ UNCHANGED <<present, guards, iters, addr, val>> /\ Same

TrIns ==
  /\ Is("ins")
  /\ LET c == <<E.t, E.d>> IN
     /\ present' = present \cup {c}
     /\ addr' = Ext(addr, c, E.a)
     /\ val' = Ext(val, c, E.v)
     /\ fl' = [fl EXCEPT !.env = @ /\ Quiet /\ BorOK(present', guards)]
  /\ UNCHANGED <<tab, guards, iters, first>> /\ Same

TrRem ==
  /\ Is("rem")
  /\ LET c == <<E.t, E.d>> IN
     /\ present' = present \ {c}
     /\ fl' = [fl EXCEPT !.env = @ /\ Quiet /\ BorOK(present', guards)]
  /\ UNCHANGED <<tab, guards, iters, first, addr, val>> /\ Same

\* other fetches (World's own behaviour: an unexpected outcome is an
\* environment failure, C08's business, not a C17 verdict) ...
TrFetch ==
  /\ Is("fetch")
  /\ LET c == <<E.t, E.d>>
         exp == IF c \notin present THEN "none" ELSE IF CanBorrow(guards, c, E.k) THEN "ok" ELSE "panic_borrow"
     IN /\ guards' = IF E.out = "ok" THEN Ext(guards, E.g, [t |-> E.t, d |-> E.d, k |-> E.k, src |-> "fetch"])
                     ELSE guards
        /\ fl' = [fl EXCEPT !.env = @ /\ E.out = exp /\ BorOK(present, guards'),
                            \* ... but the value read through the typed guard is C17's: it must
                            \* include every bump made through trait objects
                            !.same = @ /\ (E.out = "ok" /\ c \in DOMAIN val => E.v = val[c])]
  /\ UNCHANGED <<tab, present, iters, first, addr, val>> /\ Same

TrDrop ==
  /\ Is("drop")
  /\ guards' = Rem(guards, E.g)
  /\ fl' = [fl EXCEPT !.bor = @ /\ BorOK(present, guards')]
  /\ UNCHANGED <<tab, present, iters, first, addr, val>> /\ Same

\* observed outcome of get/get_mut in model terms
ObsGet(c) == Out(E.out,
                 IF E.out = "some" THEN E.tag ELSE 0,
                 IF E.out = "some" /\ c \in DOMAIN addr /\ E.aout = addr[c] /\ E.ain = addr[c] THEN c ELSE NoObj)

TrGet ==
  /\ (Is("get") \/ Is("getmut"))
  /\ LET c == <<E.t, E.d>>
         mut == E.ev = "getmut"
         obs == ObsGet(c)
         v1 == IF mut /\ E.out = "some" /\ c \in DOMAIN val THEN Bump(c[1], val[c]) ELSE IF c \in DOMAIN val THEN val[c] ELSE 0
     IN /\ fl' = [fl EXCEPT !.get = @ /\ GetOK(first, c, obs),
                            !.same = @ /\ (E.out = "some" => E.v = v1),
                            !.bor = @ /\ BorOK(present, guards)]
        /\ val' = IF c \in DOMAIN val THEN [val EXCEPT ![c] = v1] ELSE val
  /\ UNCHANGED <<tab, present, guards, iters, first, addr>> /\ Same

TrIter ==
  /\ Is("iter")
  /\ iters' = IF E.out = "ok" THEN Ext(iters, E.h, [k |-> E.k, pos |-> 1, y |-> <<>>]) ELSE iters
  \* MetaTable::iter / iter_mut only build the iterator: anything but "ok" is unexplained
  /\ fl' = [fl EXCEPT !.next = @ /\ E.out = "ok", !.bor = @ /\ BorOK(present, guards)]
  /\ UNCHANGED <<tab, present, guards, first, addr, val>> /\ Same

\* position (in first-registration order) behind the entry the property expects next
PassedPos(it) == LET i == NextPos(DeclTab(first), present, it.pos) IN (IF i = 0 THEN Len(first) ELSE i) + 1

TrNext ==
  /\ Is("next")
  /\ LET h == E.h
         known == h \in DOMAIN iters
         it == IF known THEN iters[h] ELSE [k |-> E.k, pos |-> 1, y |-> <<>>]
         c == <<E.tag, 0>>                        \* the cell the yielded object claims to be
         obs == Out(E.out,
                    IF E.out = "some" THEN E.tag ELSE 0,
                    IF E.out = "some" /\ c \in present /\ c \in DOMAIN addr /\ E.aout = addr[c] THEN c ELSE NoObj)
         v1 == IF E.out = "some" /\ c \in DOMAIN val
               THEN (IF it.k = "w" THEN Bump(c[1], val[c]) ELSE val[c]) ELSE 0
     IN /\ guards' = IF E.out = "some" THEN Ext(guards, E.g, [t |-> E.tag, d |-> 0, k |-> it.k, src |-> "item"])
                     ELSE guards
        /\ fl' = [fl EXCEPT !.next = @ /\ known /\ NextOK(first, present, guards, it, obs),
                            !.same = @ /\ (E.out = "some" => E.v = v1),
                            \* shared (iter) resp. exclusive (iter_mut) borrow held while the item lives
                            !.bor = @ /\ BorOK(present, guards')]
        /\ val' = IF E.out = "some" /\ c \in DOMAIN val THEN [val EXCEPT ![c] = v1] ELSE val
        \* a panicking next() has passed the entry it panicked on (the one the property expects
        \* next); the same iterator stays alive and is pulled again later in the history
        /\ iters' = IF E.out = "some"
                    THEN Ext(iters, h, [k |-> it.k, pos |-> PassedPos(it), y |-> Append(it.y, E.tag)])
                    ELSE IF E.out = "none" THEN iters
                    ELSE LET exp == Expected(first, present)  n == Len(it.y) + 1 IN
                         Ext(iters, h, [k |-> it.k, pos |-> PassedPos(it),
                                        y |-> IF n <= Len(exp) THEN Append(it.y, exp[n]) ELSE it.y])
  /\ UNCHANGED <<tab, present, first, addr>> /\ Same

\* the iterator consumed through a std adapter (nth / skip / step_by / take / last / count): the
\* items handed out must be the sub-sequence of plain iteration the adapter selects (WalkOK), each
\* the very object of its own type; items handed out stay borrowed, dropped ones do not
TrWalk ==
  /\ Is("walk")
  /\ LET h == E.h
         known == h \in DOMAIN iters
         it == IF known THEN iters[h] ELSE [k |-> E.k, pos |-> 1, y |-> <<>>]
         w == Walk(DeclTab(first), present, guards, it, PlanOf(E.how, E.n, E.m), <<>>)
         cell(i) == <<E.items[i].tag, 0>>
         genuine(i) == cell(i) \in present /\ cell(i) \in DOMAIN addr /\ E.items[i].aout = addr[cell(i)]
         obs == [i \in DOMAIN E.items |-> Out("some", E.items[i].tag, IF genuine(i) THEN cell(i) ELSE NoObj)]
         exp(i) == IF it.k = "w" THEN Bump(cell(i)[1], val[cell(i)]) ELSE val[cell(i)]
         gs2 == [g \in DOMAIN guards \cup {E.items[i].g : i \in DOMAIN E.items} |->
                   IF \E i \in DOMAIN E.items : E.items[i].g = g
                   THEN LET i == CHOOSE i \in DOMAIN E.items : E.items[i].g = g IN
                        [t |-> E.items[i].tag, d |-> 0, k |-> it.k, src |-> "item"]
                   ELSE guards[g]]
     IN /\ fl' = [fl EXCEPT !.next = @ /\ known /\ WalkOK(first, present, guards, it, E.how, E.n, E.m, obs, E.end)
                                      /\ (E.how = "count" /\ E.end = "none" => E.cnt = Len(w.items)),
                            !.same = @ /\ \A i \in DOMAIN E.items : (cell(i) \in DOMAIN val => E.items[i].v = exp(i)),
                            !.bor = @ /\ BorOK(present, gs2)]
        /\ guards' = gs2
        /\ val' = [c \in DOMAIN val |-> IF it.k = "w" /\ \E i \in DOMAIN E.items : cell(i) = c
                                         THEN Bump(c[1], val[c]) ELSE val[c]]
        /\ iters' = Ext(iters, h, w.it)
  /\ UNCHANGED <<tab, present, first, addr>> /\ Same

\* Iterator::size_hint
TrHint ==
  /\ Is("hint")
  /\ LET known == E.h \in DOMAIN iters IN
     fl' = [fl EXCEPT !.next = @ /\ known /\ HintOK(first, present, iters[E.h], E.lo, E.hi, E.hashi)]
  /\ UNCHANGED <<vars, addr, val>>

TrIdrop ==
  /\ Is("idrop")
  /\ iters' = Rem(iters, E.h)
  /\ fl' = [fl EXCEPT !.bor = @ /\ BorOK(present, guards)]
  /\ UNCHANGED <<tab, present, guards, first, addr, val>> /\ Same

Known == {"reset", "reg", "ins", "rem", "fetch", "drop", "get", "getmut", "iter", "next", "idrop", "walk", "hint"}
TrSkip ==
  /\ l <= Len(Rec) /\ E.ev \notin Known /\ l' = l + 1
  /\ UNCHANGED <<vars, addr, val, fl>>

TNext == TrReset \/ TrReg \/ TrIns \/ TrRem \/ TrFetch \/ TrDrop \/ TrGet \/ TrIter \/ TrNext \/ TrWalk \/ TrHint \/ TrIdrop \/ TrSkip
Spec == TInit /\ [][TNext]_tvars

\* ---- property invariants ------------------------------------------------------
InvC17TrReg == fl.reg          \* register: never anything but ok (Meta!Register has no other outcome)
InvC17TrGet == fl.get          \* get/get_mut: Some iff registered, same object, own vtable, bad cast => panic
InvC17TrNext == fl.next        \* iteration: first-registration order, once each, present only, borrow/cast panics
InvC17TrBorrow == fl.bor       \* probed borrow table = shared for iter items, exclusive for iter_mut items
InvC17TrVal == fl.same          \* values seen/changed through trait objects and typed guards agree
\* Only plain World calls of the harness that set the scene (insert / remove / typed fetch) and the
\* harness discipline can clear `env`; every outcome of a meta-table call (register, get, get_mut,
\* iter, iter_mut, next, drops of their items) that Meta cannot explain clears a C17 flag above.
InvEnv == fl.env

Accepted ==
  IF TLCGet("stats").diameter = Len(Rec) + 1 THEN TRUE
  ELSE Print(<<"REJECTED at", TLCGet("stats").diameter, Rec[TLCGet("stats").diameter]>>, FALSE)
=============================================================================
