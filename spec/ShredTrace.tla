----------------------------- MODULE ShredTrace -----------------------------
(***************************************************************************)
(* Trace specification: validates ndjson traces recorded from the REAL     *)
(* shred library (harness/) against the property definitions of PlanProps  *)
(* and ExecProps.                                                          *)
(*                                                                         *)
(* Registration part.  Placement is LOGGED (observed through the           *)
(* verif-hooks accessor on the executed list), not recomputed: every `add` *)
(* must be an append-shaped step of the permissive planner, and the        *)
(* property predicates are then evaluated by TLC in the resulting state.   *)
(*                                                                         *)
(* Execution part.  `fetch` / `finish` / `panic` events of self-           *)
(* identifying harness systems (logged while they hold their guards) move  *)
(* the systems through idle -> run -> done|pan; the spec recomputes every  *)
(* value a system writes from the values of what it declared to read.      *)
(*                                                                         *)
(* A structural impossibility sets `dead` (InvStruct, property C04); every *)
(* other disagreement clears one flag of `ok`, named after its property.   *)
(* The trace is always consumed to the end (POSTCONDITION Accepted); an    *)
(* unconsumed trace is a tool error, never a verdict.                      *)
(***************************************************************************)
EXTENDS ExecProps, TLC, Json, IOUtils

Rec == ndJsonDeserialize(IOEnv.TRACE)

VARIABLES
  l,      \* next event
  dead,   \* structural failure since the last reset
  lay,    \* builder -> layout
  names,  \* builder -> (name -> gid)
  epoch,  \* builder -> effective barriers so far
  since,  \* builder -> system registered since last barrier
  tls,    \* builder -> sequence of thread-local gids
  regs,   \* gid -> registration record
  pos,    \* gid -> <<stage, group, position>> (<<0,0,0>> if not placed)
  last,   \* most recently placed gid (0: none)
  ok,     \* flags, one per (aspect of a) property
  ref,    \* C19: placements of variant 0 of the current program
  refi,   \* C19: number of placements seen in this variant
  var,    \* current variant number
  owner,  \* builder -> gid of the batch that owns it (0: top level)
  \* ---- execution part
  st,     \* gid -> "idle" | "run" | "done" | "pan"
  runs,   \* gid -> number of completed runs in the current top-level dispatch
  dsp,    \* builder -> [on, mode, th]  state of that dispatcher instance
  world,  \* resource -> value, as computed by the SPEC from the logged steps
  w0,     \* world at the beginning of the current top-level dispatch
  nset,   \* gid -> number of setup calls received in the current Dispatcher::setup
  ndis,   \* gid -> number of dispose calls received
  asy     \* async dispatcher session: [issued, started, incall, waits]

pvars == <<dead, lay, names, epoch, since, tls, regs, pos, last, ref, refi, var, owner>>
xvars == <<st, runs, dsp, world, w0, nset, ndis, asy>>
vars == <<l, pvars, ok, xvars>>

ToSet(s) == {s[i] : i \in DOMAIN s}
Ev == Rec[l]
Is(e) == l <= Len(Rec) /\ Ev.ev = e /\ l' = l + 1

AsyOff == [issued |-> 0, started |-> 0, incall |-> "none", waits |-> 0, poisoned |-> FALSE, tlbase |-> <<>>]
OkInit == [c18 |-> TRUE, c20 |-> TRUE, c19 |-> TRUE, built |-> TRUE, c10mt |-> TRUE, c12s |-> TRUE,
           c04 |-> TRUE, c05 |-> TRUE, c07 |-> TRUE, c12 |-> TRUE, c14 |-> TRUE, c13 |-> TRUE, c15 |-> TRUE, c01 |-> TRUE]

Init == /\ l = 1 /\ dead = FALSE /\ lay = <<>> /\ names = <<>> /\ epoch = <<>> /\ since = <<>>
        /\ tls = <<>> /\ regs = <<>> /\ pos = <<>> /\ last = 0 /\ ok = OkInit
        /\ ref = <<>> /\ refi = 0 /\ var = 0 /\ owner = <<>>
        /\ st = <<>> /\ runs = <<>> /\ dsp = <<>> /\ world = <<>> /\ w0 = <<>> /\ nset = <<>> /\ ndis = <<>> /\ asy = AsyOff

TrReset ==
  /\ Is("reset")
  /\ dead' = FALSE /\ lay' = <<>> /\ names' = <<>> /\ epoch' = <<>> /\ since' = <<>>
  /\ tls' = <<>> /\ regs' = <<>> /\ pos' = <<>> /\ last' = 0 /\ ok' = OkInit
  /\ ref' = IF Ev.var = 0 THEN <<>> ELSE ref
  /\ refi' = 0 /\ var' = Ev.var /\ owner' = <<>>
  /\ st' = <<>> /\ runs' = <<>> /\ dsp' = <<>> /\ world' = <<>> /\ w0' = <<>> /\ nset' = <<>> /\ ndis' = <<>> /\ asy' = AsyOff

(***************************************************************************)
(* REGISTRATION                                                            *)
(***************************************************************************)
DspOff == [on |-> FALSE, mode |-> "none", th |-> 0, auto |-> 0, isauto |-> FALSE]

TrNew ==
  /\ Is("new")
  /\ IF dead \/ Ev.b # Len(lay) + 1 THEN
        dead' = TRUE /\ UNCHANGED <<lay, names, epoch, since, tls, owner, dsp>>
     ELSE /\ lay' = Append(lay, <<>>) /\ names' = Append(names, <<>>)
          /\ epoch' = Append(epoch, 0) /\ since' = Append(since, FALSE) /\ tls' = Append(tls, <<>>)
          /\ owner' = Append(owner, 0) /\ dsp' = Append(dsp, DspOff)
          /\ UNCHANGED dead
  /\ UNCHANGED <<regs, pos, last, ok, ref, refi, var, st, runs, world, w0, nset, ndis, asy>>

Members(b) == {x \in DOMAIN regs : regs[x].b = b /\ regs[x].kind # "rejected"}
\* hk: the harness system logs its own setup / dispose hook (FALSE: a system that leaves the library's PROVIDED
\* System::setup / dispose in place - no hook event, but what its accessor provides must exist after setup)
Hk(e) == IF "hooks" \in DOMAIN e THEN e.hooks ELSE TRUE
NoReg(e, kind) == [b |-> e.b, r |-> {}, w |-> {}, d |-> <<>>, t |-> 0, e |-> 0, nm |-> <<>>,
                   kind |-> kind, inner |-> 0, n |-> 0, rs |-> <<>>, ws |-> <<>>, hk |-> TRUE]
\* sequences actually read / written by the harness system, ascending (as logged)
ReadSeq(e) == SelectSeq(e.r, LAMBDA x : x \notin ToSet(e.w))

Rejected(e) ==
  /\ regs' = Append(regs, NoReg(e, "rejected")) /\ pos' = Append(pos, <<0, 0, 0>>)
  /\ dead' = (e.nnew # 0)    \* a rejected call that nevertheless inserted is no longer trackable
  /\ UNCHANGED <<lay, names, epoch, since, tls, last, ref, refi, var, owner>>

\* add / add_batch
TrAdd ==
  /\ (Is("add") \/ Is("batch"))
  /\ UNCHANGED xvars
  /\ IF dead THEN UNCHANGED <<pvars, ok>>
     ELSE
     LET e == Ev
         b == e.b
         id == e.id
         isBatch == e.ev = "batch"
     IN
     IF id # Len(regs) + 1 \/ b \notin DOMAIN lay \/ (isBatch /\ e.inner \notin DOMAIN lay) THEN
        dead' = TRUE /\ UNCHANGED <<lay, names, epoch, since, tls, regs, pos, last, ok, ref, refi, var, owner>>
     ELSE
     LET unknown == {i \in DOMAIN e.deps : e.deps[i] \notin DOMAIN names[b]}
         dup == e.name # <<>> /\ e.name \in DOMAIN names[b]
         ill == unknown # {} \/ dup
     IN
     IF ill THEN
        \* C18: must panic, quoting an offending name, and change nothing
        /\ ok' = [ok EXCEPT !.c18 = @ /\ e.nnew = 0 /\ e.place = <<>> /\
                     ( \/ (e.out = "unknown" /\ \E i \in unknown : e.quoted = e.deps[i])
                       \/ (e.out = "dup" /\ dup /\ e.quoted = e.name) )]
        /\ Rejected(e)
     ELSE IF e.out # "ok" THEN
        \* C18: a well-formed call must not panic
        /\ ok' = [ok EXCEPT !.c18 = FALSE]
        /\ Rejected(e)
     ELSE IF ~(e.nnew = 1 /\ e.stable /\ PlaceOK(lay[b], e.place)) THEN
        \* C04: the system is not (exactly once, appended) in the executed list
        dead' = TRUE /\ UNCHANGED <<lay, names, epoch, since, tls, regs, pos, last, ok, ref, refi, var, owner>>
     ELSE
        LET deps == [i \in DOMAIN e.deps |-> names[b][e.deps[i]]]
            inner == IF isBatch THEN Members(e.inner) ELSE {}
            \* C07: access of a batch = controller's data + everything inside, at any depth
            \* (inner batches already carry their union)
            R == ToSet(e.r) \cup UNION {regs[x].r : x \in inner}
            W == ToSet(e.w) \cup UNION {regs[x].w : x \in inner}
        IN
        /\ regs' = Append(regs, [b |-> b, r |-> R, w |-> W, d |-> deps, t |-> e.t, e |-> epoch[b],
                                  nm |-> e.name, kind |-> IF isBatch THEN "batch" ELSE "plain",
                                  inner |-> IF isBatch THEN e.inner ELSE 0,
                                  n |-> IF isBatch THEN e.n ELSE 0,
                                  rs |-> ReadSeq(e), ws |-> e.w, hk |-> Hk(e)])
        /\ pos' = Append(pos, e.place)
        /\ lay' = [lay EXCEPT ![b] = Placed1(@, e.place, id)]
        /\ names' = IF e.name = <<>> THEN names ELSE [names EXCEPT ![b] = (e.name :> id) @@ @]
        /\ since' = [since EXCEPT ![b] = TRUE]
        /\ last' = id
        /\ refi' = refi + 1
        /\ ref' = IF var = 0 THEN Append(ref, e.place) ELSE ref
        /\ owner' = IF isBatch THEN [owner EXCEPT ![e.inner] = id] ELSE owner
        /\ ok' = [ok EXCEPT !.c19 = @ /\ (var = 0 \/ (refi + 1 <= Len(ref) /\ ref[refi + 1] = e.place))]
        /\ UNCHANGED <<dead, epoch, tls, var>>

TrBarrier ==
  /\ Is("barrier")
  /\ IF dead \/ Ev.b \notin DOMAIN lay THEN UNCHANGED <<epoch, since>>
     ELSE /\ epoch' = [epoch EXCEPT ![Ev.b] = IF since[Ev.b] THEN @ + 1 ELSE @]
          /\ since' = [since EXCEPT ![Ev.b] = FALSE]
  /\ UNCHANGED <<dead, lay, names, tls, regs, pos, last, ok, ref, refi, var, owner, xvars>>

TrTl ==
  /\ Is("tl")
  /\ IF dead THEN UNCHANGED <<dead, tls, regs, pos, ok>>
     ELSE LET e == Ev  b == e.b IN
          IF e.id # Len(regs) + 1 \/ b \notin DOMAIN lay \/ e.out # "ok" \/ e.nnew # 1 \/ e.idx = <<>> THEN
             dead' = TRUE /\ UNCHANGED <<tls, regs, pos, ok>>
          ELSE /\ regs' = Append(regs, [NoReg(e, "tl") EXCEPT !.r = ToSet(e.r), !.w = ToSet(e.w),
                                                              !.rs = ReadSeq(e), !.ws = e.w])
               /\ pos' = Append(pos, <<0, 0, 0>>)
               /\ tls' = [tls EXCEPT ![b] = Append(@, e.id)]
               \* C12 (static half): thread-local systems are kept in registration order
               /\ ok' = [ok EXCEPT !.c12s = @ /\ e.idx[1] = Len(tls[b]) + 1]
               /\ UNCHANGED dead
  /\ UNCHANGED <<lay, names, epoch, since, last, ref, refi, var, owner, xvars>>

\* a whole dispatcher registered as a thread-local system of another one (impl RunNow for Dispatcher)
TrNest ==
  /\ Is("nest")
  /\ IF dead THEN UNCHANGED <<dead, tls, regs, pos, ok, owner>>
     ELSE LET e == Ev  b == e.b IN
          IF e.id # Len(regs) + 1 \/ b \notin DOMAIN lay \/ e.inner \notin DOMAIN lay \/ e.out # "ok" \/ e.nnew # 1 \/ e.idx = <<>> THEN
             dead' = TRUE /\ UNCHANGED <<tls, regs, pos, ok, owner>>
          ELSE LET inner == Members(e.inner) IN
               /\ regs' = Append(regs, [NoReg(e, "nest") EXCEPT !.r = UNION {regs[x].r : x \in inner},
                                                               !.w = UNION {regs[x].w : x \in inner},
                                                               !.inner = e.inner, !.n = 1])
               /\ pos' = Append(pos, <<0, 0, 0>>)
               /\ tls' = [tls EXCEPT ![b] = Append(@, e.id)]
               /\ owner' = [owner EXCEPT ![e.inner] = e.id]
               /\ ok' = [ok EXCEPT !.c12s = @ /\ e.idx[1] = Len(tls[b]) + 1]
               /\ UNCHANGED dead
  /\ UNCHANGED <<lay, names, epoch, since, last, ref, refi, var, xvars>>

NameOf(b) == [s \in Placed(lay[b]) |-> regs[s].nm]

TrPrint ==
  /\ Is("print")
  /\ IF dead THEN UNCHANGED ok
     ELSE ok' = [ok EXCEPT !.c20 = @ /\ Ev.out = "ok" /\ C20Printed(Ev.text, lay[Ev.b], NameOf(Ev.b))]
  /\ UNCHANGED <<pvars, xvars>>

TrBuilt ==
  /\ Is("built")
  /\ IF dead THEN UNCHANGED ok
     ELSE LET e == Ev IN
          ok' = [ok EXCEPT
                   \* C04 / C20: the built dispatcher executes exactly the builder's plan
                   !.built = @ /\ e.out = "ok" /\ e.lay = lay[e.b] /\ e.tl = tls[e.b],
                   \* C18: build / build_async of whatever has been registered does not panic
                   !.c18 = @ /\ e.out = "ok",
                   \* C10: reported maximum thread count = width of the widest stage
                   !.c10mt = @ /\ (e.parallel => e.maxthreads = MaxWidth(lay[e.b])),
                   \* C19: same number of placements as variant 0
                   !.c19 = @ /\ (var = 0 \/ refi = Len(ref))]
  /\ UNCHANGED <<pvars, xvars>>

\* builder queries (is_empty / num_systems / has_system / contains): functions of the name map
TrQuery ==
  /\ Is("query")
  /\ IF dead \/ Ev.b \notin DOMAIN names THEN UNCHANGED ok
     ELSE LET e == Ev  nm == names[e.b] IN
          ok' = [ok EXCEPT !.c18 = @ /\ e.num = Cardinality(DOMAIN nm) /\ (e.empty <=> DOMAIN nm = {})
                                   /\ \A i \in DOMAIN e.probe : (e.has[i] <=> e.probe[i] \in DOMAIN nm)
                                                               /\ (e.contains[i] <=> e.probe[i] \in DOMAIN nm)]
  /\ UNCHANGED <<pvars, xvars>>

\* try_into_sendable: succeeds exactly when there is no thread-local system, and in both
\* outcomes the plan is the builder's (C12, last sentence)
TrSendable ==
  /\ Is("sendable")
  /\ IF dead THEN UNCHANGED ok
     ELSE LET e == Ev IN
          ok' = [ok EXCEPT !.c12s = @ /\ (e.ok <=> tls[e.b] = <<>>) /\ e.lay = lay[e.b] /\ e.tl = tls[e.b]]
  /\ UNCHANGED <<pvars, xvars>>

(***************************************************************************)
(* EXECUTION                                                               *)
(***************************************************************************)
IsTop(b) == owner[b] = 0
Sys == DOMAIN regs

\* number of times system s must run in one top-level call of the given mode
RECURSIVE Expected(_, _)
Expected(s, mode) ==
  LET b == regs[s].b IN
  IF regs[s].kind = "rejected" THEN 0
  ELSE IF IsTop(b) THEN
     IF regs[s].kind \in {"tl", "nest"} THEN (IF mode \in {"disp", "tlonly", "async"} THEN 1 ELSE 0)
     ELSE (IF mode = "tlonly" THEN 0 ELSE 1)
  ELSE regs[owner[b]].n * Expected(owner[b], mode)   \* inner dispatches are full dispatches

\* the sequential reference execution (C05): dispatch_seq order of the plan, batches expanded
RECURSIVE RunList(_, _), RunOne(_, _), Iter(_, _, _)
RunBuilder(b, mode, wd) ==
  RunList((IF mode = "tlonly" THEN <<>> ELSE FlatL(lay[b]))
          \o (IF mode \in {"disp", "tlonly", "async"} THEN tls[b] ELSE <<>>), wd)
RunList(q, wd) == IF q = <<>> THEN wd ELSE RunList(Tail(q), RunOne(Head(q), wd))
RunOne(s, wd) ==
  LET w1 == StepW(s, regs[s].rs, regs[s].ws, wd) IN
  IF regs[s].kind \in {"batch", "nest"} THEN Iter(regs[s].n, regs[s].inner, w1) ELSE w1
Iter(k, b, wd) == IF k = 0 THEN wd ELSE Iter(k - 1, b, RunBuilder(b, "disp", wd))

WorldOf(e) == [r \in ToSet(e.rid) |-> e.val[CHOOSE i \in DOMAIN e.rid : e.rid[i] = r]]

TrWorld0 ==
  /\ Is("world0")
  /\ world' = WorldOf(Ev)
  /\ UNCHANGED <<pvars, ok, st, runs, dsp, w0, nset, ndis, asy>>

TrBegin ==
  /\ Is("begin")
  /\ IF dead \/ Ev.d \notin DOMAIN lay THEN UNCHANGED <<ok, xvars>>
     ELSE LET e == Ev  b == e.d IN
          /\ dsp' = IF IsTop(b) THEN [x \in DOMAIN dsp |-> IF x = b THEN [DspOff EXCEPT !.on = TRUE, !.mode = e.mode, !.th = e.th] ELSE DspOff]
                     ELSE [dsp EXCEPT ![b] = [DspOff EXCEPT !.on = TRUE, !.mode = e.mode, !.th = e.th]]
          /\ UNCHANGED <<world, nset, ndis, asy>>
          /\ IF IsTop(b) THEN
                /\ st' = [s \in Sys |-> "idle"] /\ runs' = [s \in Sys |-> 0] /\ w0' = world
                /\ UNCHANGED ok
             ELSE
                /\ st' = [s \in Sys |-> IF s \in Members(b) THEN "idle" ELSE st[s]]
                /\ UNCHANGED <<runs, w0>>
                \* C07: an inner dispatch happens only inside the batch's own window,
                \*      and never while the previous inner dispatch is still going on
                /\ ok' = [ok EXCEPT !.c07 = @ /\ st[owner[b]] = "run" /\ ~dsp[b].on]
  /\ UNCHANGED pvars

\* A batch driven by the library's MultiDispatcher performs its inner dispatches itself:
\* no begin/end is logged.  The first fetch of a member while rounds remain is the
\* (implicit) begin of the next inner dispatch; the round ends when every member is done
\* (see Done below), the batch after the last round.  This under-approximates the batch's
\* real window, which is the sound direction.
PlainOf(b) == {x \in Members(b) : regs[x].kind \in {"plain", "batch"}}
AutoBegin(b) == ~IsTop(b) /\ dsp[b].isauto /\ ~dsp[b].on /\ dsp[b].auto > 0 /\ st[owner[b]] = "run"

TrFetch ==
  /\ Is("fetch")
  /\ IF dead \/ Ev.s \notin Sys THEN UNCHANGED <<ok, xvars>>
     ELSE LET e == Ev  s == e.s  b == regs[s].b  k == regs[s].kind
              ab == AutoBegin(b)
              \* async dispatcher: the first fetch of an ordinary top-level system that is not idle
              \* (or the very first fetch) is the beginning of the next background dispatch
              ar == IsTop(b) /\ dsp[b].mode = "async" /\ k \in {"plain", "batch"} /\ (st[s] # "idle" \/ asy.started = 0)
              st0 == IF ab THEN [x \in Sys |-> IF x \in Members(b) THEN "idle" ELSE st[x]]
                     ELSE IF ar THEN [x \in Sys |-> IF x \in PlainOf(b) THEN "idle" ELSE st[x]] ELSE st
              dsp0 == IF ab THEN [dsp EXCEPT ![b].on = TRUE, ![b].mode = "disp", ![b].th = e.th, ![b].auto = @ - 1] ELSE dsp
          IN
          /\ st' = [st0 EXCEPT ![s] = "run"]
          /\ dsp' = dsp0
          /\ UNCHANGED <<runs, world, w0, nset, ndis>>
          /\ asy' = IF ar THEN [asy EXCEPT !.started = @ + 1] ELSE asy
          /\ ok' = [ok EXCEPT
                \* C15: a background dispatch starts only if one was issued, and only when the
                \* previous one is complete; thread-local systems run only inside wait()
                !.c15 = @ /\ (ar => /\ asy.issued > asy.started
                                     /\ \A x \in PlainOf(b) : st[x] = (IF asy.started = 0 THEN "idle" ELSE "done"))
                          /\ ((dsp[b].mode = "async" /\ k \in {"tl", "nest"}) => asy.incall = "wait"),
                \* C04: a system starts only from idle, inside a dispatch of its dispatcher
                !.c04 = @ /\ st0[s] = "idle" /\ dsp0[b].on /\ Expected(s, dsp0[b].mode) > 0,
                \* C12: thread-local systems run on the thread that called dispatch - never
                \* on a pool worker -, after every other system of that dispatch, one at a
                \* time in registration order
                !.c12 = @ /\ (k \in {"tl", "nest"} =>
                               /\ e.th = dsp0[b].th
                               /\ e.th = 0
                               /\ (\A m \in Members(b) : (regs[m].kind \in {"plain", "batch"} /\ Expected(m, dsp0[b].mode) > 0)
                                                        => st0[m] = (IF dsp0[b].mode = "async" /\ asy.issued = 0 THEN "idle" ELSE "done"))
                               /\ \A i \in DOMAIN tls[b] :
                                    st0[tls[b][i]] = (IF i < (CHOOSE j \in DOMAIN tls[b] : tls[b][j] = s) THEN "done" ELSE "idle"))]
  /\ UNCHANGED pvars

\* mark s done and propagate the implicit ends of MultiDispatcher rounds / batches
RECURSIVE Done(_, _)
Done(X, s) ==
  LET st1 == [X.st EXCEPT ![s] = "done"]
      runs1 == [X.runs EXCEPT ![s] = @ + 1]
      b == regs[s].b
      X1 == [st |-> st1, runs |-> runs1, dsp |-> X.dsp]
  IN IF X.dsp[b].isauto /\ X.dsp[b].on /\ \A m \in Members(b) : st1[m] = "done"
     THEN LET X2 == [X1 EXCEPT !.dsp[b].on = FALSE]
          IN IF X.dsp[b].auto = 0 THEN Done(X2, owner[b]) ELSE X2
     ELSE X1
XNow == [st |-> st, runs |-> runs, dsp |-> dsp]

TrFinish ==
  /\ Is("finish")
  /\ IF dead \/ Ev.s \notin Sys THEN UNCHANGED <<ok, xvars>>
     ELSE LET e == Ev  s == e.s
              w1 == IF regs[s].kind \in {"batch", "nest"} THEN world ELSE StepW(s, regs[s].rs, regs[s].ws, world)
              X == Done(XNow, s) IN
          /\ st' = X.st /\ runs' = X.runs /\ dsp' = X.dsp
          /\ world' = w1
          /\ UNCHANGED <<w0, nset, ndis, asy>>
          /\ ok' = [ok EXCEPT
                !.c04 = @ /\ st[s] = "run",
                \* C05: what the system wrote is a function of what it declared to read,
                \* evaluated on the spec's world (nobody else may have touched it meanwhile)
                !.c05 = @ /\ (regs[s].kind \notin {"batch", "nest"} =>
                                 /\ e.nv = [i \in DOMAIN regs[s].ws |-> w1[regs[s].ws[i]]]
                                 \* ... and what it saw (its own state depends on nothing else) is the spec's world
                                 /\ e.seen = [i \in DOMAIN regs[s].rs |-> world[regs[s].rs[i]]]),
                \* C07: the batch ends only when its inner dispatch has ended
                !.c07 = @ /\ (regs[s].kind \in {"batch", "nest"} => ~dsp[regs[s].inner].on)]
  /\ UNCHANGED pvars

\* MultiDispatcher: the controller planned n inner dispatches
TrMulti ==
  /\ Is("multi")
  /\ IF dead \/ Ev.s \notin Sys THEN UNCHANGED <<ok, xvars>>
     ELSE LET e == Ev  s == e.s  ib == regs[s].inner
              dsp1 == [dsp EXCEPT ![ib] = [DspOff EXCEPT !.auto = e.n, !.isauto = TRUE]]
              X == IF e.n = 0 \/ Members(ib) = {} THEN Done([st |-> st, runs |-> runs, dsp |-> dsp1], s)
                   ELSE [st |-> st, runs |-> runs, dsp |-> dsp1] IN
          /\ st' = X.st /\ runs' = X.runs /\ dsp' = X.dsp
          /\ UNCHANGED <<world, w0, nset, ndis, asy>>
          \* C04: the planned number of inner dispatches is the registered one
          /\ ok' = [ok EXCEPT !.c04 = @ /\ regs[s].kind = "batch" /\ st[s] = "run" /\ e.n = regs[s].n]
  /\ UNCHANGED pvars

\* the controller of a batch used its declared data (before any inner dispatch)
TrCtl ==
  /\ Is("ctl")
  /\ IF dead \/ Ev.s \notin Sys THEN UNCHANGED <<ok, xvars>>
     ELSE LET e == Ev  s == e.s
              w1 == StepW(s, regs[s].rs, regs[s].ws, world) IN
          /\ world' = w1
          /\ UNCHANGED <<st, runs, dsp, w0, nset, ndis, asy>>
          /\ ok' = [ok EXCEPT !.c05 = @ /\ st[s] = "run" /\ e.nv = [i \in DOMAIN regs[s].ws |-> w1[regs[s].ws[i]]]
                                          /\ e.seen = [i \in DOMAIN regs[s].rs |-> world[regs[s].rs[i]]]]
  /\ UNCHANGED pvars

TrPanic ==
  /\ Is("panic")
  /\ IF dead \/ Ev.s \notin Sys THEN UNCHANGED <<ok, xvars>>
     ELSE /\ st' = [st EXCEPT ![Ev.s] = "pan"]
          /\ ok' = [ok EXCEPT !.c04 = @ /\ st[Ev.s] = "run"]
          \* a panic inside a background job of the async dispatcher: the job never hands the state back
          \* (a thread-local system panics on the caller inside wait(): that call fails, nothing is poisoned)
          /\ asy' = IF (\E b \in DOMAIN dsp : dsp[b].mode = "async") /\ regs[Ev.s].kind \notin {"tl", "nest"}
                     THEN [asy EXCEPT !.poisoned = TRUE] ELSE asy
          /\ UNCHANGED <<runs, dsp, world, w0, nset, ndis>>
  /\ UNCHANGED pvars

Pans == {s \in Sys : st[s] = "pan"}

TrEnd ==
  /\ Is("end")
  /\ IF dead \/ Ev.d \notin DOMAIN lay THEN UNCHANGED <<ok, xvars>>
     ELSE LET e == Ev  b == e.d  mode == dsp[b].mode IN
          /\ dsp' = [dsp EXCEPT ![b] = DspOff]
          /\ UNCHANGED <<st, runs, world, w0, nset, ndis, asy>>
          /\ IF ~IsTop(b) THEN
                \* C04/C07: one inner dispatch ran every system of the batch exactly once
                ok' = [ok EXCEPT !.c04 = @ /\ dsp[b].on /\ \A m \in Members(b) : st[m] = "done"]
             ELSE IF e.res = "ok" THEN
                ok' = [ok EXCEPT
                   \* C04: every system ran exactly as often as the plan says
                   !.c04 = @ /\ dsp[b].on /\ Pans = {}
                               /\ (\A s \in Sys : runs[s] = Expected(s, mode) /\ st[s] \in {"idle", "done"})
                               /\ (\A s \in Sys : Expected(s, mode) > 0 => st[s] = "done"),
                   \* C05: the world the harness reads back = the spec's world = the
                   \* sequential execution of the plan from the world before the dispatch
                   !.c05 = @ /\ WorldOf(e) = world /\ world = RunBuilder(b, mode, w0),
                   \* C14 (also for clean dispatches): nothing left borrowed
                   !.c14 = @ /\ e.free]
             ELSE
                ok' = [ok EXCEPT
                   \* C14: the payload is that of a panicking system; nothing ran twice; no
                   \* (transitive) dependent of a panicking system ran; nothing left borrowed
                   !.c14 = @ /\ e.who \in Pans /\ e.free
                               /\ (\A s \in Sys : runs[s] <= Expected(s, mode))
                               /\ (\A s \in Sys : \A p \in Pans : (regs[s].b = regs[p].b /\ DependsOn(regs, s, p)) => st[s] = "idle")
                               \* thread-local systems come after ALL ordinary systems of their dispatcher (C12): when one
                               \* of those panicked, none of them ran in this dispatch
                               /\ (\A p \in Pans : regs[p].kind \in {"plain", "batch"} => \A x \in ToSet(tls[regs[p].b]) : st[x] = "idle"),
                   \* a panic that no harness-injected panic explains: the parallel run differs from the
                   \* sequential one (C05); if it is a borrow conflict, a sibling caused it (C01)
                   !.c05 = @ /\ WorldOf(e) = world /\ Pans # {},
                   !.c01 = @ /\ (Pans # {} \/ ~e.borrowpanic),
                   \* C04: a dispatch that dies of a panic nobody injected (and that is no borrow conflict - C01's
                   \* business) has not run every system exactly once
                   !.c04 = @ /\ (Pans # {} \/ e.borrowpanic)]
  /\ UNCHANGED pvars

(***************************************************************************)
(* SETUP / DISPOSE (C13)                                                   *)
(***************************************************************************)
Live13 == {s \in Sys : regs[s].kind \in {"plain", "tl"} /\ regs[s].hk}      \* systems with observable hooks, any depth
AllAcc == UNION {regs[s].r \cup regs[s].w : s \in {x \in Sys : regs[x].kind # "rejected"}}

\* the world as it is before Dispatcher::setup (any subset of the resources pre-exists)
TrPreSetup ==
  /\ Is("presetup")
  /\ world' = WorldOf(Ev)
  /\ UNCHANGED <<pvars, ok, st, runs, dsp, w0, nset, ndis, asy>>

TrSetupCall ==
  /\ Is("setupcall")
  /\ IF dead THEN UNCHANGED <<ok, world, nset>>
     ELSE IF Ev.phase = "begin" THEN nset' = [s \in Sys |-> 0] /\ UNCHANGED <<ok, world>>
     ELSE LET e == Ev  after == WorldOf(e) IN
          /\ world' = after
          /\ UNCHANGED nset
          /\ ok' = [ok EXCEPT !.c13 = @
                /\ e.out = "ok"
                \* every system - ordinary, thread-local, inside batches at any depth - exactly once
                /\ (\A s \in Live13 : nset[s] = 1)
                \* nothing that existed was modified
                /\ (\A r \in DOMAIN world : r \in DOMAIN after /\ after[r] = world[r])
                \* everything accessed through a default-providing accessor now exists, with a default
                /\ (\A r \in AllAcc : r \in DOMAIN after)
                /\ (\A r \in DOMAIN after \ DOMAIN world : r \in AllAcc /\ after[r] \in {0, 1000 + r})]
  /\ UNCHANGED <<pvars, st, runs, dsp, w0, ndis, asy>>

TrSetup ==
  /\ Is("setup")
  /\ IF dead \/ Ev.s \notin DOMAIN nset THEN UNCHANGED nset
     ELSE nset' = [nset EXCEPT ![Ev.s] = @ + 1]
  /\ UNCHANGED <<pvars, ok, st, runs, dsp, world, w0, ndis, asy>>

TrDisposeCall ==
  /\ Is("disposecall")
  /\ IF dead THEN UNCHANGED <<ok, ndis>>
     ELSE IF Ev.phase = "begin" THEN ndis' = [s \in Sys |-> 0] /\ UNCHANGED ok
     ELSE /\ UNCHANGED ndis
          \* every system at every depth is handed to its dispose hook exactly once
          /\ ok' = [ok EXCEPT !.c13 = @ /\ Ev.out = "ok" /\ (\A s \in Live13 : ndis[s] = 1)]
  /\ UNCHANGED <<pvars, st, runs, dsp, world, w0, nset, asy>>

TrDispose ==
  /\ Is("dispose")
  /\ IF dead \/ Ev.s \notin DOMAIN ndis THEN UNCHANGED ndis
     ELSE ndis' = [ndis EXCEPT ![Ev.s] = @ + 1]
  /\ UNCHANGED <<pvars, ok, st, runs, dsp, world, w0, nset, asy>>

(***************************************************************************)
(* ASYNC DISPATCHER (C15)                                                  *)
(***************************************************************************)
\* build_async + setup: the session begins
TrABegin ==
  /\ Is("abegin")
  /\ IF dead \/ Ev.d \notin DOMAIN lay THEN UNCHANGED <<ok, xvars>>
     ELSE /\ st' = [s \in Sys |-> "idle"] /\ runs' = [s \in Sys |-> 0]
          /\ dsp' = [x \in DOMAIN dsp |-> IF x = Ev.d THEN [DspOff EXCEPT !.on = TRUE, !.mode = "async", !.th = 0] ELSE DspOff]
          /\ asy' = AsyOff /\ w0' = world
          /\ UNCHANGED <<ok, world, nset, ndis>>
  /\ UNCHANGED pvars

TopB == CHOOSE b \in DOMAIN dsp : dsp[b].mode = "async"
\* every ordinary system of every issued dispatch has finished and none is running
AllComplete == /\ (asy.started = asy.issued \/ PlainOf(TopB) = {})     \* (a plan without ordinary systems has nothing to start)
               /\ \A x \in Sys : st[x] # "run"
               /\ \A x \in PlainOf(TopB) : st[x] = (IF asy.issued = 0 THEN "idle" ELSE "done")
               /\ \A x \in PlainOf(TopB) : runs[x] = asy.issued

\* a call of the caller thread on the AsyncDispatcher: logged before (begin) and after (end)
TrACall ==
  /\ Is("acall")
  /\ IF dead \/ ~(\E b \in DOMAIN dsp : dsp[b].mode = "async") THEN UNCHANGED <<ok, xvars>>
     ELSE LET e == Ev IN
          IF e.phase = "begin" THEN
             /\ asy' = [asy EXCEPT !.incall = e.op,
                                   !.issued = IF e.op = "dispatch" THEN @ + 1 ELSE @,
                                   !.tlbase = runs]
             \* thread-local systems run once per wait(): ready again
             /\ st' = IF e.op = "wait" THEN [x \in Sys |-> IF x \in ToSet(tls[TopB]) THEN "idle" ELSE st[x]] ELSE st
             /\ nset' = IF e.op = "setup" THEN [s \in Sys |-> 0] ELSE nset
             /\ UNCHANGED <<ok, runs, dsp, world, w0, ndis>>
          ELSE
             /\ asy' = [asy EXCEPT !.incall = "none", !.waits = IF e.op = "wait" THEN @ + 1 ELSE @]
             /\ UNCHANGED <<st, runs, dsp, world, w0, nset, ndis>>
             /\ ok' = [ok EXCEPT
                  \* C12: wait() runs every thread-local system (exactly once per wait)
                  !.c12 = @ /\ ((e.op = "wait" /\ ~asy.poisoned /\ e.out = "ok") =>
                                  \A x \in ToSet(tls[TopB]) : st[x] = "done" /\ runs[x] = asy.tlbase[x] + 1),
                  \* C04: a dispatch completed by wait() has run every system once - the ordinary ones once per issued
                  \* dispatch, the thread-local ones once in this wait(), whatever the caller asked in between
                  \* (running(), world(), wait_without_tl() join the background job, they do not stand for wait())
                  !.c04 = @ /\ ((e.op = "wait" /\ ~asy.poisoned /\ e.out = "ok") =>
                                  /\ AllComplete
                                  /\ \A x \in ToSet(tls[TopB]) : runs[x] = asy.tlbase[x] + 1),
                  \* C13: AsyncDispatcher::setup reaches every system (when the setup hooks are being logged)
                  !.c13 = @ /\ ((e.op = "setup" /\ e.out = "ok" /\ e.setuplog) => \A x \in Live13 : nset[x] = 1),
                  !.c15 = @ /\
                    IF asy.poisoned THEN
                       \* a system of a background dispatch panicked: that dispatch never completes, so no
                       \* call may report completion - every taking call fails; running() fails or says true
                       (e.out = "panic" \/ (e.op = "running" /\ e.ret))
                    ELSE IF e.op = "wait" /\ e.out = "panic" THEN
                       \* wait() may only fail because a thread-local system panicked inside it
                       /\ \E x \in ToSet(tls[TopB]) : st[x] = "pan"
                       /\ AllComplete
                    ELSE e.out = "ok" /\
                  CASE e.op = "running" ->
                         \* true while anything runs; false only once everything has finished
                         /\ ((\E x \in Sys : st[x] = "run") => e.ret)
                         /\ (~e.ret => AllComplete)
                    [] e.op \in {"wait", "wait_without_tl", "world", "world_mut", "setup"} ->
                         /\ AllComplete
                         \* wait() ran every thread-local system (once per wait), the others ran none
                         /\ \A x \in ToSet(tls[TopB]) : runs[x] = asy.tlbase[x] + (IF e.op = "wait" THEN 1 ELSE 0)
                         /\ (e.op = "wait" => \A x \in ToSet(tls[TopB]) : st[x] = "done")
                    [] OTHER -> TRUE]
  /\ UNCHANGED pvars

Known == {"reset", "new", "add", "batch", "barrier", "tl", "nest", "print", "built", "sendable", "query",
          "world0", "begin", "fetch", "finish", "ctl", "multi", "panic", "end",
          "presetup", "setupcall", "setup", "disposecall", "dispose", "abegin", "acall"}
TrSkip ==
  /\ l <= Len(Rec) /\ Ev.ev \notin Known /\ l' = l + 1
  /\ UNCHANGED <<pvars, ok, xvars>>

Next == \/ TrReset \/ TrNew \/ TrAdd \/ TrBarrier \/ TrTl \/ TrNest \/ TrPrint \/ TrBuilt \/ TrSendable \/ TrQuery
        \/ TrWorld0 \/ TrBegin \/ TrFetch \/ TrFinish \/ TrCtl \/ TrMulti \/ TrPanic \/ TrEnd
        \/ TrPreSetup \/ TrSetupCall \/ TrSetup \/ TrDisposeCall \/ TrDispose \/ TrABegin \/ TrACall \/ TrSkip
Spec == Init /\ [][Next]_vars

\* ---- property invariants ----------------------------------------------------------
\* registration: incremental forms on the last placed system
LB == lay[regs[last].b]
Live == ~dead /\ last # 0
InvStruct == ~dead
InvC01s == Live => C01At(regs, LB, pos, last)
InvC02s == Live => C02At(regs, pos, last)
InvC03s == Live => C03At(regs, LB, pos, last)
InvC04s == ~dead /\ ok.built
InvC10 == (Live => C10At(regs, LB, pos, last)) /\ ok.c10mt
InvCap == Live => CapOK(LB, 5)
InvC12s == ok.c12s
InvC18 == ok.c18
InvC19 == ok.c19
InvC20 == ok.c20 /\ ok.built
\* execution
InvC01x == dead \/ (C01Run(regs, owner, st) /\ ok.c01)
InvC02x == dead \/ C02Run(regs, st)
InvC03x == dead \/ C03Run(regs, st)
InvC04x == ok.c04
InvC05 == ok.c05
InvC07 == ok.c07
InvC12 == ok.c12
InvC14 == ok.c14
InvC13 == ok.c13
InvC15 == ok.c15

Accepted ==
  IF TLCGet("stats").diameter = Len(Rec) + 1 THEN TRUE
  ELSE Print(<<"REJECTED at", TLCGet("stats").diameter, Rec[TLCGet("stats").diameter]>>, FALSE)
=============================================================================
