----------------------------- MODULE ShredTrace -----------------------------
(***************************************************************************)
(* Trace specification: validates ndjson traces recorded from the REAL     *)
(* shred library (harness/) against the property definitions of PlanProps. *)
(*                                                                         *)
(* Registration part.  Placement is LOGGED (observed through the           *)
(* verif-hooks accessor on the executed list), not recomputed: every `add` *)
(* must be an append-shaped step of the permissive planner, and the        *)
(* property predicates are then evaluated by TLC in the resulting state.   *)
(* A structural impossibility (system not in the executed list, layout     *)
(* rewritten) sets `dead` (reported by InvStruct, property C04); every     *)
(* other disagreement clears one flag of `ok`, named after its property.   *)
(* The trace is always consumed to the end (POSTCONDITION Accepted); an    *)
(* unconsumed trace is a tool error, never a verdict.                      *)
(***************************************************************************)
EXTENDS PlanProps, TLC, Json, IOUtils

Rec == ndJsonDeserialize(IOEnv.TRACE)

VARIABLES
  l,      \* next event
  dead,   \* structural failure since the last reset
  lay,    \* builder -> layout
  names,  \* builder -> (name -> gid)
  epoch,  \* builder -> effective barriers so far
  since,  \* builder -> system registered since last barrier
  tls,    \* builder -> sequence of thread-local gids
  regs,   \* gid -> registration record
  pos,    \* gid -> <<stage, group, position>> (<<0,0,0>> if not placed)
  last,   \* most recently placed gid (0: none)
  ok,     \* flags, one per (aspect of a) property
  ref,    \* C19: placements of variant 0 of the current program
  refi,   \* C19: number of placements seen in this variant
  var     \* current variant number

vars == <<l, dead, lay, names, epoch, since, tls, regs, pos, last, ok, ref, refi, var>>

ToSet(s) == {s[i] : i \in DOMAIN s}
Ev == Rec[l]
Is(e) == l <= Len(Rec) /\ Ev.ev = e /\ l' = l + 1

OkInit == [c18 |-> TRUE, c20 |-> TRUE, c19 |-> TRUE, built |-> TRUE, c10mt |-> TRUE, c12s |-> TRUE]

Init == /\ l = 1 /\ dead = FALSE /\ lay = <<>> /\ names = <<>> /\ epoch = <<>> /\ since = <<>>
        /\ tls = <<>> /\ regs = <<>> /\ pos = <<>> /\ last = 0 /\ ok = OkInit
        /\ ref = <<>> /\ refi = 0 /\ var = 0

TrReset ==
  /\ Is("reset")
  /\ dead' = FALSE /\ lay' = <<>> /\ names' = <<>> /\ epoch' = <<>> /\ since' = <<>>
  /\ tls' = <<>> /\ regs' = <<>> /\ pos' = <<>> /\ last' = 0 /\ ok' = OkInit
  /\ ref' = IF Ev.var = 0 THEN <<>> ELSE ref
  /\ refi' = 0 /\ var' = Ev.var

TrNew ==
  /\ Is("new")
  /\ IF Ev.b # Len(lay) + 1 THEN dead' = TRUE /\ UNCHANGED <<lay, names, epoch, since, tls>>
     ELSE /\ lay' = Append(lay, <<>>) /\ names' = Append(names, <<>>)
          /\ epoch' = Append(epoch, 0) /\ since' = Append(since, FALSE) /\ tls' = Append(tls, <<>>)
          /\ UNCHANGED dead
  /\ UNCHANGED <<regs, pos, last, ok, ref, refi, var>>

\* append-shaped placement of a new id in a layout
PlaceOK(ly, p) ==
  /\ Len(p) = 3
  /\ \/ p[1] = Len(ly) + 1 /\ p[2] = 1 /\ p[3] = 1
     \/ p[1] \in DOMAIN ly /\ p[2] = Len(ly[p[1]]) + 1 /\ p[3] = 1
     \/ p[1] \in DOMAIN ly /\ p[2] \in DOMAIN ly[p[1]] /\ p[3] = Len(ly[p[1]][p[2]]) + 1
Placed1(ly, p, id) ==
  IF p[1] = Len(ly) + 1 THEN Append(ly, << <<id>> >>)
  ELSE IF p[2] = Len(ly[p[1]]) + 1 THEN [ly EXCEPT ![p[1]] = Append(@, <<id>>)]
  ELSE [ly EXCEPT ![p[1]][p[2]] = Append(@, id)]

Members(b) == {x \in DOMAIN regs : regs[x].b = b /\ regs[x].kind # "rejected"}
NoReg(e, kind) == [b |-> e.b, r |-> {}, w |-> {}, d |-> <<>>, t |-> 0, e |-> 0, nm |-> <<>>,
                   kind |-> kind, inner |-> 0, n |-> 0]

\* add / add_batch
TrAdd ==
  /\ (Is("add") \/ Is("batch"))
  /\ IF dead THEN UNCHANGED <<dead, lay, names, epoch, since, tls, regs, pos, last, ok, ref, refi, var>>
     ELSE
     LET e == Ev
         b == e.b
         id == e.id
         isBatch == e.ev = "batch"
         unknown == {i \in DOMAIN e.deps : e.deps[i] \notin DOMAIN names[b]}
         dup == e.name # <<>> /\ e.name \in DOMAIN names[b]
         ill == unknown # {} \/ dup
     IN
     IF id # Len(regs) + 1 \/ b \notin DOMAIN lay THEN
        dead' = TRUE /\ UNCHANGED <<lay, names, epoch, since, tls, regs, pos, last, ok, ref, refi, var>>
     ELSE IF ill THEN
        \* C18: must panic, quoting an offending name, and change nothing
        /\ ok' = [ok EXCEPT !.c18 = @ /\ e.nnew = 0 /\ e.place = <<>> /\
                     ( \/ (e.out = "unknown" /\ \E i \in unknown : e.quoted = e.deps[i])
                       \/ (e.out = "dup" /\ dup /\ e.quoted = e.name) )]
        /\ regs' = Append(regs, NoReg(e, "rejected")) /\ pos' = Append(pos, <<0, 0, 0>>)
        /\ dead' = (e.nnew # 0)       \* a rejected call that nevertheless inserted: no longer trackable
        /\ UNCHANGED <<lay, names, epoch, since, tls, last, ref, refi, var>>
     ELSE IF e.out # "ok" THEN
        \* C18: a well-formed call must not panic
        /\ ok' = [ok EXCEPT !.c18 = FALSE]
        /\ regs' = Append(regs, NoReg(e, "rejected")) /\ pos' = Append(pos, <<0, 0, 0>>)
        /\ dead' = (e.nnew # 0)
        /\ UNCHANGED <<lay, names, epoch, since, tls, last, ref, refi, var>>
     ELSE IF ~(e.nnew = 1 /\ e.stable /\ PlaceOK(lay[b], e.place)) THEN
        \* C04: the system is not (exactly once, appended) in the executed list
        dead' = TRUE /\ UNCHANGED <<lay, names, epoch, since, tls, regs, pos, last, ok, ref, refi, var>>
     ELSE
        LET deps == [i \in DOMAIN e.deps |-> names[b][e.deps[i]]]
            inner == IF isBatch THEN Members(e.inner) ELSE {}
            R == ToSet(e.r) \cup UNION {regs[x].r : x \in inner}
            W == ToSet(e.w) \cup UNION {regs[x].w : x \in inner}
        IN
        /\ regs' = Append(regs, [b |-> b, r |-> R, w |-> W, d |-> deps, t |-> e.t, e |-> epoch[b],
                                  nm |-> e.name, kind |-> IF isBatch THEN "batch" ELSE "plain",
                                  inner |-> IF isBatch THEN e.inner ELSE 0,
                                  n |-> IF isBatch THEN e.n ELSE 0])
        /\ pos' = Append(pos, e.place)
        /\ lay' = [lay EXCEPT ![b] = Placed1(@, e.place, id)]
        /\ names' = IF e.name = <<>> THEN names ELSE [names EXCEPT ![b] = (e.name :> id) @@ @]
        /\ since' = [since EXCEPT ![b] = TRUE]
        /\ last' = id
        /\ refi' = refi + 1
        /\ ref' = IF var = 0 THEN Append(ref, e.place) ELSE ref
        /\ ok' = [ok EXCEPT !.c19 = @ /\ (var = 0 \/ (refi + 1 <= Len(ref) /\ ref[refi + 1] = e.place))]
        /\ UNCHANGED <<dead, epoch, tls, var>>

TrBarrier ==
  /\ Is("barrier")
  /\ IF dead \/ Ev.b \notin DOMAIN lay THEN UNCHANGED <<epoch, since>>
     ELSE /\ epoch' = [epoch EXCEPT ![Ev.b] = IF since[Ev.b] THEN @ + 1 ELSE @]
          /\ since' = [since EXCEPT ![Ev.b] = FALSE]
  /\ UNCHANGED <<dead, lay, names, tls, regs, pos, last, ok, ref, refi, var>>

TrTl ==
  /\ Is("tl")
  /\ IF dead THEN UNCHANGED <<dead, tls, regs, pos, ok>>
     ELSE LET e == Ev  b == e.b IN
          IF e.id # Len(regs) + 1 \/ b \notin DOMAIN lay \/ e.out # "ok" \/ e.nnew # 1 \/ e.idx = <<>> THEN
             dead' = TRUE /\ UNCHANGED <<tls, regs, pos, ok>>
          ELSE /\ regs' = Append(regs, [NoReg(e, "tl") EXCEPT !.r = ToSet(e.r), !.w = ToSet(e.w)])
               /\ pos' = Append(pos, <<0, 0, 0>>)
               /\ tls' = [tls EXCEPT ![b] = Append(@, e.id)]
               \* C12 (static half): thread-local systems are kept in registration order
               /\ ok' = [ok EXCEPT !.c12s = @ /\ e.idx[1] = Len(tls[b]) + 1]
               /\ UNCHANGED dead
  /\ UNCHANGED <<lay, names, epoch, since, last, ref, refi, var>>

NameOf(b) == [s \in Placed(lay[b]) |-> regs[s].nm]

TrPrint ==
  /\ Is("print")
  /\ IF dead THEN UNCHANGED ok
     ELSE ok' = [ok EXCEPT !.c20 = @ /\ Ev.out = "ok" /\ C20Printed(Ev.text, lay[Ev.b], NameOf(Ev.b))]
  /\ UNCHANGED <<dead, lay, names, epoch, since, tls, regs, pos, last, ref, refi, var>>

TrBuilt ==
  /\ Is("built")
  /\ IF dead THEN UNCHANGED ok
     ELSE LET e == Ev IN
          ok' = [ok EXCEPT
                   \* C04 / C20: the built dispatcher executes exactly the builder's plan
                   !.built = @ /\ e.out = "ok" /\ e.lay = lay[e.b] /\ e.tl = tls[e.b],
                   \* C10: reported maximum thread count = width of the widest stage
                   !.c10mt = @ /\ (e.parallel => e.maxthreads = MaxWidth(lay[e.b])),
                   \* C19: same number of placements as variant 0
                   !.c19 = @ /\ (var = 0 \/ refi = Len(ref))]
  /\ UNCHANGED <<dead, lay, names, epoch, since, tls, regs, pos, last, ref, refi, var>>

Known == {"reset", "new", "add", "batch", "barrier", "tl", "print", "built"}
TrSkip ==
  /\ l <= Len(Rec) /\ Ev.ev \notin Known /\ l' = l + 1
  /\ UNCHANGED <<dead, lay, names, epoch, since, tls, regs, pos, last, ok, ref, refi, var>>

Next == TrReset \/ TrNew \/ TrAdd \/ TrBarrier \/ TrTl \/ TrPrint \/ TrBuilt \/ TrSkip
Spec == Init /\ [][Next]_vars

\* ---- property invariants (incremental forms on the last placed system) -------
LB == lay[regs[last].b]
Live == ~dead /\ last # 0
InvStruct == ~dead
InvC01 == Live => C01At(regs, LB, pos, last)
InvC02 == Live => C02At(regs, pos, last)
InvC03 == Live => C03At(regs, LB, pos, last)
InvC04 == ~dead /\ ok.built
InvC10 == (Live => C10At(regs, LB, pos, last)) /\ ok.c10mt
InvCap == Live => CapOK(LB, 5)
InvC12s == ok.c12s
InvC18 == ok.c18
InvC19 == ok.c19
InvC20 == ok.c20 /\ ok.built

Accepted ==
  IF TLCGet("stats").diameter = Len(Rec) + 1 THEN TRUE
  ELSE Print(<<"REJECTED at", TLCGet("stats").diameter, Rec[TLCGet("stats").diameter]>>, FALSE)
=============================================================================
