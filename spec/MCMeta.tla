------------------------------ MODULE MCMeta ------------------------------
(* Model-checking wrapper for Meta: TLC-only operators live here.          *)
EXTENDS Meta, TLC, Json

CONSTANTS H,       \* length of emitted histories (free exploration / simulation)
          MaxReg   \* directed exploration: length of the register sequence

\* One JSON line per history of length H (free exploration under Bound, or simulation).
Emit == (Len(hist) = H) => PrintT(<<"REPLAY", ToJson([hist |-> hist])>>)
Bound == Len(hist) <= H

(***************************************************************************)
(* Directed exploration (spec -> impl replay): every register sequence     *)
(* with repeats of length <= MaxReg, then every presence subset, then      *)
(* optionally one other fetch, then a fixed probe built from the core      *)
(* actions: a complete iter(), a complete iter_mut(), get on one loose     *)
(* object per type.                                                        *)
(***************************************************************************)
VARIABLE pc
dvars == <<vars, pc>>

InitD == Init /\ pc = <<"reg", 0>>

AllGuards == DOMAIN guards
Items == {g \in DOMAIN guards : guards[g].src = "item"}

NextD ==
  \/ /\ pc[1] = "reg" /\ pc[2] < MaxReg
     /\ \E T \in Types : Register(T)
     /\ pc' = <<"reg", pc[2] + 1>>
  \/ /\ pc[1] = "reg"                                     \* choose the presence subset
     /\ \E S \in SUBSET Cells :
          /\ present' = S
          /\ hist' = hist \o [i \in 1..Cardinality(S) |->
                       LET c == CHOOSE c \in S : Cardinality({x \in S : x[1] * 2 + x[2] < c[1] * 2 + c[2]}) = i - 1
                       IN Call("ins", c[1], c[2], "", 0, 0, Okay, {x \in S : x[1] * 2 + x[2] <= c[1] * 2 + c[2]}, guards)]
     /\ ok' = TRUE
     /\ UNCHANGED <<tab, guards, iters, first>>
     /\ pc' = <<"fetch", 0>>
  \/ /\ pc[1] = "fetch"                                   \* optionally one other fetch of a present cell
     /\ \/ UNCHANGED vars
        \/ \E c \in present, k \in {"r", "w"} : Fetch(c, k)
     /\ pc' = <<"iter", 1>>
  \/ /\ pc[1] = "iter"                                    \* pc[2] = 1: iter(), 2: iter_mut()
     /\ IterNew(IF pc[2] = 1 THEN "r" ELSE "w")
     /\ pc' = <<"drain", pc[2]>>
  \/ /\ pc[1] = "drain" /\ 1 \in DOMAIN iters
     /\ IterNext(1)
     /\ pc' = IF 1 \in DOMAIN iters' /\ Len(iters'[1].y) > Len(iters[1].y) THEN pc ELSE <<"clean", pc[2]>>
  \/ /\ pc[1] = "clean"
     /\ IF Items # {} THEN Drop(Min(Items)) /\ pc' = pc
        ELSE IF 1 \in DOMAIN iters THEN IterDrop(1) /\ pc' = pc
        ELSE UNCHANGED vars /\ pc' = IF pc[2] = 1 THEN <<"iter", 2>> ELSE <<"get", 1>>
  \/ /\ pc[1] = "get" /\ pc[2] <= NT
     /\ GetLoose(pc[2], pc[2] % 2 = 0)
     /\ pc' = <<"get", pc[2] + 1>>

\* free exploration of the core actions (pc is idle)
SpecF == Init /\ pc = <<"free", 0>> /\ [][Next /\ UNCHANGED pc]_dvars

SpecD == InitD /\ [][NextD]_dvars
EmitD == (pc = <<"get", NT + 1>>) => PrintT(<<"REPLAY", ToJson([hist |-> hist])>>)
=============================================================================
