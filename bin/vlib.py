"""Shared machinery of /verif/bin/check: building the harness against /repo's
working tree, running TLC (model checking and trace validation), evidence and
verdict plumbing.  Exit codes: 0 held, 1 VIOLATION (with replay file), 2 tool error."""
import json, os, re, shutil, subprocess, sys, time, hashlib

VERIF = os.path.dirname(os.path.dirname(os.path.abspath(__file__)))
SPEC = os.path.join(VERIF, "spec")
HARNESS = os.environ.get("VERIF_HARNESS_DIR") or os.path.join(VERIF, "harness")   # override only for mutant experiments
WORKROOT = os.path.join(VERIF, "work")
EVID = os.environ.get("VERIF_EVID_DIR") or os.path.join(VERIF, "evidence")
REPLAYS = os.environ.get("VERIF_REPLAY_DIR") or os.path.join(VERIF, "replays")
JAVA_TRACE_OPTS = "-Xss1g -Dtlc2.tool.queue.IStateQueue=StateDeque"


class ToolError(Exception):
    pass


class Violation(Exception):
    def __init__(self, prop, what, replay):
        super().__init__(what)
        self.prop, self.what, self.replay = prop, what, replay


def log(*a):
    print(*a, file=sys.stderr, flush=True)


def sh(cmd, timeout=None, env=None, cwd=None, stdout=None):
    e = dict(os.environ)
    e.update({"CARGO_NET_OFFLINE": "true"})
    if env:
        e.update(env)
    return subprocess.run(cmd, cwd=cwd, env=e, timeout=timeout, stdout=stdout or subprocess.PIPE,
                          stderr=subprocess.STDOUT if stdout is None else subprocess.PIPE, text=True)


class Ctx:
    """One invocation of one check."""

    def __init__(self, prop, tier, seed):
        self.prop, self.tier, self.seed = prop, tier, seed
        self.t0 = time.time()
        self.work = os.path.join(WORKROOT, "%s-%d" % (prop, os.getpid()))
        shutil.rmtree(self.work, ignore_errors=True)
        os.makedirs(self.work, exist_ok=True)
        os.makedirs(EVID, exist_ok=True)
        self.cov = {"states": 0, "transitions": 0, "traces_validated_against_impl": 0, "samples": [],
                    "model_runs": [], "impl_runs": [], "notes": [], "known_findings": [], "exhaustive": False}
        self.assumptions = []
        self.n = 0

    def path(self, name):
        return os.path.join(self.work, name)

    def fresh(self, stem, ext):
        self.n += 1
        return self.path("%s%d.%s" % (stem, self.n, ext))

    def cleanup(self):
        shutil.rmtree(self.work, ignore_errors=True)

    def quick(self):
        return self.tier == "quick"

    def note(self, s):
        log("NOTE", s)
        self.cov["notes"].append(s)

    def sample(self, s):
        if len(self.cov["samples"]) < 8:
            self.cov["samples"].append(s)

    def save_replay(self, name, content):
        d = os.path.join(REPLAYS, self.prop)
        os.makedirs(d, exist_ok=True)
        p = os.path.join(d, name)
        with open(p, "w") as f:
            f.write(content)
        return p

    def write_evidence(self, violations=0, level="model_checking"):
        ev = {
            "property_id": self.prop, "tier": self.tier, "seed": self.seed, "level": level,
            "coverage": self.cov, "assumptions": self.assumptions,
            "wall_s": round(time.time() - self.t0, 2), "violations": violations,
        }
        if not self.cov["samples"]:
            self.cov["samples"].append("no sample recorded")
        with open(os.path.join(EVID, self.prop + ".json"), "w") as f:
            json.dump(ev, f, indent=1)


# ------------------------------------------------------------------ harness

_built = {}


NODEBUG = [False]


class nodebug_pass:
    """with nodebug_pass(ctx): ...  -- every harness binary run inside is the build with the
    library's debug assertions and overflow checks OFF (profile `nodebug` of the harness)."""

    def __init__(self, ctx):
        self.ctx = ctx

    def __enter__(self):
        NODEBUG[0] = True
        self.n0 = len(self.ctx.cov["impl_runs"])

    def __exit__(self, *a):
        NODEBUG[0] = False
        for r in self.ctx.cov["impl_runs"][self.n0:]:
            if isinstance(r, dict):
                r["build_profile"] = "debug-assertions off, overflow-checks off"
        return False


def build_harness(parallel=True, features=()):
    """cargo build of the harness against /repo's current working tree.  `features`:
    contributor modules (x-meta, x-parseq, x-world, x-zoo) needed by the caller's binary."""
    features = tuple(sorted(features))
    nd = NODEBUG[0]
    key = ("par" if parallel else "nopar") + "".join("-" + f for f in features) + ("-nd" if nd else "")
    if key in _built:
        return _built[key]
    tdir = "target" if key == "par" else "target-" + key
    cmd = ["cargo", "build", "--offline", "--bins", "--target-dir", tdir]
    if nd:
        cmd += ["--profile", "nodebug"]
    if not parallel:
        cmd += ["--no-default-features"]
    if features:
        cmd += ["--features", ",".join(features)]
    r = sh(cmd, cwd=HARNESS, timeout=1800)
    if r.returncode != 0:
        raise ToolError("harness build failed (%s):\n%s" % (key, r.stdout[-4000:]))
    _built[key] = os.path.join(HARNESS, tdir, "nodebug" if nd else "debug")
    return _built[key]


def repo_path():
    """Where the harness takes the library from (path dependency of its Cargo.toml)."""
    try:
        m = re.search(r'shred\s*=\s*\{\s*path\s*=\s*"([^"]+)"', open(os.path.join(HARNESS, "Cargo.toml")).read())
        return m.group(1).rstrip("/") if m else "/repo"
    except OSError:
        return "/repo"


LIB_ONLY_CRATES = ("atomic_refcell", "arrayvec", "smallvec", "hashbrown", "ahash", "tynm")


def died_in_code_under_test(r):
    """Why a harness process ended abnormally, if the code under test is to blame; None if the harness itself
    (or the tooling) failed.  Decided conservatively: a fatal signal, or an escaped panic whose location is a
    source file of the library."""
    if r.returncode < 0:
        return "killed by signal %d" % (-r.returncode)
    if r.returncode == 102:
        for line in reversed(r.stdout.splitlines()):
            if line.startswith("HARNESS-HANG "):
                return "a call into the library never returned (%s)" % line[len("HARNESS-HANG "):]
    if r.returncode == 101:
        for line in reversed(r.stdout.splitlines()):
            if line.startswith("HARNESS-PANIC "):
                loc = line[len("HARNESS-PANIC "):]
                # (the library's own sources, or a crate that only the library uses: its cells and small vectors)
                if loc.startswith(repo_path() + "/") or any(("/" + c + "-") in loc.split(" ")[0] for c in LIB_ONLY_CRATES):
                    return "panic escaped at %s" % loc[:300]
                return None
    return None


def run_bin(ctx, name, args, parallel=True, timeout=3600, want_json=True, features=(), prefix=()):
    """`prefix`: a launcher in front of the binary (e.g. taskset -c 0: the process confined to one CPU)."""
    d = build_harness(parallel, features)
    r = subprocess.run(list(prefix) + [os.path.join(d, name)] + [str(a) for a in args], stdout=subprocess.PIPE,
                       stderr=subprocess.PIPE, text=True, timeout=timeout)
    if r.returncode != 0:
        died = died_in_code_under_test(r)
        if died:
            # the process that drives the real code was killed by it: a signal (memory corruption, abort in a
            # destructor) or a panic raised INSIDE the library at a place where no call of it may panic
            rp = ctx.save_replay("crash-%s-seed%d.txt" % (name, ctx.seed),
                                 "command: %s %s\nexit: %d\n%s\nstdout (tail):\n%s\nstderr (tail):\n%s\n"
                                 % (name, " ".join(str(a) for a in args), r.returncode, died, r.stdout[-3000:], r.stderr[-3000:]))
            raise Violation(ctx.prop, "the harness process driving the real code died: %s" % died, rp)
        raise ToolError("%s %s exited %d:\n%s\n%s" % (name, args, r.returncode, r.stdout[-2000:], r.stderr[-4000:]))
    if not want_json:
        return r.stdout
    last = [x for x in r.stdout.strip().splitlines() if x.startswith("{")]
    if not last:
        raise ToolError("%s produced no JSON summary:\n%s\n%s" % (name, r.stdout[-2000:], r.stderr[-2000:]))
    return json.loads(last[-1])


# ------------------------------------------------------------------ TLC

RE_STATES = re.compile(r"(\d+) states generated, (\d+) distinct states found")
RE_INV = re.compile(r"Error: Invariant (\w+) is violated")
RE_ACT = re.compile(r"^<(\w+) line \d+, col \d+ to line \d+, col \d+ of module \w+>: (\d+):(\d+)")
RE_PROP = re.compile(r"Error: (?:Action|Temporal) property (\w+) is violated|Error: Temporal properties were violated")


def cfg_text(spec="Spec", constants=None, invariants=(), properties=(), extra=()):
    out = ["SPECIFICATION " + spec, "CHECK_DEADLOCK FALSE"]
    if constants:
        out.append("CONSTANTS")
        for k, v in constants.items():
            out.append("  %s = %s" % (k, v))
    if invariants:
        out.append("INVARIANTS")
        out += ["  " + i for i in invariants]
    if properties:
        out.append("PROPERTIES")
        out += ["  " + i for i in properties]
    out += list(extra)
    return "\n".join(out) + "\n"


def jtmp(ctx):
    """TLC unpacks its standard modules into java.io.tmpdir on every start: keep that inside the check's work
    directory (removed at the end) instead of littering /tmp."""
    # (callers may pass a reduced view of a Ctx that only has `fresh`: take the directory from a fresh path)
    base = getattr(ctx, "work", None) or os.path.dirname(ctx.fresh("jtmp", "x"))
    d = os.path.join(base, "jtmp")
    os.makedirs(d, exist_ok=True)
    return d


def tlc_mc(ctx, module, cfg, workers=8, timeout=3600, simulate=None, capture_replay=False, deadlock_ok=False, extra_args=()):
    """Run TLC on spec/<module>.tla with the given cfg text.  Returns dict with
    states, distinct, violated (invariant name or None), out (path), replay (path or None)."""
    cfgp = ctx.fresh("mc", "cfg")
    with open(cfgp, "w") as f:
        f.write(cfg)
    outp = ctx.fresh("tlc", "out")
    md = ctx.fresh("md", "d")
    cmd = ["tlc", "-workers", str(workers), "-coverage", "1", "-metadir", md, "-cleanup", "-noGenerateSpecTE", "-config", cfgp]
    if simulate:
        cmd += ["-simulate", simulate[0], "-depth", str(simulate[1]), "-seed", str(ctx.seed)]
    cmd += list(extra_args)
    cmd += [os.path.join(SPEC, module + ".tla")]
    t = time.time()
    with open(outp, "w") as f:
        try:
            r = subprocess.run(cmd, cwd=SPEC, stdout=f, stderr=subprocess.STDOUT, timeout=timeout,
                               env=dict(os.environ, JAVA_TOOL_OPTIONS="-Xss512m -Djava.io.tmpdir=" + jtmp(ctx)))
            rc = r.returncode
            timed_out = False
        except subprocess.TimeoutExpired:
            rc, timed_out = -1, True
    shutil.rmtree(md, ignore_errors=True)
    states = distinct = 0
    violated = None
    replay = None
    rp = None
    err_other = None
    actions = {}
    if capture_replay:
        replay = ctx.fresh("replay", "txt")
        rp = open(replay, "w")
    with open(outp) as f:
        for line in f:
            if line.startswith('<<"REPLAY"'):
                if rp:
                    rp.write(line)
                continue
            m = RE_STATES.search(line)
            if m:
                states, distinct = int(m.group(1)), int(m.group(2))
            m = RE_ACT.match(line)
            if m:
                actions[m.group(1)] = max(actions.get(m.group(1), 0), int(m.group(3)))
            m = RE_INV.search(line)
            if m and not violated:
                violated = m.group(1)
            m = RE_PROP.search(line)
            if m and not violated:
                violated = m.group(1) or "temporal"
            if line.startswith("Error:") and not violated and "Invariant" not in line and "behavior up to" not in line \
                    and "Deadlock" not in line:
                err_other = err_other or line.strip()
            if "Deadlock reached" in line and not violated:
                violated = "DEADLOCK"
    if rp:
        rp.close()
    never = sorted(a for a, n in actions.items() if n == 0)
    if never and violated is None:
        ctx.cov.setdefault("actions_never_taken", []).append({"module": module, "actions": never})
    res = {"module": module, "states": states, "distinct": distinct, "violated": violated, "out": outp, "actions": actions,
           "replay": replay, "wall_s": round(time.time() - t, 1), "timed_out": timed_out, "rc": rc}
    if timed_out and not simulate:
        raise ToolError("TLC timed out on %s" % module)
    if violated is None and err_other and not (simulate and timed_out):
        raise ToolError("TLC error on %s: %s (see %s)" % (module, err_other, outp))
    if violated is None and states == 0 and not simulate:
        raise ToolError("TLC produced no statistics on %s (see %s)" % (module, outp))
    return res


RE_L = re.compile(r"^/\\ l = (\d+)\s*$")


def tlc_trace(ctx, module, trace_path, invariants, timeout=1800, constants=None):
    """Validate an ndjson trace.  Returns dict(accepted, violated, l, states, out)."""
    cfg = cfg_text(invariants=invariants, constants=constants, extra=["POSTCONDITION Accepted"])
    cfgp = ctx.fresh("tr", "cfg")
    with open(cfgp, "w") as f:
        f.write(cfg)
    outp = ctx.fresh("trace", "out")
    md = ctx.fresh("md", "d")
    cmd = ["tlc", "-workers", "1", "-metadir", md, "-cleanup", "-noGenerateSpecTE", "-config", cfgp,
           os.path.join(SPEC, module + ".tla")]
    env = dict(os.environ, JAVA_TOOL_OPTIONS=JAVA_TRACE_OPTS + " -Xmx6g -Djava.io.tmpdir=" + jtmp(ctx), TRACE=trace_path)
    with open(outp, "w") as f:
        try:
            subprocess.run(cmd, cwd=SPEC, stdout=f, stderr=subprocess.STDOUT, timeout=timeout, env=env)
        except subprocess.TimeoutExpired:
            raise ToolError("TLC trace validation timed out (%s)" % trace_path)
    shutil.rmtree(md, ignore_errors=True)
    states = 0
    violated = None
    rejected = False
    last_l = None
    other = None
    with open(outp) as f:
        for line in f:
            m = RE_STATES.search(line)
            if m:
                states = int(m.group(1))
            m = RE_INV.search(line)
            if m and not violated:
                violated = m.group(1)
            if "Postcondition Accepted" in line and "false" in line:
                rejected = True
            m = RE_L.match(line)
            if m:
                last_l = int(m.group(1))
            if line.startswith("Error:") and "Invariant" not in line and "behavior up to" not in line \
                    and "Postcondition" not in line:
                other = other or line.strip()
    if violated is None and (other or states == 0):
        raise ToolError("TLC trace validation error: %s (see %s)" % (other, outp))
    if violated is None and rejected:
        raise ToolError("trace not consumed to the end: %s (see %s)" % (trace_path, outp))
    return {"accepted": violated is None, "violated": violated, "l": last_l, "states": states, "out": outp}


# ------------------------------------------------------------------ traces

def split_blocks(path):
    """Split an ndjson trace into blocks starting at reset events."""
    blocks, cur = [], []
    with open(path) as f:
        for line in f:
            if line.startswith('{"ev":"reset"') or '"ev":"reset"' in line[:40]:
                if cur:
                    blocks.append(cur)
                cur = []
            cur.append(line)
    if cur:
        blocks.append(cur)
    return blocks


def block_of_event(blocks, l):
    """Block containing 1-based event index l (the state with l = k has consumed k-1 events)."""
    n = 0
    for i, b in enumerate(blocks):
        if l - 1 <= n + len(b):
            return i
        n += len(b)
    return len(blocks) - 1


def tail(path, n=60):
    with open(path) as f:
        return "".join(f.readlines()[-n:])


# ------------------------------------------------------------------ known findings

def known_findings():
    out = []
    p = os.path.join(VERIF, "KNOWN_FINDINGS")
    if os.path.exists(p):
        for line in open(p):
            line = line.strip()
            if line.startswith("known:"):
                m = re.match(r"known:\s*property=(\w+)\s+key=(\S+)\s*::\s*(.*)", line)
                if m:
                    out.append({"prop": m.group(1), "key": m.group(2), "what": m.group(3)})
    return out


def validate_blocks(ctx, module, trace_path, invariants, classify=None, max_known=50):
    """Trace validation with known-finding handling: a violating block that `classify`
    maps to a listed known finding is reported, removed, and validation continues.
    Raises Violation otherwise.  Returns number of events validated."""
    known = [k for k in known_findings() if k["prop"] == ctx.prop]
    total_states = 0
    reported = set()
    for _ in range(max_known + 1):
        res = tlc_trace(ctx, module, trace_path, invariants)
        total_states += res["states"]
        if res["accepted"]:
            ctx.cov["transitions"] += max(res["states"] - 1, 0)
            ctx.cov["states"] += res["states"]
            return total_states
        blocks = split_blocks(trace_path)
        bi = block_of_event(blocks, res["l"] or 1)
        blk = blocks[bi]
        # cut the block at the failing event for the replay file
        n_before = sum(len(b) for b in blocks[:bi])
        idx = (res["l"] or 1) - 1 - n_before          # 1-based index of the failing event within the block
        key = classify(ctx, blk, res["violated"], idx, invariants) if classify else None
        hit = next((k for k in known if k["key"] == key), None) if key else None
        if hit:
            if hit["key"] not in reported:
                print("KNOWN-FINDING: property=%s %s" % (ctx.prop, hit["what"]), flush=True)
                reported.add(hit["key"])
                ctx.cov["known_findings"].append(hit["key"])
            rest = blocks[:bi] + blocks[bi + 1:]
            if not rest:
                return total_states
            trace_path = ctx.fresh("rest", "ndjson")
            with open(trace_path, "w") as f:
                for b in rest:
                    f.writelines(b)
            continue
        rp = ctx.save_replay("%s-seed%d-%s.ndjson" % (res["violated"], ctx.seed, hashlib.sha1("".join(blk).encode()).hexdigest()[:8]),
                             "".join(blk))
        with open(rp + ".tlc.txt", "w") as f:
            f.write(tail(res["out"], 400))
        raise Violation(ctx.prop, "invariant %s fails on a trace of the real code (event %s)" % (res["violated"], res["l"]), rp)
    raise ToolError("too many known-finding blocks")
