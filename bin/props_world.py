"""Checks for the World part of the specification (spec/World.tla, MCWorld.tla, WorldTrace.tla):

  C08  world borrows: shared xor exclusive, violations panic, drops release
  C09  world is a faithful typed map: type / slot / identity, exactly-once drop

Each check = (1) TLC model checking of World.tla for ALL histories within small constants
(state predicate P_Cxx as invariant, outcome rules R_Cxx as action property), (2) spec -> impl:
TLC-emitted behaviours (exhaustive short ones + simulated long ones) replayed on a real
shred::World with outcome and projected state compared after every call, (3) impl -> spec:
random single-thread histories (and, for C08, multi-thread call/return histories with canaries)
recorded from the real World and validated by TLC against WorldTrace.tla.  The verdict is always
an invariant of WorldTrace (InvC08 / InvC09) failing on a trace of the real code."""
import hashlib, json, os, time
from vlib import *  # noqa

MODULES = ["World", "MCWorld", "WorldTrace", "WorldCell"]
FEATURES = ("x-world",)

TRACE_INV = {"C08": "InvC08", "C09": "InvC09"}
MC_INV = {"C08": (["InvC08"], ["RuleC08"]), "C09": (["InvC09"], ["RuleC09"])}


def _consts(nt, nd):
    return {"Types": "{%s}" % ",".join(str(i) for i in range(1, nt + 1)),
            "Dyns": "{%s}" % ",".join(str(i) for i in range(nd))}


def world_mc(ctx, prop, steps, view, emit_from=None, shapes="ShapesSmall", meta="MetaAll", guards=3, phase=0,
             simulate=None, label="", workers=8, timeout=3000):
    """One TLC run on MCWorld.  view: MCView2 = abstract state + depth (exhaustive for the state
    invariants and the action rules, which TLC evaluates on every generated transition);
    MCView = additionally the last call and its outcome (one emitted behaviour per distinct
    (state, call, outcome, depth))."""
    invs, props = MC_INV[prop]
    invs = list(invs) + (["Emit"] if emit_from is not None else [])
    consts = dict(_consts(2, 2))
    consts.update({"MaxGuards": guards, "Phase": phase, "Payloads": "{1}", "WPayloads": "{2}", "MaxSteps": steps,
                   "EmitFrom": emit_from if emit_from is not None else steps + 1})
    extra = ["VIEW " + view, "CONSTANT Shapes <- %s" % shapes, "CONSTANT SetupShapes <- %s" % shapes,
             "CONSTANT MetaTys <- %s" % meta]
    cfg = cfg_text(spec="MCSpec", constants=consts, invariants=invs, properties=props, extra=extra)
    sim = ("num=%d" % simulate, steps) if simulate else None
    res = tlc_mc(ctx, "MCWorld", cfg, workers=workers, capture_replay=emit_from is not None, simulate=sim, timeout=timeout)
    if res["violated"]:
        rp = ctx.save_replay("model-%s-%s.txt" % (res["violated"], label or "mc"), tail(res["out"], 400))
        raise ToolError("the World MODEL violates %s (%s): a defect of the specification, not a verdict about shred; see %s"
                        % (res["violated"], label, rp))
    emitted = 0
    if res["replay"]:
        with open(res["replay"]) as f:
            emitted = sum(1 for _ in f)
    if simulate and emitted == 0:
        raise ToolError("TLC simulation of MCWorld emitted no behaviour (see %s)" % res["out"])
    ctx.cov["states"] += res["distinct"]
    ctx.cov["transitions"] += res["states"]
    ctx.cov["model_runs"].append({
        "module": "MCWorld", "label": label, "constants": consts, "shapes": shapes, "meta": meta, "view": view,
        "invariants": invs, "action_properties": props, "mode": "simulation" if simulate else "exhaustive BFS",
        "states_generated": res["states"], "distinct": res["distinct"], "behaviours_emitted": emitted,
        "wall_s": res["wall_s"], "exhaustive": not simulate})
    try:
        os.remove(res["out"])      # the raw TLC output holds every emitted behaviour (large)
    except OSError:
        pass
    return res


def world_cell_mc(ctx, threads, maxops):
    """The AtomicRefCell counter protocol at instruction level refines the cell of World.tla with one
    linearisation point per operation: the assumption behind the linearizability check."""
    consts = {"Threads": "{%s}" % ",".join(str(i) for i in range(1, threads + 1)), "MaxOps": maxops}
    invs, props = ["InvCell", "InvOutcome"], ["RuleShared"]
    res = tlc_mc(ctx, "WorldCell", cfg_text(constants=consts, invariants=invs, properties=props), workers=4, timeout=900)
    if res["violated"]:
        rp = ctx.save_replay("model-WorldCell-%s.txt" % res["violated"], tail(res["out"], 300))
        raise ToolError("WorldCell (model of atomic_refcell's counter) violates %s: a defect of the specification, see %s"
                        % (res["violated"], rp))
    ctx.cov["states"] += res["distinct"]
    ctx.cov["transitions"] += res["states"]
    ctx.cov["model_runs"].append({"module": "WorldCell", "label": "atomic_refcell counter protocol", "constants": consts,
                                  "invariants": invs, "action_properties": props, "states_generated": res["states"],
                                  "distinct": res["distinct"], "wall_s": res["wall_s"], "exhaustive": True})


def world_validate(ctx, prop, trace, nt, nd, what):
    """TLC validates an event trace of the real World; verdict by the property's invariant."""
    if not os.path.exists(trace) or os.path.getsize(trace) == 0:
        return 0
    invs = [TRACE_INV[prop], "InvHarness"]
    t0 = time.time()
    res = tlc_trace(ctx, "WorldTrace", trace, invs, constants=_consts(nt, nd))
    log("  WorldTrace %s: %d events validated in %.1fs" % (what, max(res["states"] - 1, 0), time.time() - t0))
    ctx.cov["model_runs"].append({"module": "WorldTrace", "label": "trace validation (%s)" % what, "invariants": invs,
                                  "constants": _consts(nt, nd), "events": max(res["states"] - 1, 0),
                                  "wall_s": round(time.time() - t0, 1), "accepted": res["accepted"]})
    ctx.cov["states"] += res["states"]
    ctx.cov["transitions"] += max(res["states"] - 1, 0)
    if res["accepted"]:
        return res["states"]
    blocks = split_blocks(trace)
    blk = blocks[block_of_event(blocks, res["l"] or 1)]
    name = "%s-%s-seed%d-%s.ndjson" % (res["violated"], what, ctx.seed, hashlib.sha1("".join(blk).encode()).hexdigest()[:8])
    rp = ctx.save_replay(name, "".join(blk))
    with open(rp + ".tlc.txt", "w") as f:
        f.write(tail(res["out"], 400))
    if res["violated"] == "InvHarness":
        raise ToolError("the harness broke a precondition of the trace specification (event %s), see %s" % (res["l"], rp))
    raise Violation(prop, "invariant %s of WorldTrace fails on a trace of the real shred::World (%s, event %s)"
                    % (res["violated"], what, res["l"]), rp)


def world_s2i(ctx, prop, replay_path, variants, label, defer=None, keep_file=False):
    """spec -> impl: every emitted behaviour on a real World, compared after every call."""
    out = ctx.fresh("ws2i", "ndjson")
    t0 = time.time()
    st = run_bin(ctx, "world", ["replay", "--in", replay_path, "--out", out, "--variants", variants, "--seed", ctx.seed,
                                "--ntypes", 2, "--ndyns", 2, "--keep", 150], features=FEATURES)
    if st["behaviours"] == 0:
        raise ToolError("no TLC behaviour was replayed (%s)" % label)
    log("  replay %s: %d runs in %.1fs" % (label, st["runs"], time.time() - t0))
    ctx.cov["impl_runs"].append({
        "kind": "spec->impl replay of TLC behaviours on a real shred::World (%s)" % label,
        "behaviours": st["behaviours"], "runs": st["runs"], "calls_compared": st["calls"], "agree": st["agree"],
        "disagree": st["disagree"], "ops": st["ops"], "blocks_also_validated_by_TLC": st["blocks_written"],
        "runs_on_rayon_worker": st["runs_on_rayon_worker"],
        "calls_issued_from_a_destructor_while_unwinding": st["calls_issued_while_unwinding"],
        "closing_releases_observed": st.get("closing_releases", 0)})
    ctx.cov["traces_validated_against_impl"] += st["runs"]
    for s in st["samples"][:1]:
        ctx.sample({"kind": "TLC behaviour replayed call by call on the real World (outcome and state equal)", "history": s})
    if not keep_file:
        try:
            os.remove(replay_path)
        except OSError:
            pass
    if defer is not None and not st["disagree"]:
        defer.append(out)            # validated together with the other 2x2 traces (one TLC start)
    else:
        world_validate(ctx, prop, out, 2, 2, "replay")
    if st["disagree"]:
        # the real World left the model, but not in a way this property's predicate forbids
        other = "C09" if prop == "C08" else "C08"
        res = tlc_trace(ctx, "WorldTrace", out, [TRACE_INV[other]], constants=_consts(2, 2))
        if res["accepted"]:
            rp = ctx.save_replay("disagree-%s-seed%d.json" % (label, ctx.seed), json.dumps(st["disagree_samples"], indent=1))
            raise ToolError("replay disagrees with MCWorld in %d runs but WorldTrace accepts the traces: spec/harness "
                            "inconsistency, see %s" % (st["disagree"], rp))
        ctx.note("%d replayed behaviours leave the model in a way that %s's predicate forbids (not %s's): see check %s"
                 % (st["disagree"], other, prop, other))
    return st


def world_random(ctx, prop, blocks, length, seed_off=0):
    out = ctx.fresh("wrnd", "ndjson")
    st = run_bin(ctx, "world", ["random", "--out", out, "--blocks", blocks, "--len", length,
                                "--seed", ctx.seed * 1000 + seed_off, "--ntypes", 4, "--ndyns", 3], features=FEATURES)
    ctx.cov["impl_runs"].append({"kind": "impl->spec random single-thread histories (4 types x 3 dynamic ids)",
                                 "blocks": st["blocks"], "calls": st["calls"], "ops": st["ops"], "outcomes": st["outcomes"],
                                 "aborted_blocks": st["aborted_blocks"], "blocks_on_rayon_worker": st["blocks_on_rayon_worker"],
                                 "calls_issued_from_a_destructor_while_unwinding": st["calls_issued_while_unwinding"],
        "closing_releases_observed": st.get("closing_releases", 0)})
    ctx.sample({"kind": "start of a random history on the real World (validated by WorldTrace)", "calls": st["samples"]})
    world_validate(ctx, prop, out, 4, 3, "random")
    ctx.cov["traces_validated_against_impl"] += st["blocks"]
    return st


def world_threads(ctx, prop, blocks, rounds, ops, seed_off=0, defer=None, maxthreads=8, storms=0, rstorms=0):
    out = ctx.fresh("wthr", "ndjson")
    st = run_bin(ctx, "world", ["threads", "--out", out, "--blocks", blocks, "--rounds", rounds, "--ops", ops,
                                "--seed", ctx.seed * 1000 + 500 + seed_off, "--ntypes", 2, "--ndyns", 2, "--maxthreads", maxthreads,
                                "--storms", storms, "--viol", 30000, "--keep", 30, "--rstorms", rstorms, "--rstorm-ms", 30],
                 features=FEATURES)
    if st.get("stalled"):
        # the harness's watchdog ended the run: a World operation did not return within st["secs"] seconds;
        # the trace ends with a `stall` block, which WorldTrace judges (InvC08)
        ctx.cov["impl_runs"].append({"kind": "impl->spec multi-thread histories: STALLED", "secs": st["secs"], "pending": st["pending"]})
        world_validate(ctx, prop, out, 2, 2, "threads")
        raise ToolError("a World operation stalled for %s s (%s) but WorldTrace accepted the trace" % (st["secs"], st["pending"]))
    ctx.cov["impl_runs"].append({"kind": "impl->spec multi-thread call/return histories with canaries (linearizability)",
                                 "blocks": st["blocks"], "thread_calls": st["thread_calls"], "quiescent_probes": st["syncs"],
                                 "threads_per_block": st["threads_per_block"], "max_pending_calls": st["max_pending_calls"],
                                 "rounds_on_rayon_workers": st["rounds_on_rayon_workers"],
                                 "calls_overlapping_another": st["calls_overlapping_another"], "outcomes": st["outcomes"]})
    if st.get("read_storm_blocks"):
        rb = st["read_storm_blocks"]
        ctx.cov["impl_runs"].append({
            "kind": "impl->spec read storms: 4-8 threads issue only shared operations (fetch, try_fetch, try_fetch_by_id, Read / "
                    "Option<Read> system data, Fetch::clone, MetaTable::iter) on the same two resources for ~30 ms, guards held "
                    "across calls on one of them; one `rstorm` event with the failure count per block (the model grants all)",
            "blocks": len(rb), "real_operations": sum(x["operations"] for x in rb), "failures": sum(x["failures"] for x in rb),
            "threads": [x["threads"] for x in rb], "on_rayon_workers": sum(1 for x in rb if x["rayon"]),
            "wall_s": round(sum(x["wall_s"] for x in rb), 2)})
        ctx.cov["traces_validated_against_impl"] += len(rb)
    if st.get("storm_blocks"):
        sb = st["storm_blocks"]
        ctx.cov["impl_runs"].append({
            "kind": "impl->spec storm blocks: 1-2 violator threads issue thousands of refused (panicking) typed fetches of one "
                    "resource while 3-4 bystander threads do only legal fetches of disjoint resources; whole refused attempts / "
                    "whole acquire..release cycles beyond the first 30 per thread are omitted from the log unless their outcome "
                    "is unexpected",
            "blocks": len(sb), "real_operations": sum(x["operations"] for x in sb), "events_logged": sum(x["events_logged"] for x in sb),
            "unexpected_outcomes_seen_by_harness": sum(x["unexpected_outcomes"] for x in sb),
            "on_rayon_workers": sum(1 for x in sb if x["rayon"]), "wall_s": round(sum(x["wall_s"] for x in sb), 2)})
        ctx.cov["traces_validated_against_impl"] += len(sb)
    if st["samples"]:
        ctx.sample({"kind": "start of a multi-thread history (call before / ret after each real operation)",
                    "events": st["samples"][0][:8]})
    if defer is not None:
        defer.append(out)
    else:
        world_validate(ctx, prop, out, 2, 2, "threads")
    ctx.cov["traces_validated_against_impl"] += st["blocks"]
    return st


def world_family(ctx, prop):
    q = ctx.quick()
    small = []          # traces over 2 types x 2 dynamic ids, validated by ONE TLC run at the end
    # (1) all histories within the bound: state predicate + outcome rules on every transition
    world_mc(ctx, prop, steps=5 if q else 6, view="MCView2", label="exhaustive")
    # (2) spec -> impl
    r = world_mc(ctx, prop, steps=3 if q else 4, view="MCView", emit_from=1, label="emit-exhaustive")
    world_s2i(ctx, prop, r["replay"], variants=2, label="every (state, call, outcome) within %d calls" % (3 if q else 4), defer=small)
    # guard-heavy histories: 2 well-typed inserts, then only &self calls and guard operations
    n = 5 if q else 7
    r = world_mc(ctx, prop, steps=n, view="MCView", emit_from=n, phase=2, label="emit-borrow-phase")
    world_s2i(ctx, prop, r["replay"], variants=1, label="2 inserts + every (state, &self call, outcome) within %d calls" % (n - 2),
              defer=small, keep_file=True)
    rb = r["replay"]
    if not q:
        # long behaviours chosen by TLC's simulator (it evaluates Emit on every successor of the last
        # step, so each of the 4 x 40 random walks yields a bundle of sibling behaviours)
        r = world_mc(ctx, prop, steps=12, view="MCView", emit_from=12, shapes="ShapesOpt", guards=4, simulate=40,
                     label="emit-simulation", workers=4)
        world_s2i(ctx, prop, r["replay"], variants=1, label="simulated behaviours of 12 calls", defer=small)
    # (3) impl -> spec
    if q:
        world_random(ctx, prop, blocks=24, length=250)
    else:
        for k in range(4):
            world_random(ctx, prop, blocks=150, length=300, seed_off=k)
    # the library built the way `cargo build --release` builds it (no debug assertions, no overflow checks):
    # the guard-heavy behaviours and random histories once more
    with nodebug_pass(ctx):
        small_nd = []
        world_s2i(ctx, prop, rb, variants=1, label="(debug assertions off) the borrow-phase behaviours again", defer=small_nd)
        world_random(ctx, prop, blocks=10 if q else 150, length=250, seed_off=11)
        small += small_nd
    if prop == "C08":
        world_cell_mc(ctx, threads=3, maxops=3 if q else 4)
        if q:
            world_threads(ctx, prop, blocks=8, rounds=5, ops=24, defer=small, maxthreads=6, storms=3, rstorms=4)
        else:
            # the set of configurations kept by WorldTrace grows exponentially with the number of
            # simultaneously pending calls: many blocks with <= 4 threads, fewer and shorter ones with 8
            world_threads(ctx, prop, blocks=30, rounds=8, ops=40, seed_off=0, maxthreads=4, storms=8, rstorms=12)
            world_threads(ctx, prop, blocks=30, rounds=8, ops=40, seed_off=1, maxthreads=4, storms=8, rstorms=12)
            world_threads(ctx, prop, blocks=12, rounds=6, ops=16, seed_off=2, maxthreads=8, storms=8, rstorms=12)
    if small:
        merged = ctx.fresh("wsmall", "ndjson")
        with open(merged, "w") as f:
            for x in small:
                with open(x) as g:
                    f.write(g.read())
        world_validate(ctx, prop, merged, 2, 2, "replay+threads" if prop == "C08" and q else "replay")
    ctx.cov["exhaustive"] = False
    ctx.assumptions += [
        "TLC explores World.tla exhaustively only within the stated constants (2 types x 2 dynamic ids, <= 3 live guards, "
        "bounded history length); longer histories are sampled (TLC simulation, random real histories)",
        "&mut-self calls are modelled as enabled only when no guard is live (a compile-time fact of the Rust API)",
        "borrow state of a cell is observed as free/shared/excl by try_borrow_mut/try_borrow probes at quiescent points on the "
        "only running thread; the shared COUNT is observed only through later releases",
        "execution context (main thread / rayon pool worker; ordinary code / destructor running during unwinding) is chosen by "
        "the harness from the seed and is not part of the spec: outcomes must not depend on it",
        "multi-thread histories: outcomes are judged for linearizability from the logged call/ret order; no probe while threads run",
    ]


def check_C08(ctx):
    world_family(ctx, "C08")


def check_C09(ctx):
    world_family(ctx, "C09")


CHECKS = {"C08": check_C08, "C09": check_C09}


def replay(ctx, path):
    """Re-validate a saved replay block (bin/check <ID> --replay FILE): the constants are taken from
    the block's reset event.  (props.replay has to dispatch here for C08 / C09.)"""
    nt, nd = 4, 3
    with open(path) as f:
        for line in f:
            e = json.loads(line)
            if e.get("ev") == "reset":
                nt, nd = len(e.get("tymap", [0] * 4)), len(e.get("xdyn", [0] * 3))
                break
    res = tlc_trace(ctx, "WorldTrace", path, [TRACE_INV[ctx.prop], "InvHarness"], constants=_consts(nt, nd))
    if not res["accepted"]:
        raise Violation(ctx.prop, "invariant %s fails on replay (event %s)" % (res["violated"], res["l"]), path)


REPLAY = {"C08": replay, "C09": replay}
