"""C17 (meta table): TLC on spec/Meta.tla (free exploration + directed register/presence
enumeration), spec->impl replay of TLC histories on the real MetaTable/World, impl->spec
validation of recorded histories by spec/MetaTrace.tla.  Verdict only by the InvC17Tr*
invariants of MetaTrace on traces of the real code."""
import hashlib, json, os
from vlib import *  # noqa

MODULES = ["Meta", "MCMeta", "MetaTrace"]
FEATURES = ("x-meta",)

MC_INVS = ["InvC17", "InvC17Table", "InvC17Borrow", "InvC17Iter"]
TRACE_INVS = ["InvC17TrReg", "InvC17TrGet", "InvC17TrNext", "InvC17TrBorrow", "InvC17TrVal"]


def tla_set(xs):
    return "{" + ",".join(str(x) for x in xs) + "}"


def consts(nt, bad, dyn1, maxg, maxi, hist=False, h=0, maxreg=0):
    return {"NT": nt, "Bad": tla_set(bad), "Dyn1": tla_set(dyn1), "MaxG": maxg, "MaxI": maxi,
            "Hist": "TRUE" if hist else "FALSE", "H": h, "MaxReg": maxreg}


def trace_consts(nt, bad):
    c = consts(nt, bad, range(1, nt + 1), 16, 8)
    del c["H"], c["MaxReg"]
    return c


def meta_mc(ctx, spec, c, invs, label, emit=None, simulate=None, workers=8):
    invs = list(invs) + ([emit] if emit else [])
    extra = ["CONSTRAINT Bound"] if emit == "Emit" and not simulate else []
    res = tlc_mc(ctx, "MCMeta", cfg_text(spec=spec, constants=c, invariants=invs, extra=extra), workers=workers,
                 capture_replay=bool(emit), simulate=simulate, timeout=1500)
    if res["violated"]:
        rp = ctx.save_replay("model-%s-%s.txt" % (res["violated"], label), tail(res["out"], 300))
        raise ToolError("the Meta MODEL violates %s (%s): spec/implementation mismatch to be repaired in the spec, see %s"
                        % (res["violated"], label, rp))
    if not simulate:
        ctx.cov["states"] += res["distinct"]
        ctx.cov["transitions"] += res["states"]
    ctx.cov["model_runs"].append({"module": "MCMeta", "spec": spec, "label": label, "constants": c, "invariants": invs,
                                  "states_generated": res["states"], "distinct": res["distinct"], "wall_s": res["wall_s"],
                                  "exhaustive": not simulate, "simulate": list(simulate) if simulate else None})
    return res


def meta_validate(ctx, trace, nt, bad, what):
    """impl->spec: every event of the recorded trace is one real call; TLC evaluates the C17
    predicates on each.  InvEnv (the World's own fetch semantics) failing is not a C17 verdict."""
    if not os.path.exists(trace) or os.path.getsize(trace) == 0:
        return 0
    res = tlc_trace(ctx, "MetaTrace", trace, TRACE_INVS + ["InvEnv"], constants=trace_consts(nt, bad))
    if res["accepted"]:
        ctx.cov["states"] += res["states"]
        ctx.cov["transitions"] += max(res["states"] - 1, 0)
        return res["states"]
    blocks = split_blocks(trace)
    bi = block_of_event(blocks, res["l"] or 1)
    blk = "".join(blocks[bi])
    name = "%s-seed%d-%s.ndjson" % (res["violated"], ctx.seed, hashlib.sha1(blk.encode()).hexdigest()[:8])
    if res["violated"] == "InvEnv":
        p = ctx.save_replay("env-" + name, blk)
        raise ToolError("the World itself (typed fetch / presence), not the meta table, behaved unexpectedly in a %s trace "
                        "(event %s): outside C17, see %s" % (what, res["l"], p))
    rp = ctx.save_replay(name, blk)
    with open(rp + ".tlc.txt", "w") as f:
        f.write(tail(res["out"], 400))
    raise Violation(ctx.prop, "invariant %s fails on a %s trace of the real MetaTable (event %s)"
                    % (res["violated"], what, res["l"]), rp)


def meta_s2i(ctx, replay_path, nt, bad, label, p_keep=0.02, keep=300, dedupe=False):
    out = ctx.fresh("s2i", "ndjson")
    st = run_bin(ctx, "meta", ["replay", "--in", replay_path, "--out", out, "--seed", ctx.seed, "--nt", nt,
                               "--bad", ",".join(str(b) for b in bad), "--p-keep", p_keep, "--keep-matching", keep]
                 + (["--dedupe"] if dedupe else []),
                 features=FEATURES)
    if st["behaviours"] == 0:
        raise ToolError("TLC emitted no history for %s" % label)
    ctx.cov["impl_runs"].append({"kind": "spec->impl history replay (%s)" % label, "behaviours": st["behaviours"],
                                 "run_while_thread_unwinding": st.get("in_unwinding_context", 0),
                                 "calls_compared": st["calls"], "matched_model": st["matched"],
                                 "mismatch": st["mismatch"], "validated_by_TLC": st["validated_sample"] + st["mismatch"]})
    ctx.cov["traces_validated_against_impl"] += st["behaviours"]
    for s in st["samples"][:1]:
        ctx.sample({"kind": "TLC history replayed on the real MetaTable (%s)" % label, "case": s})
    if st["mismatch"]:
        ctx.note("%d of %d TLC histories (%s) were answered differently by the real code; judged by MetaTrace"
                 % (st["mismatch"], st["behaviours"], label))
        for s in st["mismatch_samples"][:2]:
            ctx.sample({"kind": "mismatch", "case": s})
    meta_validate(ctx, out, nt, bad, "spec->impl (%s)" % label)
    if st["mismatch"]:
        # the real code deviates from Meta.tla's prediction although no C17 predicate failed
        raise ToolError("model/implementation mismatch without a violated C17 predicate (%s): %s"
                        % (label, json.dumps(st["mismatch_samples"][:1])[:1500]))
    return st


def meta_i2s(ctx, count, length, nt, bad, seed_off=0):
    out = ctx.fresh("i2s", "ndjson")
    st = run_bin(ctx, "meta", ["random", "--out", out, "--seed", ctx.seed * 1000 + seed_off, "--count", count,
                               "--len", length, "--nt", nt, "--bad", ",".join(str(b) for b in bad)], features=FEATURES)
    ctx.cov["impl_runs"].append({"kind": "impl->spec random histories", "histories": st["histories"],
                                 "run_while_thread_unwinding": st.get("in_unwinding_context", 0),
                                 "events": st["events"], "outcomes": st["outcomes"], "nt": nt, "bad": list(bad)})
    ctx.cov["traces_validated_against_impl"] += st["histories"]
    for s in st["samples"][:1]:
        ctx.sample({"kind": "random history on the real MetaTable (validated by MetaTrace)", "first_calls": s})
    meta_validate(ctx, out, nt, bad, "random-history")
    return out


def meta_many(ctx, count, bad, nt=308):
    """One table with more than 256 registered types (const-generic family), recorded by the harness
    as a directed history and validated by MetaTrace with NT = nt (borrow-table probes projected away)."""
    out = ctx.fresh("many", "ndjson")
    st = run_bin(ctx, "meta", ["many", "--out", out, "--seed", ctx.seed * 1000 + 7, "--count", count, "--nt", nt,
                               "--bad", ",".join(str(b) for b in bad)], features=FEATURES)
    ctx.cov["impl_runs"].append({"kind": "impl->spec directed history over %d types in ONE table" % nt, **st, "bad": list(bad)})
    ctx.cov["traces_validated_against_impl"] += st["histories"]
    meta_validate(ctx, out, nt, bad, "many-types")
    return out


def check_C17(ctx):
    if ctx.quick():
        meta_mc(ctx, "SpecF", consts(3, [3], [1], 2, 1), MC_INVS, "free-q")
        r = meta_mc(ctx, "SpecD", consts(4, [4], [1], 6, 1, hist=True, maxreg=3), MC_INVS, "directed-q", emit="EmitD")
        meta_s2i(ctx, r["replay"], 4, [4], "directed-q")
        r = meta_mc(ctx, "SpecF", consts(4, [3, 4], [1, 3], 4, 2, hist=True, h=40), MC_INVS, "sim-q", emit="Emit",
                    simulate=("num=40", 41))
        meta_s2i(ctx, r["replay"], 4, [3, 4], "sim-q", p_keep=0.1, keep=40, dedupe=True)
        meta_i2s(ctx, 40, 300, 8, [7, 8])
        meta_many(ctx, 2, [4, 8])
    else:
        meta_mc(ctx, "SpecF", consts(4, [4], [1], 2, 1), MC_INVS, "free-t1")
        meta_mc(ctx, "SpecF", consts(3, [3], [1], 2, 2), MC_INVS, "free-t2")
        r = meta_mc(ctx, "SpecD", consts(4, [4], [1], 6, 1, hist=True, maxreg=4), MC_INVS, "directed-t", emit="EmitD")
        meta_s2i(ctx, r["replay"], 4, [4], "directed-t", p_keep=0.005, keep=400)
        r = meta_mc(ctx, "SpecD", consts(4, [1, 3], [2], 6, 1, hist=True, maxreg=3), MC_INVS, "directed-t2", emit="EmitD")
        meta_s2i(ctx, r["replay"], 4, [1, 3], "directed-t2")
        r = meta_mc(ctx, "SpecF", consts(5, [2, 5], [1, 2], 5, 3, hist=True, h=80), MC_INVS, "sim-t", emit="Emit",
                    simulate=("num=250", 81))
        meta_s2i(ctx, r["replay"], 5, [2, 5], "sim-t", p_keep=0.05, keep=100, dedupe=True)
        meta_i2s(ctx, 300, 400, 8, [7, 8])
        meta_i2s(ctx, 60, 400, 8, [1, 4, 6], seed_off=1)
        meta_i2s(ctx, 60, 400, 5, [], seed_off=2)
        meta_many(ctx, 12, [4, 8])
        meta_many(ctx, 4, [])
    ctx.cov["exhaustive"] = False
    ctx.assumptions += [
        "TLC explores Meta exhaustively only within the stated constants (types, guards, iterators, register-sequence length)",
        "non-nightly MetaTable (function-pointer table); the nightly DynMetadata variant is not built",
        "identity of objects is observed as equality of self-reported addresses (renumbered densely); "
        "methods of the concrete type are observed through a per-type tag and a per-type bump function",
        "a share of the histories (directed, simulated, random) is executed from a destructor while the thread is unwinding",
    ]


def replay_C17(ctx, path):
    """Re-validate a saved replay block (constants are taken from its reset event)."""
    first = json.loads(open(path).readline())
    res = tlc_trace(ctx, "MetaTrace", path, TRACE_INVS, constants=trace_consts(first["nt"], first["bad"]))
    if not res["accepted"]:
        raise Violation(ctx.prop, "invariant %s fails on replay" % res["violated"], path)


CHECKS = {"C17": check_C17}
REPLAY = {"C17": replay_C17}
