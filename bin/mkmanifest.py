#!/usr/bin/env python3
"""Regenerates /verif/MANIFEST.json from the table below (claims) — run after adding a check."""
import json, os, sys

VERIF = os.path.dirname(os.path.dirname(os.path.abspath(__file__)))
TB = ("Trusted base: TLC 1.8 (tla2tools), rustc/cargo, rayon and atomic_refcell as dependencies, the harness (address-based "
      "identification of boxed systems through the verif-hooks accessor, event logging under one mutex at linearisation points, "
      "JSON recording). Exhaustive only within the model constants stated in the evidence file; beyond them sampled real runs "
      "judged by the same TLA+ predicates.")
PLN = "TLC model checking of Planner.tla + every TLC terminal state replayed on the real builder + real registration traces validated by ShredTrace"
EXE = "TLC model checking of Exec.tla (all interleavings of small plans) + real gated/free-running dispatches validated by ShredTrace"

CLAIMS = {
    "C01": ("Planner.tla: no side-by-side conflict in any reachable plan (InvC01/InvBook) for all registration sequences within the constants; "
            "every terminal state replayed on the real builder. Exec.tla: every interleaving of every admissible small plan keeps conflicting systems "
            "apart and never enables a borrow panic. Real dispatches (pool 1..24, gated so that every system that can start is held inside run, and "
            "free running) are recorded and C01Run is evaluated by TLC in every state of the trace, C01At after every registration.",
            PLN + "; " + EXE + " (InvC01s, InvC01x)", "DESIGN.md §5 C01"),
    "C02": ("As C01 for dependencies: C02Static on the model and on every real registration (dependency lists with duplicates, across barriers), "
            "C02Run in every state of every recorded real dispatch (a dependent that starts while a dependency is still held inside run is in the log).",
            PLN + "; " + EXE + " (InvC02s, InvC02x)", "DESIGN.md §5 C02"),
    "C03": ("Barriers: C03Static / stuttering redundant barriers on the model and real registrations (leading, repeated, trailing barriers inserted by "
            "the harness must not change the plan), C03Run in every state of recorded real dispatches.",
            PLN + "; " + EXE + " (InvC03s, InvC03x)", "DESIGN.md §5 C03"),
    "C04": ("Exactly once: the executed list (hook) contains every registered system exactly once at an append position (InvStruct), the built "
            "dispatcher runs the builder's plan; per-dispatch run counters of every system incl. systems inside (multi-)batches and thread-local ones "
            "for dispatch / dispatch_par / dispatch_seq / dispatch_thread_local, checked by TLC at every end event; asynchronous dispatches completed by "
            "wait() (ordinary systems once per issued dispatch, thread-local ones once per wait, whatever was called in between).",
            PLN + "; " + EXE + " (InvStruct, InvC04s, InvC04x)", "DESIGN.md §5 C04"),
    "C05": ("Schedule independence: in Exec.tla every interleaving of every small plan ends in the world and the per-system observations of the sequential "
            "run; on the real code every value a system writes is recomputed by TLC from what it declared to read (order-sensitive hash), and the world read "
            "back after each dispatch must equal the sequential fold over the plan computed in TLA+; crate built with and without `parallel`.",
            EXE + " (InvC05)", "DESIGN.md §5 C05"),
    "C06": ("SysData.tla gives the composition rules (reads/writes concatenation, member-order fetch with unwinding, setup = composition of member "
            "setups) for Read/Write/Option/Expect/unit/PhantomData, tuples of arity 1..26, nestings and derived structs; TLC enumerates shapes x presence "
            "sets and emits reference values; a generator turns them into thousands of real Rust types (incl. every arity and derive flavour) that are "
            "exercised on the real library (reads()/writes(), real borrow state of every cell while alive and after drop, panic kinds, setup, exec) and "
            "every observation is validated by TLC (SysDataTrace) against the shape's semantics.",
            "TLC model checking of MCSysData + generated type zoo replayed on the real library + SysDataTrace validation (InvC06decl, InvC06borrow, InvC06setup)",
            "DESIGN.md §5 C06"),
    "C07": ("Batch = union: the trace spec computes a batch's access as controller data + everything inside (any depth) and evaluates C01/C02/C03/C04 on "
            "outer and inner dispatchers alike; inner dispatches only inside the batch's window (InvC07); Exec.tla with a batch explores all interleavings "
            "of outer systems with inner dispatches. KF1 (thread-local inside a batch) is a listed known finding.",
            EXE + " (InvC07, InvC01s, InvC01x, InvC02x, InvC03x, InvC04x) on batch-heavy programs", "DESIGN.md §5 C07"),
    "C08": ("World borrows: World.tla (one action per public call with its outcome: unit/none/some/guard/panic(type|absent|borrow)), explored exhaustively "
            "for 2 types x 2 dynamic ids, <= 3 live guards, histories up to 5-6 calls, state predicate P_C08 and outcome rule R_C08 on every transition; every "
            "emitted history is replayed on the real World with the outcome and the probed state of every cell compared after every call; long random real "
            "histories (incl. by-id calls with mismatching types, clone, unwinding, system_data, exec, meta iterators) and multi-thread histories (2-8 threads, "
            "call/return logging, canaries) are validated by WorldTrace, the latter for linearizability (powerset of explaining configurations); WorldCell.tla "
            "models atomic_refcell's counter protocol to justify the single linearisation point.",
            "TLC model checking of World.tla/WorldCell.tla + histories replayed on the real World + WorldTrace validation incl. linearizability (InvC08)", "DESIGN.md §5 C08"),
    "C09": ("World as typed map: same model and harness as C08 with predicate P_C09 / rule R_C09 (stored type = key type, insert replaces, remove returns the "
            "stored value, entry never overwrites, presence queries agree, dynamic ids independent, mismatching type argument => panic and unchanged, every value "
            "dropped exactly once via drop counters), observed through get_mut_raw(id).type_id(), payloads and per-ident drop counts after every call.",
            "TLC model checking of World.tla + histories replayed on the real World + WorldTrace validation (InvC09)", "DESIGN.md §5 C09"),
    "C10": ("TLC checks InvC10 (+corollary) on the implementation-shaped planner model for every registration sequence within the constants; every "
            "terminal state is replayed on the real DispatcherBuilder (layout of the executed list must equal the model's, else the real trace is judged "
            "by the same predicate), random large registration traces are validated with C10At after every registration; max_threads = widest stage.",
            PLN + " (InvC10)", "DESIGN.md §5 C10"),
    "C11": ("Real parallelism: Rendezvous.tla (liveness: with W >= Width every rendezvous system gets inside run and the stage terminates, all Width systems "
            "inside run together; negative control W < Width must stall) for each width; on the real code stages of rendezvous systems of widths 2..16 "
            "with user pools, dispatch_par, the default pool, inside a batch, through the async dispatcher and called from a foreign pool, several "
            "running-time hint sets, repeated dispatches: every run is validated as a behaviour of Rendezvous by TLC; a stall counts only if reproduced "
            "(a dispatch that never returns ends the attempt through a watchdog). Pool.tla: which pool a dispatcher / a batch gets (the handle shared by "
            "builder, dispatcher and batches): exhaustive call sequences new / add_pool / add_batch / build, every one replayed on real builders whose "
            "probe systems report the pool they ran on, traces validated by PoolTrace.",
            "TLC liveness checking of Rendezvous.tla + real rendezvous runs validated by RendezvousTrace (InvC11); TLC model checking of Pool.tla + "
            "spec->impl replay + PoolTrace (InvC11pool)", "DESIGN.md §5 C11, §12.1"),
    "C12": ("Thread-local systems: position in the list at registration; at run time thread = the caller's, after all other systems, one at a time in "
            "registration order (TLC on recorded dispatches incl. dispatch_thread_local and mixed call sequences); Exec.tla with thread-local systems. "
            "KF1 is reported as KNOWN-FINDING.",
            EXE + " (InvC12s, InvC12)", "DESIGN.md §5 C12"),
    "C13": ("Setup/dispose fan-out: Lifecycle.tla (the code's visiting order incl. batches and thread-local systems, every presence subset, repeated "
            "setup, removes in between); real dispatchers with batches nested up to 3 and thread-local systems: every system's setup and dispose hook "
            "exactly once (dispose also for dispatchers that were never set up), nothing pre-existing modified, exactly the accessed resources created "
            "(TLC on recorded setup/dispose traces).",
            "TLC model checking of Lifecycle.tla + real setup/dispose traces validated by ShredTrace (InvC13)", "DESIGN.md §5 C13"),
    "C14": ("Panic containment: Exec.tla with the fault action PanicIn at every position; real dispatches with harness-injected panics (one or two systems, "
            "any position incl. thread-local and batch members, siblings held inside run) — payload, no rerun, no dependent ran, all cells free (quiescent probe), "
            "world consistent, next dispatch exactly once.",
            EXE + " with fault injection (InvC14, InvC04x)", "DESIGN.md §5 C14"),
    "C15": ("Async dispatcher: Async.tla (caller and background job as two processes, every call sequence of bounded length interleaved with the job; "
            "safety invariants, the RunningAction property and the liveness property that every blocking call returns); the safety invariants are "
            "additionally proved for call sequences of ANY length by an inductive invariant discharged with Apalache (AsyncInd.tla, with negative "
            "controls); real AsyncDispatcher sessions with "
            "random call sequences while the background systems are held inside run: TLC checks on the recorded trace that blocking calls return only "
            "when everything is complete, running() is true while a system runs and false only when all finished, dispatches never overlap or get lost, "
            "thread-local systems only inside wait on the caller.",
            "TLC model checking of Async.tla + Apalache inductive invariant (AsyncInd.tla) + real async sessions validated by ShredTrace (InvC15, InvC04x, InvC12)", "DESIGN.md §5 C15"),
    "C16": ("Par/Seq trees: ParSeq.tla (tree as a table; construction child by child with the Par::with check of the three intersections under debug "
            "assertions; LeafFetch/LeafFinish enabled iff no seq ancestor has an unfinished earlier child) checked for all trees with <= 5 leaves and every "
            "interleaving; every emitted tree is built from the REAL Par/Seq/Nil constructors (run-time adapter + compile-time par!/seq! types), with() "
            "outcomes, reads/writes and setup compared; TLC schedules forced on the real tree with leaves held inside run; random deep trees dispatched "
            "from outside / inside / a foreign pool and validated by ParSeqTrace.",
            "TLC model checking of ParSeq.tla + trees/schedules replayed on the real Par/Seq nodes + ParSeqTrace validation (InvC16Tr*)", "DESIGN.md §5 C16"),
    "C17": ("Meta table: Meta.tla (the three parallel tables, world presence, live guards and iterators, every call with its outcome some/none/panic_cast/"
            "panic_borrow) explored exhaustively; every register sequence (with repeats) x presence subset x get/get_mut/iter/iter_mut history is replayed on "
            "the real MetaTable/World with self-reporting implementing types of different sizes (address, tag, per-type method), borrow state probed after "
            "every call; random long real histories validated by MetaTrace.",
            "TLC model checking of Meta.tla + histories replayed on the real MetaTable + MetaTrace validation (InvC17Tr*)", "DESIGN.md §5 C17"),
    "C18": ("Builder totality: Planner.tla with the two reject actions at every position (C18Action) and the capacity invariant; real builder calls under "
            "catch_unwind: panic iff ill-formed, message quotes an offending name, nothing changed; long sequences, funnels into one group, unnamed systems.",
            PLN + " (InvC18, InvCap, C18Action)", "DESIGN.md §5 C18"),
    "C19": ("Determinism: every TLC-enumerated registration sequence and random large ones are instantiated under renamings of systems, injective relabellings "
            "of resources over types and dynamic ids, permuted/duplicated access lists, redundant barriers, in two processes built with and without `parallel`; "
            "TLC compares every placement with variant 0's (InvC19).",
            PLN + " with k variants per sequence (InvC19)", "DESIGN.md §5 C19"),
    "C20": ("Every real Debug print of a builder (unnamed systems, batches, names needing sanitising) is parsed and compared by TLC (C20Printed) with the "
            "layout of the executed list, and the built dispatcher's layout with the builder's; builders printed after every registration call "
            "(print; register; print) must show the plan of that moment.",
            PLN + " (InvC20)", "DESIGN.md §5 C20"),
}
# contributor modules register themselves here when present
EXTRA = os.path.join(VERIF, "bin", "manifest_extra.json")
if os.path.exists(EXTRA):
    for k, v in json.load(open(EXTRA)).items():
        CLAIMS[k] = tuple(v)

NOT_BUILT = "check not built (or not yet sound) in this round: no claim is made; see DESIGN.md §5 for the planned TLA+ treatment"


def main():
    ids = [json.loads(l)["id"] for l in open(os.path.join(VERIF, "properties.jsonl"))]
    checks = []
    for pid in ids:
        if pid not in CLAIMS:
            continue
        text, tech, ref = CLAIMS[pid]
        checks.append({
            "property_id": pid, "quick_cmd": "bin/check %s --tier quick" % pid, "thorough_cmd": "bin/check %s --tier thorough" % pid,
            "evidence_file": "/verif/evidence/%s.json" % pid, "replay_cmd_template": "bin/check %s --replay {path}" % pid,
            "engine": "tla-conformance",
            "level_claimed": {"category": "model_checking", "text": text, "design_ref": ref},
            "level_note": TB, "technique": tech})
    m = {
        "version": 1,
        "setup_cmd": "bin/check --setup",
        "hooks": {"guard": "verif-hooks",
                  "enable": "cargo feature `verif-hooks` of shred, switched on by /verif/harness/Cargo.toml (path dependency on /repo)",
                  "baseline_off_cmd": "cd /repo && cargo test --workspace --no-fail-fast --offline",
                  "source_commits": ["9fcadb8"], "add_only": True},
        "engines": [{"name": "tla-conformance", "path": "/verif/bin/check", "serves_properties": [c["property_id"] for c in checks],
                     "kind_free_text": "explicit TLA+ specification (spec/*.tla) model-checked by TLC; TLC behaviours replayed on the real library "
                                       "and traces of the real library validated by TLC against the property predicates (harness/)"}],
        "checks": checks,
        "not_applicable": [{"property_id": p, "reason": NOT_BUILT} for p in ids if p not in CLAIMS],
        "notes": "Verdicts only by TLA+ property predicates evaluated by TLC on traces of the real code; disagreement with the implementation-shaped "
                 "model alone is reported as NOTE model-drift. Known findings: /verif/KNOWN_FINDINGS.",
    }
    json.dump(m, open(os.path.join(VERIF, "MANIFEST.json"), "w"), indent=1)
    print("claimed:", [c["property_id"] for c in checks])


main()
