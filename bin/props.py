"""Per-property checks.  Every check = model checking of the design (TLC) +
spec->impl replay + impl->spec trace validation, verdict by the property's own
predicate (PlanProps / ShredTrace invariants)."""
import json, os
from vlib import *  # noqa

EXTRA_MODULES = []

# ------------------------------------------------------------------ planner stages

PLANNER_INVS = {
    "C01": ["InvC01", "InvBook"],
    "C02": ["InvC02"],
    "C03": ["InvC03", "InvEpoch"],
    "C04": ["InvC04", "InvBook"],
    "C10": ["InvC10", "InvC10Cor"],
    "C18": ["InvCap", "InvNames"],
    "C19": ["InvC04"],
    "C20": ["InvC04", "InvNames"],
}
TRACE_INVS = {
    "C01": ["InvC01s", "InvC01x"],
    "C02": ["InvC02s", "InvC02x"],
    "C03": ["InvC03s", "InvC03x"],
    "C04": ["InvStruct", "InvC04s", "InvC04x"],
    "C05": ["InvC05"],
    "C07": ["InvC07", "InvC01s", "InvC01x", "InvC02x", "InvC03x", "InvC04x"],
    "C10": ["InvC10"],
    "C12": ["InvC12s", "InvC12"],
    "C14": ["InvC14", "InvC04x"],
    "C18": ["InvC18", "InvCap"],
    "C19": ["InvC19"],
    "C20": ["InvC20"],
}


def planner_consts(N, res, times, maxdeps, unnamed=False, rejects=False, maxtl=0, fixpre=True):
    return {"N": N, "Res": res, "Times": times, "MaxDeps": maxdeps, "Cap": 5,
            "FixPre": "TRUE" if fixpre else "FALSE", "Rejects": "TRUE" if rejects else "FALSE",
            "MaxTL": maxtl, "Unnamed": "TRUE" if unnamed else "FALSE"}


def planner_mc(ctx, consts, invs, emit=True, properties=(), workers=8, label=""):
    invs = list(invs) + (["Emit"] if emit else [])
    res = tlc_mc(ctx, "MCPlanner", cfg_text(constants=consts, invariants=invs, properties=properties),
                 workers=workers, capture_replay=emit)
    if res["violated"]:
        rp = ctx.save_replay("model-%s-%s.txt" % (res["violated"], label or "mc"), tail(res["out"], 300))
        raise ToolError("the planner MODEL violates %s (%s): spec/implementation mismatch to be repaired in the spec, see %s"
                        % (res["violated"], label, rp))
    ctx.cov["states"] += res["distinct"]
    ctx.cov["transitions"] += res["states"]
    ctx.cov["model_runs"].append({"module": "MCPlanner", "constants": consts, "invariants": invs + list(properties),
                                  "states_generated": res["states"], "distinct": res["distinct"], "wall_s": res["wall_s"],
                                  "exhaustive": True})
    return res


def planner_s2i(ctx, replay_path, invs, variants=2, parallel=True, keep=150):
    """TLC terminal states -> real builder; equal layout = verdict transferred from the
    model; different layout = validated by the property predicates (drift != violation)."""
    out = ctx.fresh("s2i", "ndjson")
    st = run_bin(ctx, "planner", ["replay", "--in", replay_path, "--out", out, "--seed", ctx.seed,
                                  "--variants", variants, "--keep-matching", keep], parallel=parallel)
    ctx.cov["impl_runs"].append({"kind": "spec->impl planner replay", "behaviours": st["behaviours"],
                                 "instantiations": st["instantiations"], "matched_model": st["matched"],
                                 "model_drift": st["drift"], "distinct_layouts": st["distinct_layouts"]})
    ctx.cov["traces_validated_against_impl"] += st["instantiations"]
    for s in st["samples"][:2]:
        ctx.sample({"kind": "TLC behaviour replayed on the real builder", "case": s})
    if st["drift"]:
        ctx.note("model-drift: %d of %d instantiations differ from Planner.tla's prediction; judged by the property predicates"
                 % (st["drift"], st["instantiations"]))
        for s in st["drift_samples"][:2]:
            ctx.sample({"kind": "drift", "case": s})
    if os.path.getsize(out) > 0:
        validate_blocks(ctx, "ShredTrace", out, invs, classify=classify_block)
    return st


def planner_i2s(ctx, invs, count, nmin, nmax, nres, variants=1, extra=(), parallel=True, seed_off=0):
    out = ctx.fresh("i2s", "ndjson")
    st = run_bin(ctx, "planner", ["random", "--seed", ctx.seed * 1000 + seed_off, "--count", count, "--nmin", nmin,
                                  "--nmax", nmax, "--nres", nres, "--variants", variants, "--out", out] + list(extra),
                 parallel=parallel)
    ctx.cov["impl_runs"].append({"kind": "impl->spec random registration traces", "programs": st["programs"],
                                 "variants": st["variants"], "systems": st["systems"], "events": st["events"],
                                 "nmin": nmin, "nmax": nmax})
    ctx.cov["traces_validated_against_impl"] += st["programs"] * st["variants"]
    for s in st["samples"][:1]:
        ctx.sample({"kind": "random registration program (validated by ShredTrace)", "prog": s})
    validate_blocks(ctx, "ShredTrace", out, invs, classify=classify_block)
    return out


def exec_i2s(ctx, invs, count, nmin, nmax, nres=8, dispatches=3, extra=(), parallel=True, seed_off=0):
    """Real dispatches (gated by the controller / free running) recorded and validated by ShredTrace."""
    out = ctx.fresh("x2s", "ndjson")
    st = run_bin(ctx, "exec", ["random", "--seed", ctx.seed * 1000 + 17 + seed_off, "--count", count, "--nmin", nmin,
                               "--nmax", nmax, "--nres", nres, "--dispatches", dispatches, "--out", out] + list(extra),
                 parallel=parallel)
    ctx.cov["impl_runs"].append({"kind": "impl->spec recorded real dispatches", "programs": st["programs"],
                                 "dispatches": st["dispatches"], "systems": st["systems"], "events": st["events"],
                                 "max_systems_held_inside_run_at_once": st["max_held"], "controller_releases": st["releases"],
                                 "panicking_dispatches": st["panicking_dispatches"], "parallel_feature": parallel,
                                 "args": [str(x) for x in extra]})
    ctx.cov["traces_validated_against_impl"] += st["dispatches"]
    if st["stalls"]:
        ctx.note("controller saw %d stall(s) (no system arrived for 20 s); not judged" % st["stalls"])
    for s in st["samples"][:1]:
        ctx.sample({"kind": "program whose real dispatches were recorded (validated by ShredTrace)", "prog": s})
    validate_blocks(ctx, "ShredTrace", out, invs, classify=classify_block)
    return st


def classify_block(blk, inv):
    """Key of a known finding this violating block belongs to, or None."""
    return None


def planner_family(ctx, prop, mc_extra_props=()):
    invs_m = PLANNER_INVS[prop]
    invs_t = TRACE_INVS[prop]
    if ctx.quick():
        r = planner_mc(ctx, planner_consts(3, "{1,2}", "{1,3}", 2), invs_m, label="q")
        planner_s2i(ctx, r["replay"], invs_t, variants=2)
        planner_i2s(ctx, invs_t, count=40, nmin=4, nmax=40, nres=8)
        planner_i2s(ctx, invs_t, count=6, nmin=100, nmax=300, nres=14, extra=["--pbatch", 0.03], seed_off=1)
    else:
        r = planner_mc(ctx, planner_consts(3, "{1,2}", "{1,3,5}", 2, unnamed=True), invs_m, label="t1")
        planner_s2i(ctx, r["replay"], invs_t, variants=2)
        r = planner_mc(ctx, planner_consts(4, "{1,2}", "{3}", 1), invs_m, label="t2")
        planner_s2i(ctx, r["replay"], invs_t, variants=2)
        r = planner_mc(ctx, planner_consts(3, "{1,2,3}", "{3}", 1), invs_m, label="t3")
        planner_s2i(ctx, r["replay"], invs_t, variants=3)
        planner_i2s(ctx, invs_t, count=400, nmin=4, nmax=60, nres=10)
        planner_i2s(ctx, invs_t, count=40, nmin=100, nmax=400, nres=16, extra=["--pbatch", 0.03], seed_off=1)
    ctx.cov["exhaustive"] = False
    ctx.assumptions += [
        "TLC explores the planner model exhaustively only within the stated constants",
        "placement is observed through the verif-hooks accessor on the executed list; system identity by box address",
    ]


def exec_family(ctx, prop, extra=(), nopar=False):
    invs = TRACE_INVS[prop]
    if ctx.quick():
        exec_i2s(ctx, invs, count=40, nmin=3, nmax=30, dispatches=3, extra=extra)
        exec_i2s(ctx, invs, count=4, nmin=60, nmax=150, nres=12, dispatches=2, extra=list(extra) + ["--gated", 0.5], seed_off=1)
        if nopar:
            exec_i2s(ctx, invs, count=20, nmin=3, nmax=30, dispatches=2, extra=extra, parallel=False, seed_off=2)
    else:
        exec_i2s(ctx, invs, count=400, nmin=3, nmax=40, dispatches=4, extra=extra)
        exec_i2s(ctx, invs, count=30, nmin=60, nmax=300, nres=14, dispatches=2, extra=list(extra) + ["--gated", 0.5], seed_off=1)
        if nopar:
            exec_i2s(ctx, invs, count=100, nmin=3, nmax=40, dispatches=3, extra=extra, parallel=False, seed_off=2)
    ctx.assumptions += [
        "events are logged under one mutex while the logging system holds its guards (fetch after acquire, finish before release)",
        "the controller provokes maximal overlap by holding every started system inside run; timing affects only which schedules are seen",
    ]


def check_C01(ctx):
    planner_family(ctx, "C01")
    exec_family(ctx, "C01")


def check_C02(ctx):
    planner_family(ctx, "C02")
    exec_family(ctx, "C02", extra=["--pdep", 0.5])


def check_C03(ctx):
    planner_family(ctx, "C03")
    exec_family(ctx, "C03", extra=["--pbarrier", 0.2])


def check_C04(ctx):
    planner_family(ctx, "C04")
    exec_family(ctx, "C04", extra=["--modes", "disp,par,seq,tlonly,disp", "--ptl", 0.1])


def check_C10(ctx):
    planner_family(ctx, "C10")


def check_C20(ctx):
    planner_family(ctx, "C20")


CHECKS = {
    "C01": check_C01,
    "C02": check_C02,
    "C03": check_C03,
    "C04": check_C04,
    "C10": check_C10,
    "C20": check_C20,
}


# checks contributed by separate modules (world / system data / meta table / par-seq)
import importlib
for _m in ["props_world", "props_sysdata", "props_meta", "props_parseq"]:
    try:
        _mod = importlib.import_module(_m)
    except ModuleNotFoundError:
        continue
    CHECKS.update(_mod.CHECKS)
    EXTRA_MODULES += list(getattr(_mod, "MODULES", []))


def replay(ctx, path):
    """Re-validate a saved replay trace with the property's invariants."""
    invs = TRACE_INVS.get(ctx.prop, [])
    res = tlc_trace(ctx, "ShredTrace", path, invs)
    if not res["accepted"]:
        raise Violation(ctx.prop, "invariant %s fails on replay" % res["violated"], path)
