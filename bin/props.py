"""Per-property checks.  Every check = model checking of the design (TLC) +
spec->impl replay + impl->spec trace validation, verdict by the property's own
predicate (PlanProps / ShredTrace invariants)."""
import json, os, re, shutil
from vlib import *  # noqa

EXTRA_MODULES = []

# ------------------------------------------------------------------ planner stages

PLANNER_INVS = {
    "C01": ["InvC01", "InvBook"],
    "C02": ["InvC02"],
    "C03": ["InvC03", "InvEpoch"],
    "C04": ["InvC04", "InvBook"],
    "C10": ["InvC10", "InvC10Cor"],
    "C18": ["InvCap", "InvNames"],
    "C19": ["InvC04"],
    "C20": ["InvC04", "InvNames"],
}
TRACE_INVS = {
    "C01": ["InvStruct", "InvC01s", "InvC01x"],
    "C02": ["InvStruct", "InvC02s", "InvC02x"],
    "C03": ["InvStruct", "InvC03s", "InvC03x"],
    "C04": ["InvStruct", "InvC04s", "InvC04x"],
    "C05": ["InvStruct", "InvC05"],
    "C07": ["InvStruct", "InvC07", "InvC01s", "InvC01x", "InvC02x", "InvC03x", "InvC04x"],
    "C10": ["InvC10"],
    "C12": ["InvStruct", "InvC12s", "InvC12", "InvC04x"],
    "C13": ["InvC13", "InvStruct"],
    "C14": ["InvStruct", "InvC14", "InvC04x"],
    "C15": ["InvC15", "InvC04x", "InvC12"],
    "C18": ["InvC18", "InvCap"],
    "C19": ["InvC19"],
    "C20": ["InvC20"],
}


def planner_consts(N, res, times, maxdeps, unnamed=False, rejects=False, maxtl=0, fixpre=True):
    return {"N": N, "Res": res, "Times": times, "MaxDeps": maxdeps, "Cap": 5,
            "FixPre": "TRUE" if fixpre else "FALSE", "Rejects": "TRUE" if rejects else "FALSE",
            "MaxTL": maxtl, "Unnamed": "TRUE" if unnamed else "FALSE"}


def planner_mc(ctx, consts, invs, emit=True, properties=(), workers=8, label=""):
    invs = list(invs) + (["Emit"] if emit else [])
    res = tlc_mc(ctx, "MCPlanner", cfg_text(constants=consts, invariants=invs, properties=properties),
                 workers=workers, capture_replay=emit)
    if res["violated"]:
        rp = ctx.save_replay("model-%s-%s.txt" % (res["violated"], label or "mc"), tail(res["out"], 300))
        raise ToolError("the planner MODEL violates %s (%s): spec/implementation mismatch to be repaired in the spec, see %s"
                        % (res["violated"], label, rp))
    ctx.cov["states"] += res["distinct"]
    ctx.cov["transitions"] += res["states"]
    ctx.cov["model_runs"].append({"module": "MCPlanner", "constants": consts, "invariants": invs + list(properties),
                                  "states_generated": res["states"], "distinct": res["distinct"], "wall_s": res["wall_s"],
                                  "exhaustive": True, "action_counts": res["actions"]})
    return res


def planner_s2i(ctx, replay_path, invs, variants=2, parallel=True, keep=150):
    """TLC terminal states -> real builder; equal layout = verdict transferred from the
    model; different layout = validated by the property predicates (drift != violation)."""
    out = ctx.fresh("s2i", "ndjson")
    st = run_bin(ctx, "planner", ["replay", "--in", replay_path, "--out", out, "--seed", ctx.seed,
                                  "--variants", variants, "--keep-matching", keep], parallel=parallel)
    ctx.cov["impl_runs"].append({"kind": "spec->impl planner replay", "behaviours": st["behaviours"],
                                 "instantiations": st["instantiations"], "matched_model": st["matched"],
                                 "model_drift": st["drift"], "distinct_layouts": st["distinct_layouts"]})
    ctx.cov["traces_validated_against_impl"] += st["instantiations"]
    for s in st["samples"][:2]:
        ctx.sample({"kind": "TLC behaviour replayed on the real builder", "case": s})
    if st["drift"]:
        ctx.note("model-drift: %d of %d instantiations differ from Planner.tla's prediction; judged by the property predicates"
                 % (st["drift"], st["instantiations"]))
        for s in st["drift_samples"][:2]:
            ctx.sample({"kind": "drift", "case": s})
    if os.path.getsize(out) > 0:
        validate_blocks(ctx, "ShredTrace", out, invs, classify=classify_block)
    return st


def planner_i2s(ctx, invs, count, nmin, nmax, nres, variants=1, extra=(), parallel=True, seed_off=0):
    out = ctx.fresh("i2s", "ndjson")
    # a few ill-formed calls everywhere: a rejected call must change nothing for what follows
    st = run_bin(ctx, "planner", ["random", "--seed", ctx.seed * 1000 + seed_off, "--count", count, "--nmin", nmin,
                                  "--nmax", nmax, "--nres", nres, "--variants", variants, "--out", out] + list(extra) + ["--pill", 0.04],
                 parallel=parallel)
    ctx.cov["impl_runs"].append({"kind": "impl->spec random registration traces", "programs": st["programs"],
                                 "variants": st["variants"], "systems": st["systems"], "events": st["events"],
                                 "nmin": nmin, "nmax": nmax})
    ctx.cov["traces_validated_against_impl"] += st["programs"] * st["variants"]
    for s in st["samples"][:1]:
        ctx.sample({"kind": "random registration program (validated by ShredTrace)", "prog": s})
    validate_blocks(ctx, "ShredTrace", out, invs, classify=classify_block)
    return out


def exec_i2s(ctx, invs, count, nmin, nmax, nres=8, dispatches=3, extra=(), parallel=True, seed_off=0):
    """Real dispatches (gated by the controller / free running) recorded and validated by ShredTrace."""
    out = ctx.fresh("x2s", "ndjson")
    st = run_bin(ctx, "exec", ["random", "--seed", ctx.seed * 1000 + 17 + seed_off, "--count", count, "--nmin", nmin,
                               "--nmax", nmax, "--nres", nres, "--dispatches", dispatches, "--out", out] + list(extra),
                 parallel=parallel)
    ctx.cov["impl_runs"].append({"kind": "impl->spec recorded real dispatches", "programs": st["programs"],
                                 "dispatches": st["dispatches"], "systems": st["systems"],
                                 "of_which_zero_sized_types": st.get("zero_sized_systems", 0), "events": st["events"],
                                 "max_systems_held_inside_run_at_once": st["max_held"], "controller_releases": st["releases"],
                                 "panicking_dispatches": st["panicking_dispatches"], "parallel_feature": parallel,
                                 "args": [str(x) for x in extra]})
    ctx.cov["traces_validated_against_impl"] += st["dispatches"]
    if st["stalls"]:
        ctx.note("controller saw %d stall(s) (no system arrived for 20 s); not judged" % st["stalls"])
    for s in st["samples"][:1]:
        ctx.sample({"kind": "program whose real dispatches were recorded (validated by ShredTrace)", "prog": s})
    validate_blocks(ctx, "ShredTrace", out, invs, classify=classify_block)
    return st


def classify_block(ctx, blk, inv, idx, invariants):
    """Key of a known finding this violating block belongs to, or None.
    KF1 (key inner-tl): a thread-local system registered on a builder that is passed to add_batch.
      * C12: the failing event is the fetch of such a system (it runs on a pool worker);
      * C01/C07: the violation disappears when the accesses of inner thread-local systems are
        left out of the batch's union (decided by TLC on the modified block), i.e. the only
        thing wrong is that the real batch accessor does not contain them."""
    evs = [json.loads(x) for x in blk]
    batch_builders = {e["inner"] for e in evs if e["ev"] == "batch"}
    inner_tl = {e["id"] for e in evs if e["ev"] == "tl" and e["b"] in batch_builders}
    if not inner_tl:
        return None
    if inv == "InvC12":
        e = evs[idx - 1] if 0 < idx <= len(evs) else None
        if e and e["ev"] == "fetch" and e["s"] in inner_tl:
            return "inner-tl"
        return None
    if inv in ("InvC01s", "InvC01x", "InvC07", "InvC05"):
        # the same root cause can also surface as a REAL borrow-conflict panic: the inner thread-local
        # system fetches what an overlapping outer system holds.  Such a panic is "explained" when an inner
        # thread-local system of a batch that is inside its window conflicts with a system that is inside run.
        acc = {e["id"]: (set(e["r"]), set(e["w"])) for e in evs if e["ev"] in ("add", "tl")}
        owner_batch = {e["inner"]: e["id"] for e in evs if e["ev"] == "batch"}
        builder_of = {e["id"]: e["b"] for e in evs if e["ev"] in ("add", "tl", "batch", "nest")}

        def conflict(a, b):
            return bool(a[1] & (b[0] | b[1])) or bool(a[0] & b[1])

        mod = []
        running = set()
        overlap = {}          # batch gid -> systems that were inside run at some moment of the batch's window
        for e in evs:
            if e["ev"] == "begin" and e.get("d") == 1:
                running = set()
                overlap = {}
            elif e["ev"] == "fetch":
                running.add(e["s"])
            for b in running:
                if b in owner_batch.values():
                    overlap.setdefault(b, set()).update(running)
            if e["ev"] in ("finish", "panic"):
                running.discard(e["s"])
            if e["ev"] == "tl" and e["b"] in batch_builders:
                e = dict(e, r=[], w=[])
            if e["ev"] == "end" and e.get("borrowpanic"):
                explained = any(owner_batch.get(builder_of[t]) in running and
                                any(x in acc and builder_of.get(x) != builder_of[t] and conflict(acc[t], acc[x])
                                    for x in overlap.get(owner_batch.get(builder_of[t]), ()))
                                for t in inner_tl)
                if explained:
                    e = dict(e, borrowpanic=False)
            mod.append(json.dumps(e) + "\n")
        path = ctx.fresh("kf1", "ndjson")
        with open(path, "w") as f:
            f.writelines(mod)
        res = tlc_trace(ctx, "ShredTrace", path, [i for i in invariants if i in ("InvC01s", "InvC01x", "InvC07")])
        if res["accepted"]:
            return "inner-tl"
    return None


# ------------------------------------------------------------------ executor model

EXEC_CFGS = {
    # every plan over 4 layouts x all access assignments admitted by the planner's guarantee,
    # every interleaving, one injected panic
    "flat": dict(Res="{1,2}", NSys=4, Layouts="LayoutsFlat4", TLs="NoTL", BatchSys=0, InnerLayout="NoInner", BatchN=0,
                 W=4, MaxPanics=1, K=1, Modes="ModesPar", MaxDeps=0, Barriers="FALSE"),
    "deps": dict(Res="{1}", NSys=4, Layouts="LayoutsFlat4", TLs="NoTL", BatchSys=0, InnerLayout="NoInner", BatchN=0,
                 W=4, MaxPanics=1, K=1, Modes="ModesParSeq", MaxDeps=1, Barriers="TRUE"),
    "tl": dict(Res="{1}", NSys=4, Layouts="LayoutsTL", TLs="TL_34", BatchSys=0, InnerLayout="NoInner", BatchN=0,
               W=2, MaxPanics=1, K=2, Modes="ModesAll", MaxDeps=0, Barriers="FALSE"),
    "batch": dict(Res="{1}", NSys=5, Layouts="LayoutsBatch", TLs="NoTL", BatchSys=2, InnerLayout="InnerPar", BatchN=2,
                  W=3, MaxPanics=1, K=1, Modes="ModesPar", MaxDeps=0, Barriers="FALSE"),
    "batchseq": dict(Res="{1}", NSys=5, Layouts="LayoutsBatch", TLs="NoTL", BatchSys=2, InnerLayout="InnerSeq", BatchN=2,
                     W=2, MaxPanics=1, K=1, Modes="ModesParSeq", MaxDeps=0, Barriers="FALSE"),
    "flat2": dict(Res="{1,2}", NSys=4, Layouts="LayoutsFlat4", TLs="NoTL", BatchSys=0, InnerLayout="NoInner", BatchN=0,
                  W=2, MaxPanics=2, K=2, Modes="ModesParSeq", MaxDeps=0, Barriers="FALSE"),
}
OPERATOR_CONSTS = ("Layouts", "TLs", "InnerLayout", "Modes")


def exec_mc(ctx, name, invs, workers=8):
    c = dict(EXEC_CFGS[name], Mut='"none"')
    lines = ["SPECIFICATION Spec", "CHECK_DEADLOCK FALSE", "CONSTANTS"]
    for k, v in c.items():
        lines.append("  %s %s %s" % (k, "<-" if k in OPERATOR_CONSTS else "=", v))
    lines.append("INVARIANTS")
    lines += ["  " + i for i in invs]
    res = tlc_mc(ctx, "MCExec", "\n".join(lines) + "\n", workers=workers)
    if res["violated"]:
        rp = ctx.save_replay("model-Exec-%s-%s.txt" % (res["violated"], name), tail(res["out"], 300))
        raise ToolError("the executor MODEL violates %s (%s): to be repaired in the spec, see %s" % (res["violated"], name, rp))
    ctx.cov["states"] += res["distinct"]
    ctx.cov["transitions"] += res["states"]
    ctx.cov["model_runs"].append({"module": "MCExec", "config": name, "constants": c, "invariants": list(invs),
                                  "states_generated": res["states"], "distinct": res["distinct"], "wall_s": res["wall_s"],
                                  "exhaustive": True, "action_counts": res["actions"]})


SHRED_INVS = {"C01": ["SInvC01", "SInvNoBorrowPanic"], "C02": ["SInvC02"], "C03": ["SInvC03"], "C04": ["SInvC04"],
              "C05": ["SInvC05", "SInvNoBorrowPanic"], "C14": ["SInvC14", "SInvC04"]}


def exec_s2i(ctx, prop, n=3, res="{1,2}", times="{3}", maxdeps=1, w=3, panics=0, modes='{"par"}', maxforce=1500):
    """Planner and executor composed (MCShred): the executor predicates on every plan the planner model really
    builds; the emitted (registration sequence, eager schedule) behaviours are forced on the real dispatcher."""
    consts = dict(planner_consts(n, res, times, maxdeps), W=w, MaxPanics=panics, ModesC=modes)
    cfg = cfg_text(spec="SpecS", constants=consts, invariants=SHRED_INVS[prop] + ["EmitS"], extra=["VIEW ViewS"])
    res_ = tlc_mc(ctx, "MCShred", cfg, capture_replay=True)
    if res_["violated"]:
        rp = ctx.save_replay("model-MCShred-%s.txt" % res_["violated"], tail(res_["out"], 300))
        raise ToolError("the composed MODEL violates %s: to be repaired in the spec, see %s" % (res_["violated"], rp))
    ctx.cov["states"] += res_["distinct"]
    ctx.cov["transitions"] += res_["states"]
    ctx.cov["model_runs"].append({"module": "MCShred", "constants": consts, "invariants": SHRED_INVS[prop],
                                  "states_generated": res_["states"], "distinct": res_["distinct"], "wall_s": res_["wall_s"], "exhaustive": True})
    out = ctx.fresh("sch", "ndjson")
    st = run_bin(ctx, "exec", ["schedule", "--in", res_["replay"], "--out", out, "--seed", ctx.seed, "--max", maxforce])
    ctx.cov["impl_runs"].append({"kind": "spec->impl TLC schedules forced on the real dispatcher", "behaviours_emitted": st["behaviours_emitted"],
                                 "forced": st["forced"], "followed_exactly_with_equal_run_sets": st["followed_exactly"],
                                 "runset_mismatch": st["runset_mismatch"], "deviated": st["deviated"], "layout_drift": st["layout_drift"]})
    ctx.cov["traces_validated_against_impl"] += st["forced"]
    if st["layout_drift"]:
        ctx.note("model-drift: %d forced behaviours had a real plan different from the model's" % st["layout_drift"])
    if st["runset_mismatch"] or st["deviated"]:
        ctx.note("%d schedules not followed exactly / %d run-set mismatches (timing, work stealing): deviations are not judged; "
                 "the recorded traces are" % (st["deviated"], st["runset_mismatch"]))
    for x in st["samples"][:1]:
        ctx.sample({"kind": "TLC (registration, schedule) behaviour forced on the real dispatcher", "case": x})
    validate_blocks(ctx, "ShredTrace", out, TRACE_INVS[prop], classify=classify_block)


def async_stage(ctx, invs, count, extra=(), seed_off=0):
    """Async dispatcher sessions (caller call sequences, background systems held inside run) judged by `invs`."""
    out = ctx.fresh("as", "ndjson")
    st = run_bin(ctx, "exec", ["async", "--seed", ctx.seed * 1000 + 31 + seed_off, "--count", count, "--calls", 12, "--out", out] + list(extra),
                 timeout=1800)
    ctx.cov["impl_runs"].append({"kind": "impl->spec async dispatcher sessions", "programs": st["programs"], "calls": st["calls"],
                                 "events": st["events"], "args": [str(x) for x in extra]})
    ctx.cov["traces_validated_against_impl"] += st["programs"]
    validate_blocks(ctx, "ShredTrace", out, invs, classify=classify_block)


def exec_scenarios(ctx, invs, progs, label):
    """Fixed programs (hand-written scenarios) run for real and validated."""
    inp = ctx.fresh("scn", "jsonl")
    with open(inp, "w") as f:
        for p in progs:
            f.write(json.dumps(p) + "\n")
    out = ctx.fresh("scn", "ndjson")
    st = run_bin(ctx, "exec", ["prog", "--in", inp, "--out", out, "--seed", ctx.seed])
    ctx.cov["impl_runs"].append({"kind": "impl->spec scenario programs: " + label, "programs": st["programs"],
                                 "dispatches": st["dispatches"], "events": st["events"]})
    ctx.cov["traces_validated_against_impl"] += st["dispatches"]
    validate_blocks(ctx, "ShredTrace", out, invs, classify=classify_block)


def add(r=(), w=(), deps=(), t=3, name=""):
    return {"op": "add", "r": list(r), "w": list(w), "deps": list(deps), "t": t, "name": name}


def tl(r=(), w=()):
    return {"op": "tl", "r": list(r), "w": list(w)}


def batch(inner, ctl=0, n=1, multi=False, deps=(), t=3, name=""):
    return {"op": "batch", "ctl": ctl, "n": n, "multi": multi, "inner": {"ops": inner}, "deps": list(deps), "t": t, "name": name}


# KF1 scenarios: thread-local systems on a builder handed to add_batch
KF1_PROGS = [
    {"prog": {"ops": [add(w=[1], name="outer"), batch([add(r=[2], name="in"), tl(r=[1])], name="batch")]},
     "modes": ["disp", "seq", "par"], "gated": True},
    {"prog": {"ops": [add(r=[1], name="o1"), add(r=[2], name="o2"),
                      batch([tl(w=[1]), add(w=[3], name="i1"), tl(r=[3])], n=2, name="b"), tl(r=[1])]},
     "modes": ["disp", "disp"], "gated": True},
    # MultiDispatcher over a builder with thread-local systems; builders holding only thread-local / unnamed systems
    {"prog": {"ops": [add(r=[4], name="o"), batch([add(w=[5], name="i"), tl(), tl(r=[5])], n=2, multi=True, name="m")]},
     "modes": ["disp", "seq"], "gated": True},
    {"prog": {"ops": [add(r=[4], name="o"), batch([tl(), tl()], n=1, name="onlytl"), batch([add(w=[6]), tl()], n=2, name="unnamedtl")]},
     "modes": ["disp", "disp"], "gated": True},
]


# the controller's own declared data is part of the batch's access: outer systems touching exactly that data,
# registered without any dependency on the batch (101 / 102 = the resources the controller kinds 1..3 declare)
CTL_PROGS = [
    {"prog": {"ops": [batch([add(w=[1], name="in")], ctl=2, name="b"), add(r=[101], name="reader")]},
     "modes": ["disp", "par", "seq"], "gated": True},
    {"prog": {"ops": [add(w=[102], name="writer"), batch([add(r=[1], name="in")], ctl=3, n=2, name="b"), add(w=[101], name="w2")]},
     "modes": ["disp", "par"], "gated": True},
    {"prog": {"ops": [batch([batch([add(w=[1], name="deep")], ctl=2, name="inner")], ctl=0, name="outer"), add(r=[101], name="reader"),
                      add(w=[1], name="w1")]},
     "modes": ["disp", "par"], "gated": True},
    {"prog": {"ops": [add(r=[101], name="r0"), batch([add(w=[2], name="in")], ctl=2, n=2, multi=True, name="m"), add(r=[101], name="r1")]},
     "modes": ["disp", "seq", "par"], "gated": True},
    # the inner planner APPENDS i3 to i2's group (single conflict, better balance): what i3 alone touches is part of the
    # batch's access like everything else (both orders of the two resource ids; outer system before and after the batch)
    {"prog": {"ops": [batch([add(w=[1], t=3, name="i1"), add(w=[2], t=1, name="i2"), add(r=[2], w=[3], t=2, name="i3")], name="b"),
                      add(w=[3], name="o")]},
     "modes": ["disp", "par", "seq"], "gated": True},
    {"prog": {"ops": [add(r=[2], name="o"),
                      batch([add(w=[1], t=3, name="i1"), add(w=[3], t=1, name="i2"), add(r=[3], w=[2], t=2, name="i3")], n=2, name="b")]},
     "modes": ["disp", "par", "seq"], "gated": True},
    {"prog": {"ops": [batch([batch([add(w=[1], t=5, name="i1"), add(r=[4], t=1, name="i2"), add(w=[4], r=[3], t=1, name="i3"),
                                    add(w=[4, 2], t=1, name="i4")], name="in")], ctl=1, name="out"),
                      add(w=[3], name="o3"), add(r=[2], name="o2")]},
     "modes": ["disp", "par"], "gated": True},
]


def planner_family(ctx, prop, mc_extra_props=(), qdeps=2):
    invs_m = PLANNER_INVS[prop]
    invs_t = TRACE_INVS[prop]
    if ctx.quick():
        r = planner_mc(ctx, planner_consts(3, "{1,2}", "{1,3}", qdeps), invs_m, label="q", properties=mc_extra_props)
        planner_s2i(ctx, r["replay"], invs_t, variants=2)
        planner_i2s(ctx, invs_t, count=40, nmin=4, nmax=40, nres=8, extra=["--boundary", "--funnel", 40])
        planner_i2s(ctx, invs_t, count=6, nmin=100, nmax=300, nres=14, extra=["--pbatch", 0.03], seed_off=1)
    else:
        r = planner_mc(ctx, planner_consts(3, "{1,2}", "{1,3,5}", 2, unnamed=True), invs_m, label="t1", properties=mc_extra_props)
        planner_s2i(ctx, r["replay"], invs_t, variants=2)
        r = planner_mc(ctx, planner_consts(4, "{1,2}", "{3}", 1), invs_m, label="t2")
        planner_s2i(ctx, r["replay"], invs_t, variants=2)
        r = planner_mc(ctx, planner_consts(3, "{1,2,3}", "{3}", 1), invs_m, label="t3")
        planner_s2i(ctx, r["replay"], invs_t, variants=3)
        planner_i2s(ctx, invs_t, count=400, nmin=4, nmax=60, nres=10, extra=["--boundary", "--funnel", 400])
        planner_i2s(ctx, invs_t, count=40, nmin=100, nmax=400, nres=16, extra=["--pbatch", 0.03], seed_off=1)
    # the library built without debug assertions / overflow checks (what --release gives): random programs again
    with nodebug_pass(ctx):
        planner_i2s(ctx, invs_t, count=25 if ctx.quick() else 300, nmin=4, nmax=60, nres=8, extra=["--pbatch", 0.05], seed_off=3)
    ctx.cov["exhaustive"] = False
    ctx.assumptions += [
        "TLC explores the planner model exhaustively only within the stated constants",
        "placement is observed through the verif-hooks accessor on the executed list; system identity by box address",
    ]


EXEC_MODEL_INVS = {
    "C01": ["InvC01", "InvNoBorrowPanic"], "C02": ["InvC02"], "C03": ["InvC03"], "C04": ["InvC04"],
    "C05": ["InvC05", "InvNoBorrowPanic"], "C07": ["InvC07", "InvC01", "InvC04", "InvNoBorrowPanic"],
    "C12": ["InvC12"], "C14": ["InvC14", "InvC04"],
}


def exec_family(ctx, prop, extra=(), nopar=False, mc=("flat",), mc_thorough=(), big=True):
    invs = TRACE_INVS[prop]
    for m in mc + (() if ctx.quick() else tuple(mc_thorough)):
        exec_mc(ctx, m, EXEC_MODEL_INVS[prop])
    if ctx.quick():
        exec_i2s(ctx, invs, count=40, nmin=3, nmax=30, dispatches=3, extra=list(extra) + ["--boundary"])
        if big:
            exec_i2s(ctx, invs, count=4, nmin=60, nmax=150, nres=12, dispatches=2, extra=list(extra) + ["--gated", 0.5], seed_off=1)
        if nopar:
            exec_i2s(ctx, invs, count=20, nmin=3, nmax=30, dispatches=2, extra=extra, parallel=False, seed_off=2)
    else:
        exec_i2s(ctx, invs, count=400, nmin=3, nmax=40, dispatches=4, extra=list(extra) + ["--boundary"])
        if big:
            exec_i2s(ctx, invs, count=30, nmin=60, nmax=300, nres=14, dispatches=2, extra=list(extra) + ["--gated", 0.5], seed_off=1)
        if nopar:
            exec_i2s(ctx, invs, count=100, nmin=3, nmax=40, dispatches=3, extra=extra, parallel=False, seed_off=2)
    with nodebug_pass(ctx):
        exec_i2s(ctx, invs, count=12 if ctx.quick() else 200, nmin=3, nmax=30, dispatches=3, extra=extra, seed_off=4)
    ctx.assumptions += [
        "events are logged under one mutex while the logging system holds its guards (fetch after acquire, finish before release)",
        "the controller provokes maximal overlap by holding every started system inside run; timing affects only which schedules are seen",
    ]


def check_C01(ctx):
    planner_family(ctx, "C01", qdeps=1)
    exec_family(ctx, "C01", extra=["--ppanic", 0.12], mc=("flat",), mc_thorough=("flat2", "batch", "deps"))
    # funnel programs under the controller: long groups whose members conflict with members that are not their
    # neighbours - whatever the executor does inside a group, two conflicting members are never inside run together
    exec_i2s(ctx, TRACE_INVS["C01"], count=14 if ctx.quick() else 150, nmin=3, nmax=30, dispatches=2,
             extra=["--pfunnel", 1.0, "--gated", 1.0], seed_off=6)
    exec_s2i(ctx, "C01", maxforce=1500 if ctx.quick() else 17000)
    async_stage(ctx, ["InvC01x"], 80 if ctx.quick() else 600, extra=["--ppanic", 0.35])


def check_C02(ctx):
    planner_family(ctx, "C02")
    exec_family(ctx, "C02", extra=["--pdep", 0.5, "--ppanic", 0.2], mc=("deps",), mc_thorough=("flat2",))
    exec_s2i(ctx, "C02", maxforce=1500 if ctx.quick() else 17000)
    async_stage(ctx, ["InvC02x"], 100 if ctx.quick() else 800, extra=["--ppanic", 0.35, "--pdep", 0.5, "--nmax", 18])


def check_C03(ctx):
    planner_family(ctx, "C03", qdeps=1)
    # very many stages (barrier index far beyond 255) and barriers followed by rejected calls
    planner_i2s(ctx, TRACE_INVS["C03"], count=30 if ctx.quick() else 300, nmin=4, nmax=30, nres=6,
                extra=["--chain", 2 if ctx.quick() else 10, "--pill", 0.12, "--pbarrier", 0.25], seed_off=7)
    exec_family(ctx, "C03", extra=["--pbarrier", 0.2, "--ppanic", 0.15], mc=("deps",), mc_thorough=("flat2",))
    exec_s2i(ctx, "C03", maxforce=1500 if ctx.quick() else 17000)
    async_stage(ctx, ["InvC03x"], 80 if ctx.quick() else 600, extra=["--ppanic", 0.35, "--pbarrier", 0.2])


# thread-local systems inside batches that are dispatched several times per run (conflict-free by construction:
# known finding KF1 is about their accesses and their thread, not about how often they run)
C04_PROGS = [
    {"prog": {"ops": [add(r=[4], name="o"), batch([add(w=[5], name="i"), tl(r=[6]), tl()], n=3, multi=True, name="m"),
                      batch([tl(w=[7]), add(r=[8], name="j")], n=2, name="h")]},
     "modes": ["disp", "seq", "par", "disp"], "gated": True},
    {"prog": {"ops": [batch([batch([tl(r=[9]), add(w=[10], name="deep")], n=2, multi=True, name="in")], n=2, name="out"), tl(r=[11])]},
     "modes": ["disp", "disp", "seq"], "gated": True},
]


def check_C04(ctx):
    exec_scenarios(ctx, ["InvStruct", "InvC04x"], C04_PROGS, "thread-local systems inside batches dispatched several times per run")
    planner_family(ctx, "C04", qdeps=1)
    exec_family(ctx, "C04", extra=["--modes", "disp,par,seq,tlonly,disp", "--ptl", 0.1, "--ppanic", 0.15, "--pool1", 0.15, "--pnest", 0.06], mc=("tl", "batch"),
                mc_thorough=("flat2", "deps", "batchseq"))
    # the asynchronous dispatcher: every dispatch that wait() completes has run every system once, thread-local ones
    # included, also when the caller polled running() or looked at the world before it waited
    async_stage(ctx, ["InvC04x"], 80 if ctx.quick() else 600, extra=["--ptl", 0.3, "--ppanic", 0.2], seed_off=4)


def check_C05(ctx):
    exec_family(ctx, "C05", extra=["--ppanic", 0.15], nopar=True, mc=("flat", "batchseq"), mc_thorough=("flat2", "deps", "tl", "batch"))
    # running-time hints 1 and 3: the group-append path of the planner is part of the plans that are run
    # (only parallel mode is forced: the model lets dispatch_seq take the groups in any order, the code takes storage order)
    exec_s2i(ctx, "C05", res="{1}" if ctx.quick() else "{1,2}", times="{1,3}", modes='{"par"}', maxforce=2000 if ctx.quick() else 30000)
    exec_scenarios(ctx, TRACE_INVS["C05"], CTL_PROGS, "outer systems touching the data a batch controller declares")
    # asynchronous dispatch is a parallel dispatch too: nothing lost, nothing overtaken, values as computed by the spec
    async_stage(ctx, ["InvC05", "InvC15"], 80 if ctx.quick() else 600, extra=["--ppanic", 0.2])


def check_C07(ctx):
    # (recovered panics too: the inner dispatchers must stay usable - exactly-once on every later inner dispatch)
    exec_family(ctx, "C07", extra=["--pbatch", 0.3, "--depth", 3, "--ppanic", 0.2], mc=("batch", "batchseq"), big=False)
    exec_i2s(ctx, TRACE_INVS["C07"], count=6 if ctx.quick() else 60, nmin=30, nmax=70, nres=10, dispatches=2,
             extra=["--pbatch", 0.12, "--depth", 2], seed_off=5)
    # the scenario of known finding KF1 (reported as KNOWN-FINDING while listed)
    exec_scenarios(ctx, TRACE_INVS["C07"], KF1_PROGS, "thread-local system inside a batch")
    exec_scenarios(ctx, TRACE_INVS["C07"], CTL_PROGS, "outer systems touching the data a batch controller declares")


def pool_stage(ctx):
    """Pool.tla: which pool a dispatcher / a batch uses (the shared handle of builder, dispatcher and batches).
    Exhaustive call sequences new / add_pool / add_batch / build on the model, every one of them replayed on real
    builders (each dispatcher's probe system reports the pool it ran on), traces validated by PoolTrace."""
    (nb, steps) = (3, 7) if ctx.quick() else (4, 8)
    base = "SPECIFICATION Spec\nCHECK_DEADLOCK FALSE\nCONSTANTS\n  NB = %d\n  NP = 2\n  MaxSteps = %d\nINVARIANTS\n" % (nb, steps)
    invs = ["TypeOK", "InvHasPool", "InvChildFollows", "InvTopChildren", "InvLastWins", "InvNoSilentDefault"]
    res = tlc_mc(ctx, "MCPool", base + "".join("  %s\n" % i for i in invs + ["Emit"]), capture_replay=True)
    if res["violated"]:
        raise ToolError("the Pool MODEL violates %s" % res["violated"])
    neg = tlc_mc(ctx, "MCPool", base + "  OnePoolPerTree\n")
    if neg["violated"] != "OnePoolPerTree":
        raise ToolError("negative control failed: Pool.tla does not refute OnePoolPerTree (the named deviation of the code)")
    ctx.cov["states"] += res["distinct"]
    ctx.cov["transitions"] += res["states"]
    ctx.cov["model_runs"].append({"module": "MCPool", "constants": {"NB": nb, "NP": 2, "MaxSteps": steps}, "invariants": invs,
                                  "states_generated": res["states"], "distinct": res["distinct"], "wall_s": res["wall_s"],
                                  "exhaustive": True, "action_counts": res["actions"],
                                  "negative_control": "OnePoolPerTree is refuted (a batch two levels down keeps its parent's old cell)"})
    out = ctx.fresh("pools", "ndjson")
    st = run_bin(ctx, "exec", ["pools", "--in", res["replay"], "--random", 300 if ctx.quick() else 5000, "--max", 4000 if ctx.quick() else 60000,
                               "--keep", 400 if ctx.quick() else 3000, "--seed", ctx.seed, "--out", out], timeout=3000)
    ctx.cov["impl_runs"].append({"kind": "spec->impl replay of Pool behaviours on real builders + random call sequences "
                                         "(every dispatcher's probe reports the pool it ran on)",
                                 "behaviours": st["behaviours"], "agree_with_model": st["agree"], "disagree": st["disagree"],
                                 "blocks_also_validated_by_TLC": st["blocks_written"],
                                 "probes_on_a_library_made_pool": st["probes_on_a_library_made_pool"]})
    ctx.cov["traces_validated_against_impl"] += st["behaviours"]
    for x in st["samples"][:1]:
        ctx.sample({"kind": "call sequence on real builders and where each dispatcher's probe ran (0 = a pool made by the library)", "case": x})
    if st["disagree"]:
        ctx.note("%d pool behaviours differ from Pool.tla's prediction; judged by PoolTrace" % st["disagree"])
    n = validate_blocks(ctx, "PoolTrace", out, ["InvC11pool", "InvHasPool", "InvChildFollows", "InvLastWins"], classify=None)
    if st["disagree"]:
        raise ToolError("replay disagrees with MCPool in %d runs but PoolTrace accepts the traces: spec/harness inconsistency" % st["disagree"])
    ctx.assumptions.append("the pool a system ran on is observed through the worker thread's name (user pools are built with named threads; "
                           "anything else counts as a pool made by the library)")


def check_C11(ctx):
    # liveness of the design: every width, W = Width terminates with all systems inside run together;
    # negative control W = Width-1 must stall (otherwise the model would be vacuous)
    for width in (range(2, 7) if ctx.quick() else range(2, 11)):
        cfg = "SPECIFICATION Spec\nCHECK_DEADLOCK FALSE\nCONSTANTS\n  Width = %d\n  W = %d\nPROPERTIES\n  Terminates\n  AllTogether\n" % (width, width)
        res = tlc_mc(ctx, "Rendezvous", cfg, workers=2)
        if res["violated"]:
            raise ToolError("the Rendezvous MODEL violates %s at width %d" % (res["violated"], width))
        ctx.cov["states"] += res["distinct"]
        ctx.cov["transitions"] += res["states"]
        neg = tlc_mc(ctx, "Rendezvous", "SPECIFICATION Spec\nCHECK_DEADLOCK FALSE\nCONSTANTS\n  Width = %d\n  W = %d\nINVARIANTS\n  NoStall\n" % (width, width - 1), workers=2)
        if neg["violated"] != "NoStall":
            raise ToolError("negative control failed: Rendezvous with W < Width does not stall (width %d)" % width)
        ctx.cov["model_runs"].append({"module": "Rendezvous", "Width": width, "W": width, "properties": ["Terminates (liveness, WF)", "AllTogether"],
                                      "distinct": res["distinct"], "negative_control_W": width - 1, "negative_control": "stalls as required"})
    pool_stage(ctx)
    out = ctx.fresh("rv", "ndjson")
    st = run_bin(ctx, "exec", ["rendezvous", "--seed", ctx.seed, "--out", out, "--reps", 3 if ctx.quick() else 10,
                               "--wmax", 16], timeout=3000)
    ctx.cov["impl_runs"].append({"kind": "impl->spec rendezvous runs (widths 2..16; user pool, dispatch_par, default pool, inside a batch, async, "
                                         "called from a foreign pool; several running-time hint sets)", "runs": st["runs"],
                                 "reproduced_stalls": st["stalls"], "skipped_default_pool": st["skipped_default_pool"], "cores": st["cores"]})
    ctx.cov["traces_validated_against_impl"] += st["runs"]
    for x in st["samples"][:2]:
        ctx.sample({"kind": "rendezvous run", "case": x})
    validate_blocks(ctx, "RendezvousTrace", out, ["InvC11"], classify=None)
    # the process confined to ONE cpu (a small container): a user pool still has its threads, siblings still overlap
    if shutil.which("taskset"):
        out = ctx.fresh("rv", "ndjson")
        st = run_bin(ctx, "exec", ["rendezvous", "--seed", ctx.seed + 70, "--out", out, "--reps", 2, "--wmax", 5 if ctx.quick() else 12],
                     timeout=3000, prefix=["taskset", "-c", "0"])
        ctx.cov["impl_runs"].append({"kind": "impl->spec rendezvous runs with the process confined to one CPU (taskset -c 0)", "runs": st["runs"],
                                     "reproduced_stalls": st["stalls"], "skipped_default_pool": st["skipped_default_pool"]})
        ctx.cov["traces_validated_against_impl"] += st["runs"]
        validate_blocks(ctx, "RendezvousTrace", out, ["InvC11"], classify=None)
    else:
        ctx.note("taskset not available: no one-CPU rendezvous pass")
    with nodebug_pass(ctx):
        out = ctx.fresh("rv", "ndjson")
        st = run_bin(ctx, "exec", ["rendezvous", "--seed", ctx.seed + 50, "--out", out, "--reps", 2, "--wmax", 6 if ctx.quick() else 16], timeout=3000)
        ctx.cov["impl_runs"].append({"kind": "impl->spec rendezvous runs", "runs": st["runs"], "reproduced_stalls": st["stalls"]})
        ctx.cov["traces_validated_against_impl"] += st["runs"]
        validate_blocks(ctx, "RendezvousTrace", out, ["InvC11"], classify=None)
    ctx.assumptions += ["a stall is a 20 s timeout of a rendezvous system that reproduces in two immediate repetitions",
                        "C11 can only be refuted on the implementation (reproducible stall), never proved"]


def check_C12(ctx):
    # InvC04x belongs here too: a thread-local system that is silently not run violates "run ... in registration order"
    exec_family(ctx, "C12", extra=["--ptl", 0.2, "--modes", "disp,disp,tlonly,seq", "--pnest", 0.06, "--pool1", 0.2, "--ppanic", 0.25], mc=("tl",))
    exec_scenarios(ctx, TRACE_INVS["C12"], KF1_PROGS, "thread-local system inside a batch")
    # the manual form of dispatch (dispatch_seq, then dispatch_thread_local): everything is on the calling thread, so known
    # finding KF1 cannot show and cannot hide anything - the thread-local systems inside the batches run in every inner
    # dispatch, after the ordinary inner systems, in registration order
    exec_scenarios(ctx, TRACE_INVS["C12"], [dict(p, modes=["seq", "tlonly", "seq", "tlonly"]) for p in C04_PROGS],
                   "thread-local systems inside batches under dispatch_seq + dispatch_thread_local")
    # async dispatcher: thread-local systems only inside wait(), on the caller, every wait
    out = ctx.fresh("as", "ndjson")
    st = run_bin(ctx, "exec", ["async", "--seed", ctx.seed * 1000 + 7, "--count", 80 if ctx.quick() else 600, "--calls", 12,
                               "--ptl", 0.3, "--ppanic", 0.5, "--out", out], timeout=1800)
    ctx.cov["impl_runs"].append({"kind": "impl->spec async dispatcher sessions with thread-local systems", "programs": st["programs"],
                                 "calls": st["calls"], "events": st["events"]})
    ctx.cov["traces_validated_against_impl"] += st["programs"]
    validate_blocks(ctx, "ShredTrace", out, ["InvC12", "InvC12s"], classify=classify_block)
    # try_into_sendable: exactly when there is no thread-local system; preserves the plan
    out = ctx.fresh("snd", "ndjson")
    st = run_bin(ctx, "planner", ["sendable", "--seed", ctx.seed, "--count", 200 if ctx.quick() else 3000, "--out", out])
    ctx.cov["impl_runs"].append({"kind": "impl->spec try_into_sendable conversions", "programs": st["programs"]})
    ctx.cov["traces_validated_against_impl"] += st["programs"]
    validate_blocks(ctx, "ShredTrace", out, ["InvC12s", "InvStruct"], classify=classify_block)


def check_C13(ctx):
    # design: the fan-out order of the code, every presence subset, repeated setup, removes in between
    lines = ["SPECIFICATION Spec", "CHECK_DEADLOCK FALSE", "CONSTANTS", "  Res = {1,2}", "  NSys = 7", "  Layout <- L_out",
             "  TLs <- TL_out", "  BatchSys = 2", "  InnerLayout <- L_in", "  InnerTLs <- TL_in",
             "  Rounds = %d" % (2 if ctx.quick() else 3), "  AccChoices = {{}, {1}, {2}}",
             "INVARIANTS", "  InvC13setup", "  InvC13noclobber", "  InvC13nothingElse", "  InvC13dispose", "  InvOrderCoversPlan"]
    res = tlc_mc(ctx, "MCLifecycle", "\n".join(lines) + "\n")
    if res["violated"]:
        raise ToolError("the Lifecycle MODEL violates %s" % res["violated"])
    ctx.cov["states"] += res["distinct"]
    ctx.cov["transitions"] += res["states"]
    ctx.cov["model_runs"].append({"module": "MCLifecycle", "states_generated": res["states"], "distinct": res["distinct"],
                                  "wall_s": res["wall_s"], "exhaustive": True})
    # real dispatchers: batches nested 0..3 deep, thread-local systems (also inside batches), any subset of the
    # resources pre-existing with distinctive values, setup repeated / a dispatch in between, then dispose
    for (cnt, nmax, off) in ([(80, 20, 0), (10, 80, 1)] if ctx.quick() else [(800, 24, 0), (60, 120, 1)]):
        out = ctx.fresh("lc", "ndjson")
        st = run_bin(ctx, "exec", ["lifecycle", "--seed", ctx.seed * 1000 + off, "--count", cnt, "--nmax", nmax, "--out", out])
        ctx.cov["impl_runs"].append({"kind": "impl->spec setup/dispose traces", "programs": st["programs"], "systems": st["systems"],
                                     "events": st["events"], "max_batch_depth": st["max_batch_depth"]})
        ctx.cov["traces_validated_against_impl"] += st["programs"]
        for x in st["samples"][:1]:
            ctx.sample({"kind": "program whose setup/dispose was recorded", "prog": x})
        validate_blocks(ctx, "ShredTrace", out, ["InvC13", "InvStruct"], classify=classify_block)
    with nodebug_pass(ctx):
        out = ctx.fresh("lc", "ndjson")
        st = run_bin(ctx, "exec", ["lifecycle", "--seed", ctx.seed * 1000 + 9, "--count", 25 if ctx.quick() else 300, "--nmax", 20, "--out", out])
        ctx.cov["impl_runs"].append({"kind": "impl->spec setup/dispose traces", "programs": st["programs"], "systems": st["systems"],
                                     "events": st["events"], "max_batch_depth": st["max_batch_depth"]})
        ctx.cov["traces_validated_against_impl"] += st["programs"]
        validate_blocks(ctx, "ShredTrace", out, ["InvC13", "InvStruct"], classify=classify_block)
    # AsyncDispatcher::setup (also while a dispatch is in flight: it must wait and then reach everything)
    async_stage(ctx, ["InvC13", "InvC15"], 70 if ctx.quick() else 500, extra=["--setuplog", "--ptl", 0.15])
    # the library's own SystemData setup code (Read/Write/Option/Expect, tuples, derive): contributed stage
    try:
        import props_sysdata
        if hasattr(props_sysdata, "c13_sysdata_stage"):
            props_sysdata.c13_sysdata_stage(ctx)
    except ModuleNotFoundError:
        ctx.note("system-data half of C13 (static SystemData types) not available in this build")
    ctx.assumptions.append("setup/dispose callbacks are observed through harness systems; controllers have no hook of their own, "
                           "their declared data is observed through the world")


def check_C14(ctx):
    exec_family(ctx, "C14", extra=["--ppanic", 0.6, "--modes", "disp,par,seq,disp", "--ptl", 0.15, "--dispatches", 4, "--pbatch", 0.2], mc=("flat", "tl"),
                mc_thorough=("flat2", "batch", "deps"))
    exec_s2i(ctx, "C14", panics=1, times="{3}" if ctx.quick() else "{1,3}", maxforce=1500 if ctx.quick() else 20000)


def apalache(ctx, module, init, inv, length, cinit="ConstInit", timeout=900):
    """One Apalache run; returns 'NoError' | 'Error' (a counterexample exists)."""
    outd = ctx.fresh("apa", "d")
    r = sh(["apalache-mc", "check", "--cinit=" + cinit, "--init=" + init, "--inv=" + inv, "--length=%d" % length,
            "--out-dir=" + outd, os.path.join(SPEC, module + ".tla")], cwd=ctx.work, timeout=timeout)
    m = re.search(r"The outcome is: (\w+)", r.stdout)
    shutil.rmtree(outd, ignore_errors=True)
    if not m:
        raise ToolError("apalache-mc gave no outcome for %s/%s:\n%s" % (module, inv, r.stdout[-1500:]))
    return m.group(1)


def check_C15(ctx):
    # unbounded call sequences: an inductive invariant of Async.tla discharged by Apalache (symbolic),
    # with negative controls showing that the induction hypothesis is satisfiable
    obligations = [("Init", "IndInv", 0, "NoError", "Init => IndInv"),
                   ("IndInit", "IndInv", 1, "NoError", "IndInv /\\ Next => IndInv'"),
                   ("IndInit", "Consequences", 0, "NoError", "IndInv => InvC15owned /\\ InvC15running /\\ InvC15noOverlap /\\ InvC15tl"),
                   ("IndInit", "SanityInflight", 0, "Error", "negative control: IndInit has a state with a job in flight"),
                   ("IndInit", "SanityWaiting", 0, "Error", "negative control: IndInit has a state inside wait() after two dispatches")]
    done = []
    for (init, inv, length, want, what) in obligations:
        got = apalache(ctx, "AsyncInd", init, inv, length)
        if got != want:
            raise ToolError("Apalache: %s: expected %s, got %s (the inductive invariant of the Async MODEL is to be repaired)" % (what, want, got))
        done.append({"obligation": what, "outcome": got})
    ctx.cov["model_runs"].append({"module": "AsyncInd (Apalache 0.58, symbolic)", "constants": {"NSys": 3, "NTl": 2},
                                  "inductive_invariant_obligations": done,
                                  "meaning": "the C15 safety invariants of Async.tla hold for call sequences of ANY length"})
    (ns, nt, mc) = (3, 2, 6) if ctx.quick() else (4, 2, 8)
    cfg = "\n".join(["SPECIFICATION Fair", "CHECK_DEADLOCK FALSE", "CONSTANTS", "  NSys = %d" % ns, "  NTl = %d" % nt,
                     "  MaxCalls = %d" % mc, "INVARIANTS", "  InvC15owned", "  InvC15running", "  InvC15noOverlap", "  InvC15tl",
                     "PROPERTIES", "  RunningAction", "  CallsReturn"]) + "\n"
    res = tlc_mc(ctx, "Async", cfg)
    if res["violated"]:
        raise ToolError("the Async MODEL violates %s" % res["violated"])
    ctx.cov["states"] += res["distinct"]
    ctx.cov["transitions"] += res["states"]
    ctx.cov["model_runs"].append({"module": "Async", "constants": {"NSys": ns, "NTl": nt, "MaxCalls": mc},
                                  "invariants": ["InvC15owned", "InvC15running", "InvC15noOverlap", "InvC15tl", "RunningAction", "CallsReturn (liveness, fair)"],
                                  "states_generated": res["states"], "distinct": res["distinct"], "wall_s": res["wall_s"], "exhaustive": True})
    invs = ["InvC15", "InvC04x", "InvC12"]
    # wide stages on pools of 1..3 workers: every ordinary system exactly once per dispatch
    async_stage(ctx, invs, 40 if ctx.quick() else 400, extra=["--nmin", 8, "--nmax", 30, "--nres", 12, "--calls", 8, "--pbatch", 0.0], seed_off=3)
    for (cnt, calls, off) in ([(100, 12, 0)] if ctx.quick() else [(800, 16, 0), (100, 30, 1)]):
        out = ctx.fresh("as", "ndjson")
        st = run_bin(ctx, "exec", ["async", "--seed", ctx.seed * 1000 + off, "--count", cnt, "--calls", calls, "--ppanic", 0.3,
                                   "--out", out], timeout=1800)
        ctx.cov["impl_runs"].append({"kind": "impl->spec async dispatcher sessions (caller call sequences, background systems held inside run)",
                                     "programs": st["programs"], "calls": st["calls"], "events": st["events"]})
        ctx.cov["traces_validated_against_impl"] += st["programs"]
        for x in st["samples"][:1]:
            ctx.sample({"kind": "async session", "case": x})
        validate_blocks(ctx, "ShredTrace", out, invs, classify=classify_block)
    with nodebug_pass(ctx):
        async_stage(ctx, invs, 15 if ctx.quick() else 200, extra=["--calls", 10, "--ppanic", 0.15], seed_off=8)
    ctx.assumptions += ["caller calls are logged before and after the real call from the calling thread; background systems log under the same mutex",
                        "no claim about how soon running() turns false after the last system"]


def check_C18(ctx):
    # the two ill-formed calls at every position, on the model ...
    consts = planner_consts(3, "{1}", "{3}", 2, unnamed=True, rejects=True) if ctx.quick() else \
        planner_consts(3, "{1,2}", "{1,3}", 2, unnamed=True, rejects=True)
    planner_mc(ctx, consts, PLANNER_INVS["C18"], emit=False, properties=["C18Action"], label="rejects")
    invs = TRACE_INVS["C18"]
    if ctx.quick():
        r = planner_mc(ctx, planner_consts(3, "{1,2}", "{1,3}", 1), PLANNER_INVS["C18"], label="q")
        planner_s2i(ctx, r["replay"], invs, variants=1)
        planner_i2s(ctx, invs, count=60, nmin=4, nmax=40, nres=6, extra=["--pill", 0.2, "--pbatch", 0.2, "--boundary"])
        # thread-local systems on builders handed to add_batch are well-formed registrations too (what known finding KF1
        # is about - their accesses and their thread - is no matter of C18's invariants)
        planner_i2s(ctx, invs, count=30, nmin=4, nmax=30, nres=6, extra=["--pill", 0.1, "--pbatch", 0.25, "--innertl", "--ptl", 0.2], seed_off=4)
        planner_i2s(ctx, invs, count=6, nmin=150, nmax=400, nres=10, extra=["--pill", 0.03], seed_off=1)
        # funnel: many conflicting systems with all running-time hints over very few resources
        planner_i2s(ctx, invs, count=30, nmin=20, nmax=80, nres=2, extra=["--pdep", 0.05, "--funnel", 300], seed_off=2)
    else:
        r = planner_mc(ctx, planner_consts(3, "{1,2}", "{1,3,5}", 2, unnamed=True), PLANNER_INVS["C18"], label="t1")
        planner_s2i(ctx, r["replay"], invs, variants=1)
        planner_i2s(ctx, invs, count=600, nmin=4, nmax=60, nres=6, extra=["--pill", 0.2])
        planner_i2s(ctx, invs, count=300, nmin=4, nmax=30, nres=6, extra=["--pill", 0.1, "--pbatch", 0.25, "--innertl", "--ptl", 0.2], seed_off=4)
        planner_i2s(ctx, invs, count=40, nmin=150, nmax=500, nres=10, extra=["--pill", 0.03], seed_off=1)
        planner_i2s(ctx, invs, count=300, nmin=20, nmax=120, nres=2, extra=["--pdep", 0.05, "--funnel", 5000], seed_off=2)
    with nodebug_pass(ctx):
        planner_i2s(ctx, invs, count=30 if ctx.quick() else 300, nmin=4, nmax=40, nres=6, extra=["--pill", 0.2, "--pbatch", 0.2], seed_off=6)
    ctx.assumptions.append("panic messages are classified by their text (No such system registered / Cannot insert multiple systems)")


def merge_variants(ctx, a_path, b_path, offset):
    """Interleave the blocks of two processes by program number; the second process's
    variant numbers are shifted so that variant 0 of the first process stays the reference."""
    def blocks_by_prog(path, off):
        out = {}
        for blk in split_blocks(path):
            e = json.loads(blk[0])
            e["var"] += off
            blk = [json.dumps(e) + "\n"] + blk[1:]
            out.setdefault(e["prog"], []).append(blk)
        return out
    A, B = blocks_by_prog(a_path, 0), blocks_by_prog(b_path, offset)
    out = ctx.fresh("merged", "ndjson")
    with open(out, "w") as f:
        for k in sorted(A):
            for blk in A[k] + B.get(k, []):
                f.writelines(blk)
    return out


def check_C19(ctx):
    invs = TRACE_INVS["C19"]
    nvar = 3 if ctx.quick() else 5
    # design: the planner model is a function of the registration sequence (every action is
    # deterministic given its input); TLC enumerates, the harness instantiates each behaviour under
    # renamings / relabellings / list permutations and all real layouts must coincide
    r = planner_mc(ctx, planner_consts(3, "{1,2}", "{1,3}", 2) if ctx.quick() else planner_consts(3, "{1,2}", "{1,3,5}", 2, unnamed=True),
                   PLANNER_INVS["C19"], label="q")
    planner_s2i(ctx, r["replay"], invs, variants=nvar)
    planner_s2i(ctx, r["replay"], invs, variants=2, parallel=False)
    # two processes, two feature sets: same seed => same programs; blocks merged per program
    for (cnt, nmin, nmax, nres, off) in ([(40, 4, 40, 8, 0), (5, 100, 300, 14, 1)] if ctx.quick() else [(300, 4, 60, 10, 0), (30, 100, 400, 16, 1)]):
        a = planner_i2s(ctx, invs, count=cnt, nmin=nmin, nmax=nmax, nres=nres, variants=nvar, seed_off=off)
        a2 = ctx.fresh("keepA", "ndjson")
        os.rename(a, a2)
        b = planner_i2s(ctx, invs, count=cnt, nmin=nmin, nmax=nmax, nres=nres, variants=nvar, seed_off=off, parallel=False)
        m = merge_variants(ctx, a2, b, nvar)
        validate_blocks(ctx, "ShredTrace", m, invs, classify=classify_block)
        ctx.cov["impl_runs"].append({"kind": "two processes (with / without `parallel`) merged per program", "programs": cnt,
                                     "variants_total": 2 * nvar})
    with nodebug_pass(ctx):
        planner_i2s(ctx, invs, count=20 if ctx.quick() else 200, nmin=4, nmax=60, nres=8, variants=nvar, seed_off=5)
    ctx.assumptions.append("two processes and two feature configurations (plus one run without debug assertions) are sampled, not all")


def check_C10(ctx):
    # PlanStep: the algorithm refines the abstract planner Plan.tla (every registration is an admissible append)
    planner_family(ctx, "C10", mc_extra_props=["PlanStep"])


def check_C20(ctx):
    planner_family(ctx, "C20")
    # the builder is printed after EVERY registration call (print; register; print ...): each text must be the plan
    # as it is at that moment - a printer may not remember anything from one call to the next
    planner_i2s(ctx, TRACE_INVS["C20"], count=50 if ctx.quick() else 500, nmin=3, nmax=25, nres=6,
                extra=["--printevery", "--pbatch", 0.1, "--pill", 0.1, "--ptl", 0.1], seed_off=9)


CHECKS = {
    "C01": check_C01,
    "C02": check_C02,
    "C03": check_C03,
    "C04": check_C04,
    "C05": check_C05,
    "C07": check_C07,
    "C12": check_C12,
    "C13": check_C13,
    "C14": check_C14,
    "C15": check_C15,
    "C18": check_C18,
    "C19": check_C19,
    "C10": check_C10,
    "C11": check_C11,
    "C20": check_C20,
}


REPLAY_FNS = {}
# checks contributed by separate modules (world / system data / meta table / par-seq)
import importlib
for _m in ["props_world", "props_sysdata", "props_meta", "props_parseq"]:
    try:
        _mod = importlib.import_module(_m)
    except ModuleNotFoundError:
        continue
    except Exception as _e:          # a contributor module that does not load must not break the others
        log("NOTE: %s not loaded: %r" % (_m, _e))
        continue
    CHECKS.update(getattr(_mod, "CHECKS", {}))
    REPLAY_FNS.update(getattr(_mod, "REPLAY_FNS", {}))
    REPLAY_FNS.update(getattr(_mod, "REPLAY", {}))
    EXTRA_MODULES += list(getattr(_mod, "MODULES", []))


def replay(ctx, path):
    """Re-validate a saved replay trace with the property's invariants."""
    if os.path.basename(path).startswith("crash-"):
        # the record of a harness process that the code under test killed: it names the command to re-run
        print(open(path).read()[:2000])
        raise Violation(ctx.prop, "crash record (re-run the command it names against the same tree)", path)
    if ctx.prop in REPLAY_FNS:
        return REPLAY_FNS[ctx.prop](ctx, path)
    invs = TRACE_INVS.get(ctx.prop, [])
    module = "ShredTrace"
    if ctx.prop == "C11":
        module, invs = "RendezvousTrace", ["InvC11"]
        with open(path) as f:
            if '"pnew"' in f.read():
                module, invs = "PoolTrace", ["InvC11pool", "InvHasPool", "InvChildFollows", "InvLastWins"]
    res = tlc_trace(ctx, module, path, invs)
    if not res["accepted"]:
        raise Violation(ctx.prop, "invariant %s fails on replay" % res["violated"], path)
