"""C06 (declared access = real borrows for every provided system-data type) and the
system-data half of C13 (setup never clobbers, Option/Expect forms create nothing, setup of a
composite = composition of member setups).

Pipeline of one run (`zoo_pipeline`):
  1. TLC model-checks spec/MCSysData.tla (several configurations side by side): enumerates a
     universe of shapes x presence subsets (x borrows held by somebody else), checks that the
     member-by-member semantics satisfies the property definitions (P_C06, P_C06_lemmas,
     P_C13_world_inv) and EMITS one reference line per (shape, presence, held).
  2. harness/gen/zoo.py turns (a seed-chosen sample of) the emitted shapes, plus shapes it
     composes itself (every arity 1..26 with all members reading / writing / default-providing
     a resource of their own / calling a custom setup handler, derived structs with bare
     type-parameter members, kind rotations over 26 distinct resources, nestings to depth 3, wide
     tuples/structs), into real Rust SystemData types: gen-out/zoo*_cases.rs, compiled into the
     `zoo*` binaries (up to 8 compilation units built in parallel).
     Twin cases: one type generic in its resource types, instantiated from two sibling blocks of one
     function with SAME-NAMED local resource types (identical type_name, distinct TypeId), first
     block then second block in one process; and a second pass re-queries reads()/writes() of every
     type in a shuffled order after everything else ran (declared ids are a function of the type,
     not of its printed name nor of what happened earlier in the process).
     Always present: wide nested shapes whose flattened reads()/writes() exceed 32 ids (up to 52, over
     up to 50 distinct resource types).  In about half of the cases the world also holds dynamic-id
     SIBLINGS (T, 1) / (T, 2) of Rust types the shape accesses statically (present or absent
     independently of (T, 0)); they are further resources the shape never mentions: probed like
     every cell, and never touched according to the model.
     Always present too: derived structs with 27..53 fields.  Setup environments: in a share of the
     composed cases one or two resources are of a type whose Default PANICS (setup must complete
     when they exist, panic at that member when they do not), and in a share of the setup runs a
     guard of one present resource was leaked (mem::forget) before the setup (the pinned code
     panics at the member that provides it and modifies nothing); Default::default() must never
     be evaluated for a resource that exists.
     Read-only storm: for the dedicated read-only shapes and a spread of other read-only zoo shapes,
     7 threads (4 std, 3 rayon workers) fetch the same type from one shared &World for 30 ms through
     T::fetch, World::system_data and RunNow::run_now, partly holding the data across further
     fetches; a declared read takes a SHARED borrow, so any failure is an InvC06borrow violation.
  3. the binaries run every type: reads()/writes() (type and StaticAccessor of a real System),
     fetch through 4 paths with single-threaded borrow probes while alive / after drop,
     setup through 4 paths on worlds with distinctive pre-existing values.  Observations are
     compared with TLC's reference lines (spec -> impl) and written as ndjson traces.
  4. TLC validates every trace against spec/SysDataTrace.tla, which recomputes all expectations
     from the shape with the SysData operators (impl -> spec); verdict by InvC06* / InvC13world."""
import concurrent.futures, fcntl, hashlib, importlib.util, json, os, re, shutil, threading, time

import vlib
from vlib import *  # noqa

MODULES = ["SysData", "MCSysData", "SysDataTrace"]
FEATURES = ("x-zoo",)

MC_INVS = ["P_C06", "LemmasOnce", "P_C13_world_inv"]
INV_C06 = ["InvC06decl", "InvC06borrow", "InvC06setup"]
INV_C13 = ["InvC13world"]
INV_PROP = {"InvC06decl": "C06", "InvC06borrow": "C06", "InvC06setup": "C06", "InvC13world": "C13"}


def _zoo_gen():
    p = os.path.join(vlib.HARNESS, "gen", "zoo.py")
    spec = importlib.util.spec_from_file_location("zoo_gen", p)
    m = importlib.util.module_from_spec(spec)
    spec.loader.exec_module(m)
    return m


class _Sub:
    """per-thread view of a Ctx: vlib.tlc_mc / tlc_trace only need `fresh` and `seed`"""

    def __init__(self, ctx, tag):
        self.ctx, self.tag, self.n, self.seed = ctx, tag, 0, ctx.seed

    def fresh(self, stem, ext):
        self.n += 1
        return self.ctx.path("%s-%s%d.%s" % (self.tag, stem, self.n, ext))


# ------------------------------------------------------------------ 1. model checking + emission

def mc_consts(nres, maxmem=0, outer=0, inner=0, arities=(), held=False, handlers=0):
    """handlers: 0 no custom-SetupHandler leaves, 1 included, 2 only shapes containing one"""
    return {"NRes": nres, "MaxMem": maxmem, "MaxOuter": outer, "MaxInner": inner,
            "Arities": "{" + ",".join(str(a) for a in sorted(arities)) + "}",
            "Held": "TRUE" if held else "FALSE", "Handlers": handlers}


ALL_ARITIES = tuple(range(1, 27))


def quick_arities(seed):
    """arities of the TLC-emitted arity table in the quick tier: fixed spread + 4 seed-chosen ones (every
    arity 1..26 is always present among the composed shapes gen-all / gen-rot)"""
    import random
    fixed = [1, 2, 3, 5, 8, 13, 21, 26]
    rest = [a for a in ALL_ARITIES if a not in fixed]
    return tuple(fixed + random.Random(seed).sample(rest, 4))


def mc_configs(tier, light=False, seed=1):
    """label -> (constants, kind); kind 'arity' lines feed the arity table, the others the pool"""
    if light:       # C13 stage: setup does not depend on borrows; depth 1/2 and the arity table suffice
        return [
            ("d1", mc_consts(2, maxmem=3) if tier == "quick" else mc_consts(3, maxmem=3), "mc"),
            ("hnd", mc_consts(2, maxmem=2, outer=2, inner=1, handlers=2), "mc"),
            ("arity", mc_consts(1, arities=quick_arities(seed), handlers=1), "arity"),
        ]
    if tier == "quick":
        return [
            ("d1", mc_consts(2, maxmem=3), "mc"),                       # leaves + depth 1, <= 3 members
            ("d2", mc_consts(1, outer=2, inner=1), "mc"),               # depth 2 (2 resources: see hnd)
            ("held", mc_consts(2, maxmem=2, held=True), "mc"),          # somebody else holds a borrow
            ("hnd", mc_consts(2, maxmem=2, outer=2, inner=1, handlers=2), "mc"),   # custom setup handlers, depth 1 and 2
            ("arity", mc_consts(1, arities=quick_arities(seed), handlers=1), "arity"),   # arity x position x kind
        ]
    return [
        ("d1", mc_consts(3, maxmem=3), "mc"),
        ("d2", mc_consts(3, outer=2, inner=1), "mc"),
        ("held", mc_consts(2, maxmem=3, held=True), "mc"),
        ("held3", mc_consts(3, maxmem=2, held=True), "mc"),
        ("hnd", mc_consts(2, maxmem=3, outer=2, inner=1, handlers=2), "mc"),
        ("hnd3", mc_consts(3, maxmem=2, handlers=2), "mc"),
        ("arity", mc_consts(2, arities=ALL_ARITIES, handlers=1), "arity"),
    ]


def run_mc(ctx, tier, workers_each=3, light=False):
    cfgs = mc_configs(tier, light, ctx.seed)
    results = {}

    def one(item):
        label, consts, kind = item
        sub = _Sub(ctx, "mc-" + label)
        r = tlc_mc(sub, "MCSysData", cfg_text(constants=consts, invariants=MC_INVS + ["Emit"]),
                   workers=workers_each, timeout=240 if tier == "quick" else 1500, capture_replay=True)
        return label, consts, kind, r

    with concurrent.futures.ThreadPoolExecutor(max_workers=len(cfgs)) as ex:
        for label, consts, kind, r in ex.map(one, cfgs):
            if r["violated"]:
                rp = ctx.save_replay("model-%s-%s.txt" % (r["violated"], label), tail(r["out"], 300))
                raise ToolError("the system-data MODEL violates %s (%s): to be repaired in the spec, see %s"
                                % (r["violated"], label, rp))
            ctx.cov["states"] += r["distinct"]
            ctx.cov["transitions"] += r["states"]
            ctx.cov["model_runs"].append({"module": "MCSysData", "label": label, "constants": consts,
                                          "invariants": MC_INVS + ["Emit"], "states_generated": r["states"],
                                          "distinct": r["distinct"], "wall_s": r["wall_s"], "exhaustive": True})
            results[label] = (kind, r["replay"])
    return results


# ------------------------------------------------------------------ 2./3. generate, build, run

def budgets(tier, scale=1.0):
    if tier == "quick":
        b = {"n_mc": 800, "n_arity": 450, "n_rot": 52, "n_deep": 260, "n_wide": 200, "n_twin": 48, "n_storm": 16, "units": 8}
    else:
        b = {"n_mc": 9000, "n_arity": 0, "n_rot": 260, "n_deep": 3000, "n_wide": 2500, "n_twin": 400, "n_storm": 120, "units": 8}   # n_arity 0 = whole table
    if scale != 1.0:
        for k in ("n_mc", "n_arity", "n_rot", "n_deep", "n_wide", "n_twin"):
            b[k] = int(b[k] * scale) if b[k] else b[k]
    return b


def build_and_run(ctx, mc_results, tier, scale=1.0):
    """-> (generator stats, [(unit, summary, trace path)...]).  Generation, build and run happen under
    a lock on the harness directory (gen-out is shared); placeholders are restored afterwards so that
    the tree is left as committed and other builds do not compile a stale zoo."""
    zg = _zoo_gen()
    gen_out = os.path.join(vlib.HARNESS, "gen-out")
    os.makedirs(gen_out, exist_ok=True)
    desc_dir = ctx.path("zoo-desc")
    os.makedirs(desc_dir, exist_ok=True)
    b = budgets(tier, scale)
    mc_files = [p for (k, p) in mc_results.values() if k == "mc"]
    ar_files = [p for (k, p) in mc_results.values() if k == "arity"]
    lock_path = os.path.join(vlib.WORKROOT, "zoo-%s.lock" % hashlib.sha1(vlib.HARNESS.encode()).hexdigest()[:8])
    os.makedirs(vlib.WORKROOT, exist_ok=True)
    out = []
    with open(lock_path, "w") as lk:
        fcntl.flock(lk, fcntl.LOCK_EX)
        try:
            t = time.time()
            stats, units = zg.generate(mc_files, ar_files, ctx.seed, b["n_mc"], b["n_arity"], b["n_rot"], b["n_deep"],
                                       b["n_wide"], gen_out, desc_dir, units=b["units"], n_twin=b["n_twin"], n_storm=b["n_storm"])
            stats["gen_wall_s"] = round(time.time() - t, 1)
            # unoptimised, no debug info: the zoo is thousands of monomorphisations (x-zoo has its own target dir)
            saved = {k: os.environ.get(k) for k in ("CARGO_PROFILE_DEV_OPT_LEVEL", "CARGO_PROFILE_DEV_DEBUG")}
            os.environ["CARGO_PROFILE_DEV_OPT_LEVEL"] = "0"
            os.environ["CARGO_PROFILE_DEV_DEBUG"] = "0"
            try:
                vlib._built.pop("par-x-zoo", None)      # the sources have just been regenerated
                t = time.time()
                bindir = build_harness(True, FEATURES)
                stats["build_wall_s"] = round(time.time() - t, 1)
            finally:
                for k, v in saved.items():
                    if v is None:
                        os.environ.pop(k, None)
                    else:
                        os.environ[k] = v

            def run(u):
                tr = ctx.path("zoo-trace-%s.ndjson" % u["bin"])
                s = run_bin(ctx, u["bin"], ["--desc", u["desc"], "--out", tr, "--seed", ctx.seed], features=FEATURES, timeout=900)
                if s.get("hash") != u["hash"] or s.get("cases") != u["types"]:
                    raise ToolError("zoo binary %s does not belong to this generation (%s/%s cases %s/%s)"
                                    % (u["bin"], s.get("hash"), u["hash"], s.get("cases"), u["types"]))
                return u, s, tr

            with concurrent.futures.ThreadPoolExecutor(max_workers=8) as ex:
                out = list(ex.map(run, units))
        finally:
            zg.placeholders(gen_out)
            fcntl.flock(lk, fcntl.LOCK_UN)
    return stats, out


# ------------------------------------------------------------------ 4. trace validation

def _blocks_with_offsets(path):
    blocks = split_blocks(path)
    return blocks


def validate_traces(ctx, runs, invariants, par=4):
    """TLC (SysDataTrace) on every unit's trace, `par` at a time.  Raises Violation for the first
    failing property invariant (replay = the block of the failing type), ToolError for InvWF."""
    invs = ["InvWF"] + list(invariants) + ["InvDriftReport"]

    def one(item):
        u, s, tr = item
        sub = _Sub(ctx, "tv-" + u["bin"])
        return u, s, tr, tlc_trace(sub, "SysDataTrace", tr, invs, timeout=1500)

    drift = 0
    with concurrent.futures.ThreadPoolExecutor(max_workers=par) as ex:
        results = list(ex.map(one, runs))
    for u, s, tr, res in results:
        if res["accepted"]:
            ctx.cov["states"] += res["states"]
            ctx.cov["transitions"] += max(res["states"] - 1, 0)
            ctx.cov["traces_validated_against_impl"] += s["cases"]
            with open(res["out"]) as f:
                for line in f:
                    m = re.match(r'<<"DRIFT", (\d+)>>', line)
                    if m:
                        drift += int(m.group(1))
            continue
        blocks = split_blocks(tr)
        bi = block_of_event(blocks, res["l"] or 1)
        blk = blocks[bi]
        if res["violated"] == "InvWF":
            rp = ctx.save_replay("malformed-seed%d.ndjson" % ctx.seed, "".join(blk))
            raise ToolError("malformed zoo trace block (generator/harness problem, not a verdict), see %s and %s" % (rp, res["out"]))
        prop = INV_PROP.get(res["violated"], ctx.prop)
        name = "%s-seed%d-%s.ndjson" % (res["violated"], ctx.seed, hashlib.sha1("".join(blk).encode()).hexdigest()[:8])
        rp = ctx.save_replay(name, "".join(blk))
        with open(rp + ".tlc.txt", "w") as f:
            f.write(tail(res["out"], 120))
        head = json.loads(blk[0])
        raise Violation(prop, "invariant %s fails on a trace of the real code: type %s (shape origin %s), event %s"
                        % (res["violated"], head.get("ty"), head.get("origin"), res["l"]), rp)
    if drift:
        ctx.note("model-drift: %d panicking fetches named a different member than the member-order semantics predicts "
                 "(kind of panic explained by the property predicate; not a verdict)" % drift)
    return drift


def zoo_pipeline(ctx, invariants, tier=None, scale=1.0, what="", light=False):
    tier = tier or ctx.tier
    t0 = time.time()
    mc = run_mc(ctx, tier, light=light)
    t1 = time.time()
    stats, runs = build_and_run(ctx, mc, tier, scale)
    t2 = time.time()
    tot = {}
    for u, s, tr in runs:
        for k, v in s.items():
            if isinstance(v, int):
                tot[k] = tot.get(k, 0) + v
    mism = [x for _, s, _ in runs for x in s.get("mismatch_samples", [])]
    ctx.cov["impl_runs"].append({
        "kind": "generated type zoo" + (" (%s)" % what if what else ""),
        "types": stats["types"], "compilation_units": stats["units"], "by_origin": stats["by_origin"],
        "derived_structs": stats["derived_structs"],
        "structs_without_lifetime_turned_into_tuples": stats["structs_without_lifetime_turned_into_tuples"],
        "members_spelled_as_bare_type_parameter": stats["members_spelled_as_bare_type_parameter"],
        "custom_handler_leaves": stats["custom_handler_leaves"],
        "dynamic_id_sibling_cells": stats["dynamic_id_sibling_cells"],
        "read_only_storm": {"shapes": tot.get("storm_blocks", 0), "concurrent_fetches": tot.get("storm_ops", 0),
                            "failed": tot.get("storm_fail", 0), "threads": "4 std + 3 rayon workers", "ms_per_shape": 30},
        "resources_with_panicking_default": stats["resources_with_panicking_default"],
        "max_struct_fields": stats["max_struct_fields"],
        "setup_runs_with_a_leaked_guard": tot.get("setup_leaked", 0), "setup_runs_that_panicked": tot.get("setup_panics", 0),
        "max_flattened_reads": stats["max_flattened_reads"], "max_flattened_writes": stats["max_flattened_writes"],
        "arities_present": stats["arities_present"], "arity_positions_covered": stats["arity_positions_covered"],
        "max_depth": stats["max_depth"], "tlc_emitted": stats["emitted"],
        "events": tot.get("events", 0), "fetch_runs": tot.get("fetch_runs", 0), "setup_runs": tot.get("setup_runs", 0),
        "exec_runs": tot.get("exec_runs", 0),
        "fetch_contexts": {"normal": tot.get("fetch_normal", 0),
                           "value_dropped_by_unwinding_panic": tot.get("fetch_dropped_by_unwinding", 0),
                           "fetch_issued_in_drop_while_unwinding": tot.get("fetch_in_drop_while_unwinding", 0)},
        "twin_blocks_same_type_name_distinct_resource_types": tot.get("twin_blocks", 0),
        "second_pass_blocks_declarations_requeried_in_shuffled_order": tot.get("second_pass", 0),
        "fetch_ok": tot.get("fetch_ok", 0), "fetch_panic_missing": tot.get("fetch_missing", 0),
        "fetch_panic_borrow": tot.get("fetch_borrow", 0), "fetch_panic_other": tot.get("fetch_other", 0),
        "fetch_with_foreign_borrow": tot.get("with_held", 0),
        "spec_to_impl_states_replayed": tot.get("model_runs", 0), "matched_model": tot.get("model_matched", 0),
        "differ_from_model": tot.get("model_mismatch", 0),
        "wall_s": {"tlc_mc": round(t1 - t0, 1), "generate": stats["gen_wall_s"], "cargo_build": stats["build_wall_s"],
                   "generate_build_run": round(t2 - t1, 1)},
    })
    for smp in stats["samples"]:
        ctx.sample({"kind": "generated type (from a TLC-emitted / composed shape)", "type": smp})
    for _, s, _ in runs[:1]:
        for smp in s.get("samples", [])[:2]:
            ctx.sample({"kind": "recorded observations of a real type (validated by SysDataTrace)", "case": smp})
    if mism:
        ctx.note("%d of %d replayed model states were observed differently on the real types; judged by the property predicates"
                 % (tot.get("model_mismatch", 0), tot.get("model_runs", 0)))
        for x in mism[:2]:
            ctx.sample({"kind": "observation differing from the TLC reference line", "case": x})
    t3 = time.time()
    validate_traces(ctx, runs, invariants)
    ctx.cov["impl_runs"][-1]["wall_s"]["tlc_trace_validation"] = round(time.time() - t3, 1)
    return stats, tot


# ------------------------------------------------------------------ checks

def check_C06(ctx):
    zoo_pipeline(ctx, INV_C06)
    ctx.cov["exhaustive"] = False
    ctx.assumptions += [
        "TLC enumerates shapes exhaustively only within the constants stated per model run; the types actually "
        "compiled are a seed-chosen sample of them plus composed shapes (every arity 1..26 always present)",
        "borrow state of a cell is observed single-threaded through try_fetch_internal + try_borrow_mut / try_borrow "
        "(free / shared / exclusive; the number of shared borrows is not observable, a leaked one is: the cell is not free after drop)",
        "harness/gen/zoo.py spells a shape as a Rust type faithfully (trusted; structs that cannot mention the fetch "
        "lifetime are turned into tuples and the shape table with them)",
    ]


def c13_sysdata_stage(ctx, scale=0.5):
    """Setup half of C13 on the real DefaultProvider / PanicHandler / Option code paths: for every
    generated type and every (or sampled) presence subset with distinctive values, TLC evaluates
    P_C13_world on the observed world before/after setup (InvC13world).  Adds to ctx's evidence."""
    stats, tot = zoo_pipeline(ctx, INV_C13, scale=scale, what="C13 world half", light=True)
    ctx.assumptions.append("C13 world half: Default::default() of the zoo's resource types yields a value distinct from every "
                           "pre-existing value, so an overwritten resource is visible")
    return {"types": stats["types"], "setup_runs": tot.get("setup_runs", 0)}


def replay_C06(ctx, path):
    res = tlc_trace(ctx, "SysDataTrace", path, ["InvWF"] + INV_C06)
    if not res["accepted"]:
        if res["violated"] == "InvWF":
            raise ToolError("malformed replay file %s" % path)
        raise Violation("C06", "invariant %s fails on replay" % res["violated"], path)


def replay_C13_world(ctx, path):
    res = tlc_trace(ctx, "SysDataTrace", path, ["InvWF"] + INV_C13)
    if not res["accepted"]:
        if res["violated"] == "InvWF":
            raise ToolError("malformed replay file %s" % path)
        raise Violation("C13", "invariant %s fails on replay" % res["violated"], path)


CHECKS = {"C06": check_C06}
REPLAY_FNS = {"C06": replay_C06, "C13-world": replay_C13_world}


# ------------------------------------------------------------------ binding demonstration (not a property check)

def corruption_demo(ctx, scale=0.05):
    """Records good traces of the real types (small zoo), checks that they are accepted, then flips ONE
    field of one event at a time and expects the named invariant to fail.  Returns the result table."""
    mc = run_mc(ctx, "quick")
    stats, runs = build_and_run(ctx, mc, "quick", scale)
    u, s, tr = runs[0]
    lines = open(tr).read().splitlines()
    evs = [json.loads(x) for x in lines]

    def first(pred):
        return next(i for i, e in enumerate(evs) if pred(e))

    def edit(i, f):
        e = json.loads(lines[i])
        f(e)
        return i, e

    corruptions = [
        ("decl: last element of reads() removed", "InvC06decl",
         lambda: edit(first(lambda e: e["ev"] == "decl" and e["via"] == "type" and len(e["reads"]) >= 1), lambda e: e["reads"].pop())),
        ("decl(accessor): writes() duplicated element", "InvC06decl",
         lambda: edit(first(lambda e: e["ev"] == "decl" and e["via"] == "accessor" and len(e["writes"]) >= 1), lambda e: e["writes"].append(e["writes"][-1]))),
        ("fetch ok: a shared cell reported free while alive", "InvC06borrow",
         lambda: edit(first(lambda e: e["ev"] == "fetch" and e["out"] == "ok" and 1 in e["alive"]), lambda e: e["alive"].__setitem__(e["alive"].index(1), 0))),
        ("fetch ok: an untouched cell reported exclusive while alive", "InvC06borrow",
         lambda: edit(first(lambda e: e["ev"] == "fetch" and e["out"] == "ok" and 0 in e["alive"]), lambda e: e["alive"].__setitem__(e["alive"].index(0), 2))),
        ("fetch: a cell still shared after drop", "InvC06borrow",
         lambda: edit(first(lambda e: e["ev"] == "fetch" and e["out"] == "ok" and 0 in e["after"]), lambda e: e["after"].__setitem__(e["after"].index(0), 1))),
        ("fetch: ok turned into a missing-resource panic", "InvC06borrow",
         lambda: edit(first(lambda e: e["ev"] == "fetch" and e["out"] == "ok" and all(e["present"])), lambda e: e.__setitem__("out", "missing"))),
        ("setup: a pre-existing value changed", "InvC13world",
         lambda: edit(first(lambda e: e["ev"] == "setup" and any(e["w0"])), lambda e: e["w1"].__setitem__([k for k, v in enumerate(e["w0"]) if v][0], e["w1"][[k for k, v in enumerate(e["w0"]) if v][0]] + 1))),
        ("setup: a created resource missing from the world afterwards", "InvC13world",
         lambda: edit(first(lambda e: e["ev"] == "setup" and e["created"]), lambda e: e["w1"].__setitem__(e["created"][0] - 1, 0))),
        ("exec: world after setup+fetch lacks a default-provided resource", "InvC13world",
         lambda: edit(first(lambda e: e["ev"] == "exec" and e["created"]), lambda e: e["w1"].__setitem__(e["created"][0] - 1, 0))),
        ("exec: a cell still exclusively borrowed after the closure returned", "InvC06borrow",
         lambda: edit(first(lambda e: e["ev"] == "exec" and 0 in e["after"]), lambda e: e["after"].__setitem__(e["after"].index(0), 2))),
        ("setup: a custom setup handler's call is missing", "InvC06setup",
         lambda: edit(first(lambda e: e["ev"] == "setup" and e["calls"]), lambda e: e["calls"].pop())),
        ("setup: Default::default() call sequence loses its last element", "InvC06setup",
         lambda: edit(first(lambda e: e["ev"] == "setup" and e["created"]), lambda e: e["created"].pop())),
    ]
    good = tlc_trace(_Sub(ctx, "cd-good"), "SysDataTrace", tr, ["InvWF"] + INV_C06 + INV_C13)
    table = [{"corruption": "none (recorded trace of %d events)" % len(lines), "expected": "accepted",
              "got": "accepted" if good["accepted"] else good["violated"]}]
    for k, (what, inv, mk) in enumerate(corruptions):
        i, e = mk()
        p = ctx.path("corrupt%d.ndjson" % k)
        with open(p, "w") as f:
            for j, line in enumerate(lines):
                f.write((json.dumps(e) if j == i else line) + "\n")
        res = tlc_trace(_Sub(ctx, "cd%d" % k), "SysDataTrace", p, ["InvWF", inv])
        table.append({"corruption": what, "event": i + 1, "expected": inv, "got": res["violated"] or "accepted"})
    return table
